//! C07, stream `cycle:<seed>`: accepted programs whose call graph has CYCLES.
//!
//! `GlobalUsageAnalysis::recurse` (ir/src/usage_analysis.rs) closes the "requires" relation over a
//! `HashMap<UsageSymbol, HashSet<UsageSymbol>>`; the Metal exporter turns the closed set of a function into its
//! implicit parameter list and into `is_used` of the bindings.  On an acyclic call graph almost every way of computing
//! the closure gives the same sets; on a cycle only a real fixpoint does - a single memoised depth-first pass (seeded
//! mutant C07-6) leaves one member of the cycle with a partial set, and WHICH member follows the hash order.
//!
//! Shapes: mutual recursion of 2-4 functions through forward declarations, self recursion, 1-6 cycles per program,
//! chords inside a cycle, calls from one cycle into another (one-way = nested components, both ways = one bigger
//! component), cycles inside namespaces, every member reaching its OWN globals / resources directly and through
//! helper chains of depth 1-3 (so an incomplete set is visible as a missing parameter), static globals whose
//! initialiser calls a helper or a cycle member (a cycle can run through a global variable), 1-2 entry points that
//! each reach only some of the cycles.
use crate::util::Rng;

/// A global of the generated program: its declaration and an `int` valued expression that reads it
struct Glob {
    decl: String,
    read: String,
    /// statement that writes it (static / groupshared / RW buffer), if any
    write: Option<String>,
}

struct Pool {
    globs: Vec<Glob>,
}

impl Pool {
    /// declare a fresh global of a random kind; returns its index
    fn fresh(&mut self, rng: &mut Rng) -> usize {
        let k = self.globs.len();
        let g = match rng.below(9) {
            0 | 1 => Glob {
                decl: format!("static int s_{} = {};\n", k, rng.below(5)),
                read: format!("s_{}", k),
                write: Some(format!("s_{} = s_{} + 1;", k, k)),
            },
            2 => Glob {
                decl: format!("groupshared int gs_{}[4];\n", k),
                read: format!("gs_{}[1]", k),
                write: Some(format!("gs_{}[0] = n;", k)),
            },
            3 => Glob {
                decl: format!("RWByteAddressBuffer g_rw_{};\n", k),
                read: format!("(int)g_rw_{}.Load(0)", k),
                write: Some(format!("g_rw_{}.Store(4, (uint)n);", k)),
            },
            4 => Glob { decl: format!("ByteAddressBuffer g_ro_{};\n", k), read: format!("(int)g_ro_{}.Load(0)", k), write: None },
            5 => Glob {
                decl: format!("Texture2D<float4> g_tex_{};\n", k),
                read: format!("(int)g_tex_{}.Load(int3(0, 0, 0)).x", k),
                write: None,
            },
            6 => Glob {
                decl: format!("cbuffer CB_{}\n{{\n    float4 cbm_{};\n}};\n", k, k),
                read: format!("(int)cbm_{}.x", k),
                write: None,
            },
            7 => Glob { decl: format!("static const int c_{} = {};\n", k, rng.range(1, 9)), read: format!("c_{}", k), write: None },
            _ => Glob { decl: format!("StructuredBuffer<uint> g_sb_{};\n", k), read: format!("(int)g_sb_{}[0]", k), write: None },
        };
        self.globs.push(g);
        k
    }

    /// statements of a function body that touch global `g`
    fn touch(&self, g: usize, rng: &mut Rng) -> String {
        let gl = &self.globs[g];
        match &gl.write {
            Some(w) if rng.chance(1, 2) => format!("    {}\n", w),
            _ => format!("    r = r + {};\n", gl.read),
        }
    }
}

struct Func {
    /// name as written in its declaration
    leaf: String,
    /// qualified name for callers
    path: String,
    /// namespace of the declaration (None = global scope)
    ns: Option<String>,
    globals: Vec<usize>,
    calls: Vec<String>,
}

fn body(pool: &Pool, f: &Func, rng: &mut Rng) -> String {
    let mut s = format!("int {}(int n)\n{{\n    int r = n;\n", f.leaf);
    // reads / writes and calls in a seeded order (the HashSet order of the compiler is not ours to choose)
    let mut before: Vec<String> = Vec::new();
    let mut after: Vec<String> = Vec::new();
    for g in &f.globals {
        if rng.chance(2, 3) { before.push(pool.touch(*g, rng)) } else { after.push(pool.touch(*g, rng)) }
    }
    for c in &f.calls {
        after.push(format!("    r = r + {}(n - 1);\n", c));
    }
    shuffle(rng, &mut before);
    shuffle(rng, &mut after);
    for l in &before {
        s.push_str(l);
    }
    s.push_str("    if (n <= 0)\n    {\n        return r;\n    }\n");
    for l in &after {
        s.push_str(l);
    }
    s.push_str("    return r;\n}\n");
    s
}

fn shuffle<T>(rng: &mut Rng, v: &mut [T]) {
    for i in (1..v.len()).rev() {
        let j = rng.below(i as u64 + 1) as usize;
        v.swap(i, j);
    }
}

/// Shape statistics of one generated program (for the input distribution of the run)
pub struct CycleShape {
    pub cycles: usize,
    pub longest: usize,
    pub self_recursive: usize,
    pub cross_calls: usize,
    pub init_calls: usize,
    pub namespaces: usize,
    /// length of the deep helper chain (0 = none)
    pub deep_chain: usize,
}

pub fn cycle_program(rng: &mut Rng) -> (String, CycleShape) {
    let mut pool = Pool { globs: Vec::new() };
    let ncyc = if rng.chance(2, 3) { rng.range(4, 6) } else { rng.range(1, 3) } as usize;
    let mut shape = CycleShape { cycles: ncyc, longest: 0, self_recursive: 0, cross_calls: 0, init_calls: 0, namespaces: 0, deep_chain: 0 };

    // ---- cycles: members and the calls between them
    let mut cycles: Vec<Vec<Func>> = Vec::new();
    let mut helpers: Vec<Func> = Vec::new();
    for c in 0..ncyc {
        let len = match rng.below(8) {
            0 => 1,
            1 | 2 => 2,
            3 | 4 | 5 => 3,
            _ => 4,
        } as usize;
        shape.longest = shape.longest.max(len);
        if len == 1 {
            shape.self_recursive += 1;
        }
        let ns = if rng.chance(1, 4) { Some(format!("ns{}", c)) } else { None };
        if ns.is_some() {
            shape.namespaces += 1;
        }
        let mut members: Vec<Func> = Vec::new();
        for i in 0..len {
            let leaf = format!("walk_{}_{}", c, i);
            let path = match &ns { Some(n) => format!("{}::{}", n, leaf), None => leaf.clone() };
            members.push(Func { leaf, path, ns: ns.clone(), globals: Vec::new(), calls: Vec::new() });
        }
        for i in 0..len {
            // the cycle edge
            let next = members[(i + 1) % len].path.clone();
            members[i].calls.push(next);
            // a chord
            if len >= 3 && rng.chance(1, 3) {
                let j = rng.below(len as u64) as usize;
                let p = members[j].path.clone();
                if !members[i].calls.contains(&p) {
                    members[i].calls.push(p);
                }
            }
            // its own globals (fresh ones: a partial set shows as a missing parameter)
            for _ in 0..rng.range(0, 2) {
                let g = pool.fresh(rng);
                members[i].globals.push(g);
            }
            // a global shared with an earlier function
            if !pool.globs.is_empty() && rng.chance(1, 4) {
                let g = rng.below(pool.globs.len() as u64) as usize;
                if !members[i].globals.contains(&g) {
                    members[i].globals.push(g);
                }
            }
            // helper chains with a fresh global at the leaf (and sometimes on the way)
            for h in 0..rng.range(0, 2) {
                let depth = rng.range(1, 3) as usize;
                let mut below: Option<String> = None;
                for d in (0..depth).rev() {
                    let leaf = format!("help_{}_{}_{}_{}", c, i, h, d);
                    let mut f = Func { leaf: leaf.clone(), path: leaf.clone(), ns: None, globals: Vec::new(), calls: Vec::new() };
                    if below.is_none() || rng.chance(1, 3) {
                        let g = pool.fresh(rng);
                        f.globals.push(g);
                    }
                    if let Some(b) = &below {
                        f.calls.push(b.clone());
                    }
                    // an older helper as well: shared tails between the chains of different members
                    if !helpers.is_empty() && rng.chance(1, 5) {
                        let o = rng.pick(&helpers).path.clone();
                        f.calls.push(o);
                    }
                    helpers.push(f);
                    below = Some(leaf);
                }
                members[i].calls.push(below.unwrap());
            }
        }
        cycles.push(members);
    }
    // ---- sometimes one DEEP helper chain (9-24 calls) below a member: a closure loop that stops after a fixed number
    // of sweeps (instead of running to the fixpoint) is complete or not depending on the key order
    if rng.chance(1, 3) {
        let depth = rng.range(9, 24) as usize;
        let mut below: Option<String> = None;
        for d in (0..depth).rev() {
            let leaf = format!("deep_{}", d);
            let mut f = Func { leaf: leaf.clone(), path: leaf.clone(), ns: None, globals: Vec::new(), calls: Vec::new() };
            if below.is_none() || d % 4 == 0 {
                let g = pool.fresh(rng);
                f.globals.push(g);
            }
            if let Some(b) = &below {
                f.calls.push(b.clone());
            }
            helpers.push(f);
            below = Some(leaf);
        }
        let c = rng.below(ncyc as u64) as usize;
        let l = cycles[c].len();
        cycles[c][rng.below(l as u64) as usize].calls.push(below.unwrap());
        shape.deep_chain = depth;
    }
    // ---- calls from one cycle into another (targets in the global scope only: they are declared up front)
    let global_scope: Vec<usize> = (0..ncyc).filter(|c| cycles[*c][0].ns.is_none()).collect();
    if ncyc > 1 && !global_scope.is_empty() {
        for c in 0..ncyc {
            if rng.chance(1, 3) {
                let to = *rng.pick(&global_scope);
                if to != c {
                    let tl = cycles[to].len();
                    let target = cycles[to][rng.below(tl as u64) as usize].path.clone();
                    let fl = cycles[c].len();
                    let from = rng.below(fl as u64) as usize;
                    if !cycles[c][from].calls.contains(&target) {
                        cycles[c][from].calls.push(target);
                        shape.cross_calls += 1;
                    }
                }
            }
        }
    }
    // ---- static globals initialised by a call (declared after the helpers and the forward declarations)
    let mut init_globals: Vec<String> = Vec::new();
    let mut init_names: Vec<(String, usize)> = Vec::new();
    for k in 0..rng.range(0, 3) {
        let callee = if !global_scope.is_empty() && (helpers.is_empty() || rng.chance(1, 2)) {
            let c = *rng.pick(&global_scope);
            let l = cycles[c].len();
            cycles[c][rng.below(l as u64) as usize].path.clone()
        } else if !helpers.is_empty() {
            rng.pick(&helpers).path.clone()
        } else {
            continue;
        };
        let name = format!("s_init_{}", k);
        init_globals.push(format!("static int {} = {}({});\n", name, callee, rng.range(0, 3)));
        // some member reads it (maybe a member of the very cycle its initialiser calls)
        let c = rng.below(ncyc as u64) as usize;
        init_names.push((name, c));
        shape.init_calls += 1;
    }

    // ---- text
    let mut s = String::new();
    let mut decls: Vec<String> = pool.globs.iter().map(|g| g.decl.clone()).collect();
    shuffle(rng, &mut decls);
    for d in &decls {
        s.push_str(d);
    }
    let mut fwd: Vec<String> = Vec::new();
    for c in &global_scope {
        for m in &cycles[*c] {
            fwd.push(format!("int {}(int n);\n", m.leaf));
        }
    }
    shuffle(rng, &mut fwd);
    for f in &fwd {
        s.push_str(f);
    }
    for h in &helpers {
        s.push_str(&body(&pool, h, rng));
    }
    for g in &init_globals {
        s.push_str(g);
    }
    // definitions: one unit per global-scope member, one block per namespace cycle
    let mut units: Vec<String> = Vec::new();
    for (c, members) in cycles.iter().enumerate() {
        let mut texts: Vec<String> = Vec::new();
        for (i, m) in members.iter().enumerate() {
            let mut t = body(&pool, m, rng);
            // reads of the call-initialised globals go into the first member of the chosen cycle
            if i == 0 {
                for (name, cc) in &init_names {
                    if *cc == c {
                        t = t.replacen("    int r = n;\n", &format!("    int r = n + {};\n", name), 1);
                    }
                }
            }
            texts.push(t);
        }
        shuffle(rng, &mut texts);
        match &members[0].ns {
            Some(ns) => {
                let mut block = format!("namespace {}\n{{\n", ns);
                let mut f: Vec<String> = members.iter().map(|m| format!("int {}(int n);\n", m.leaf)).collect();
                shuffle(rng, &mut f);
                for l in &f {
                    block.push_str(l);
                }
                for t in &texts {
                    block.push_str(t);
                }
                block.push_str("}\n");
                units.push(block);
            }
            None => units.extend(texts),
        }
    }
    shuffle(rng, &mut units);
    for u in &units {
        s.push_str(u);
    }
    // ---- entry points: each reaches some of the cycles (a cycle nobody reaches stays unused)
    let nentries = rng.range(1, 2) as usize;
    for e in 0..nentries {
        s.push_str(&format!("[numthreads(1, 1, 1)]\nvoid entry_{}()\n{{\n", e));
        let mut any = false;
        for c in 0..ncyc {
            if rng.chance(2, 3) || (!any && c + 1 == ncyc) {
                let l = cycles[c].len();
                let m = &cycles[c][rng.below(l as u64) as usize];
                s.push_str(&format!("    {}({});\n", m.path, rng.range(1, 4)));
                any = true;
            }
        }
        s.push_str("}\n");
    }
    for e in 0..nentries {
        s.push_str(&format!("Pipeline P{}\n{{\n    ComputeShader = entry_{};\n}}\n", e, e));
    }
    (s, shape)
}

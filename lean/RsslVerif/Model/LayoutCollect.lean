import RsslVerif.Model.Layout
/-!
# Model of the collection half of `check_layout` (C19): which types are validated

`check_layout` walks the module's global registry and its function registry and gathers the element
types it will compare (`types_to_check`, de-duplicated through `types_seen`), then runs the loop modelled by
`Model.Layout.checkAll` over them.  This file models the two gathering loops over an abstract module:
the list of globals (the layers of each global's type that the loop can see) and the list of functions
(intrinsic tag, template instantiation data).  Which object kinds / intrinsics are matched comes from
`Gen.LayoutTables.checkedObjects` / `checkedIntrinsics`, how the global loop peels a global's type from
`globalPeelOps`, whether dependent type arguments are skipped from `fnLoopSkipsDependent` (all re-extracted from
the source on every run); the fixed text of the loops is pinned by the translator (`Gen.LayoutSites`, an `ExtractError` when it changes).
Core Lean only.
-/
namespace RsslVerif.Model.LayoutCollect
open RsslVerif.Gen.LayoutTables RsslVerif.Model.Layout

/-- a `TypeId` together with the type it denotes -/
structure TyRef where
  id : Nat
  ty : Ty

/-- the layers of a global's type as far as the global loop can tell them apart -/
inductive GTy where
  /-- `TypeLayer::Object(kind(elem))`; `elem = none` for object types without an element type -/
  | object (kind : String) (elem : Option TyRef)
  | modifier (inner : GTy)
  | array (inner : GTy)
  /-- any other layer (struct, scalar, ...) -/
  | other

structure Global where
  ty : GTy
  /-- stands for `global.name.location` -/
  loc : String

inductive TArg where
  | type (r : TyRef)
  | const

structure Fn where
  /-- `get_intrinsic_data(id)` -/
  intrinsic : Option String
  /-- `get_template_instantiation_data(id)`: the template arguments -/
  template : Option (List TArg)

structure Module where
  globals : List Global
  fns : List Fn

/-- `TypeRegistry::remove_modifier` = `extract_modifier(id).0`: looks below *one* `Modifier` layer (the registry never
    puts a modifier on a modifier: `combine_modifier` asserts it) -/
def removeModifier : GTy → GTy
  | .modifier t => t
  | t => t

/-- `TypeRegistry::get_non_array_id`: looks below consecutive `Array` layers (and stops at anything else, a
    `Modifier` included) -/
def nonArray : GTy → GTy
  | .array t => nonArray t
  | t => t

/-- `while let TypeLayer::Array(inner, _) = layer(ty) { ty = remove_modifier(inner); }` (since fix bdddd35):
    below every `Array` layer, and below one `Modifier` after each of them -/
def whileArray : GTy → GTy
  | .array (.modifier t) => whileArray t
  | .array t => whileArray t
  | t => t

def peelStep : PeelOp → GTy → GTy
  | .removeModifier, t => removeModifier t
  | .nonArray, t => nonArray t
  | .whileArrayRemoveModifier, t => whileArray t

/-- the `let ty = …;` statements at the head of the global loop (`Gen.LayoutTables.globalPeelOps`) -/
def peel : List PeelOp → GTy → GTy
  | [], t => t
  | op :: ops, t => peel ops (peelStep op t)

/-- one entry of `types_to_check` -/
structure Entry where
  ref : TyRef
  loc : String

structure Acc where
  /-- `types_to_check`, in push order -/
  list : List Entry
  /-- `types_seen` -/
  seen : List Nat

def Acc.push (a : Acc) (r : TyRef) (loc : String) : Acc :=
  if a.seen.contains r.id then a else ⟨a.list ++ [⟨r, loc⟩], r.id :: a.seen⟩

/-- body of `for global in &module.global_registry` -/
def stepGlobal (a : Acc) (g : Global) : Acc :=
  match peel globalPeelOps g.ty with
  | .object k (some r) => if checkedObjects.contains k then a.push r g.loc else a
  | _ => a

def isStruct : Ty → Bool
  | .struct _ => true
  | _ => false

/-- `Module::get_type_location`: the struct's definition, `UNKNOWN` for anything else -/
def typeLocation (r : TyRef) : String :=
  if isStruct r.ty then "T" ++ toString r.id else "?"

/-- `is_dependent_type`: is the type built from a template parameter?  (The source also looks through
    `Vector`, `Matrix` and `Modifier` layers; a vector / matrix of a template parameter is not expressible in `Ty`,
    modifiers are not modelled.) -/
def isDependent : Ty → Bool
  | .other .TemplateParam => true
  | .arr t _ => isDependent t
  | _ => false

/-- body of `for i in 0..module.function_registry.get_function_count()` -/
def stepFn (a : Acc) (f : Fn) : Except Err Acc :=
  match f.intrinsic with
  | none => .ok a
  | some i =>
    if !checkedIntrinsics.contains i then .ok a
    else match f.template with
      | none => .ok a
      | some [.type r] =>
        if fnLoopSkipsDependent && isDependent r.ty then .ok a else .ok (a.push r (typeLocation r))
      | some _ => .error (.panic ("invalid " ++ i ++ " intrinsic"))

def foldFns : List Fn → Acc → Except Err Acc
  | [], a => .ok a
  | f :: fs, a =>
    match stepFn a f with
    | .ok a' => foldFns fs a'
    | .error e => .error e

/-- `types_to_check` after both loops -/
def collect (m : Module) : Except Err (List Entry) :=
  match foldFns m.fns (m.globals.foldl stepGlobal ⟨[], []⟩) with
  | .ok a => .ok a.list
  | .error e => .error e

/-- `check_layout(module)`; a `mismatch i` / `unknown i` verdict refers to the `i`-th collected entry -/
def checkLayout (m : Module) : Verdict :=
  match collect m with
  | .ok l => checkAll (l.map (·.ref.ty))
  | .error (.panic msg) => .panic msg
  | .error .unknown => .panic "model: collection has no unknown"

end RsslVerif.Model.LayoutCollect

//! Driver of the vector / struct / array / enum stream (`C01.vfn` requests).
#![allow(dead_code)]
use super::sx::*;
use super::vconv::*;
use crate::compile_util::*;
use crate::util::*;
use rssl::ir;

pub fn parse_text_module(text: &str) -> Result<rssl_ast::Module, String> {
    let mut sm = rssl::text::SourceManager::new();
    let mut inc = MemFiles(vec![("out.hlsl".to_string(), text.to_string())]);
    let tokens = rssl::preprocess::preprocess("out.hlsl", &mut sm, &mut inc, &[]).map_err(|_| "preprocess".to_string())?;
    let tokens = rssl::preprocess::prepare_tokens(&tokens);
    rssl::parser::parse(&tokens).map_err(|_| "parse".to_string())
}

pub struct VPrepared {
    pub ir: ir::Module,
    /// struct / enum / global / fn items of the IR
    pub prog: Vec<Sx>,
    /// (function id, source name, emitted name)
    pub funcs: Vec<(u32, String, String)>,
    /// (global id, emitted name)
    pub globals: Vec<(u32, String)>,
}

pub fn vprepare(src: &str, hist: &mut Hist) -> Result<VPrepared, String> {
    let ir = match front_end_src(src) {
        Ok(m) => m,
        Err(e) => return Err(format!("front end ({}): {}", e.stage(), one_line(&e.text().chars().take(160).collect::<String>()))),
    };
    let names = ir::name_generator::NameMap::build(&ir, &[], false);
    let mut cv = VConv::new(&ir);
    let mut items = Vec::new();
    let mut funcs = Vec::new();
    let mut globals = Vec::new();
    for rd in &ir.root_definitions {
        match rd {
            ir::RootDefinition::Function(id) if !ir.function_registry.get_function_signature(*id).template_params.is_empty() => {
                // a function template: its instantiations are functions of their own (as the exporter emits them)
                for child in ir.function_registry.iter() {
                    if let Some(data) = ir.function_registry.get_template_instantiation_data(child) {
                        if data.parent_id == *id {
                            if let Some(f) = cv.func(child, hist) {
                                items.push(f);
                                funcs.push((
                                    child.0,
                                    ir.function_registry.get_function_name(child).to_string(),
                                    names.get_name_qualified(ir::name_generator::NameSymbol::Function(child)).0.join("::"),
                                ));
                            }
                        }
                    }
                }
            }
            ir::RootDefinition::Function(id) => {
                if let Some(f) = cv.func(*id, hist) {
                    items.push(f);
                    funcs.push((
                        id.0,
                        ir.function_registry.get_function_name(*id).to_string(),
                        names.get_name_qualified(ir::name_generator::NameSymbol::Function(*id)).0.join("::"),
                    ));
                }
            }
            ir::RootDefinition::GlobalVariable(id) => {
                let g = &ir.global_registry[id.0 as usize];
                let name = names.get_name_qualified(ir::name_generator::NameSymbol::GlobalVariable(*id)).0.join("::");
                let mut v = vec![a(&id.0.to_string())];
                if g.storage_class != ir::GlobalStorage::Static {
                    v.push(node("unsupported", vec![a("GlobalStorage")]));
                } else {
                    let t = ir_vtype(&ir, g.type_id);
                    v.push(t);
                    if let Some(i) = &g.init {
                        v.push(cv.init(i, hist));
                    }
                }
                items.push(node("global", v));
                globals.push((id.0, name));
            }
            ir::RootDefinition::Struct(_) | ir::RootDefinition::Enum(_) => {}
            ir::RootDefinition::FunctionDeclaration(_) => {}
            _ => items.push(node("unsupported", vec![a("RootDefinition")])),
        }
    }
    // every struct / enum of the module (cheap, and the evaluators look them up by id); methods are functions
    let mut prog = Vec::new();
    for i in 0..ir.struct_registry.len() {
        prog.push(cv.struct_def(ir::StructId(i as u32)));
        for mid in ir.struct_registry[i].methods.clone() {
            match cv.func(mid, hist) {
                Some(f) => items.push(f),
                None => items.push(node("unsupported", vec![a("MethodWithoutBody")])),
            }
        }
    }
    for i in 0..ir.enum_registry.get_enum_count() {
        prog.push(cv.enum_def(ir::EnumId(i)));
    }
    prog.extend(items);
    Ok(VPrepared { ir, prog, funcs, globals })
}

pub fn vdump(src: &str) {
    let mut hist = Hist::default();
    let prepared = match guard(|| vprepare(src, &mut Hist::default())) {
        Ok(p) => p,
        Err(pn) => {
            println!("panic {}", pn);
            return;
        }
    };
    let _ = &mut hist;
    match prepared {
        Ok(p) => {
            for f in &p.prog {
                println!("IR  {}", f.show());
            }
            for t in [Tgt::Dx, Tgt::Vk] {
                match compile_src(src, t, Mode::NoPipeline) {
                    CompileOutcome::Ok(ps) => {
                        println!("TEXT {}\n{}", t.name(), ps[0].text());
                        match parse_text_module(&ps[0].text()) {
                            Ok(m) => {
                                for i in TConv::new(&m).module(&m) {
                                    println!("AST {}", i.show());
                                }
                            }
                            Err(e) => println!("reparse failed: {}", e),
                        }
                    }
                    CompileOutcome::Err(e) => println!("compile error {}", e),
                    CompileOutcome::Panic(p) => println!("compile panic {}", p),
                }
            }
        }
        Err(e) => println!("{}", e),
    }
}

// ------------------------------------------------------------------------------------------------ running
use super::virev::*;
use super::vtxev::*;
use super::vval::*;

fn arg_scalar(rng: &mut Rng, t: T, zero: bool) -> V {
    // edge values (sx.rs: NaNs, both zeros, infinities, subnormals, FLT_MAX, the conversion limits; INT_MIN / INT_MAX /
    // UINT_MAX, shift counts around 32) two times out of three, random bits otherwise
    let edge = rng.chance(2, 3);
    let r = rng.next() as u32;
    let raw = if zero { 0 } else if !edge { r } else if t == T::Float { *rng.pick(&FLOAT_EDGES) } else { *rng.pick(&INT_EDGES) };
    match t {
        T::Bool => V::B(raw & 1 == 1),
        T::Int => V::I(raw),
        T::Uint => V::U(raw),
        T::Float => V::F(raw),
        _ => V::Void,
    }
}

/// a value of type `t`; vectors get pairwise different components most of the time (so that replicate / truncate / permute
/// mistakes change the result)
fn arg_value(rng: &mut Rng, types: &Types, t: &Ty, zero: bool) -> Option<VV> {
    Some(match t {
        Ty::S(s) => VV::S(arg_scalar(rng, *s, zero)),
        Ty::V(s, n) => VV::V((0..*n).map(|_| arg_scalar(rng, *s, zero)).collect()),
        Ty::M(s, r, c) => VV::M(*r, *c, (0..r * c).map(|_| arg_scalar(rng, *s, zero)).collect()),
        Ty::Enum(k) => {
            let (_, vals) = types.enums.get(k)?;
            if vals.is_empty() {
                return None;
            }
            VV::S(if zero { vals[0].1 } else { rng.pick(vals).1 })
        }
        Ty::Struct(k) => {
            let members = types.structs.get(k)?.clone();
            VV::St(members.iter().map(|(_, mt)| arg_value(rng, types, mt, zero)).collect::<Option<Vec<_>>>()?)
        }
        Ty::Arr(e, n) => VV::Ar((0..*n).map(|_| arg_value(rng, types, e, zero)).collect::<Option<Vec<_>>>()?),
        Ty::Void => return None,
    })
}

pub fn show_vvectors(vs: &[Vec<VV>]) -> String {
    vs.iter().map(|v| v.iter().map(|x| x.show()).collect::<Vec<_>>().join(",")).collect::<Vec<_>>().join(";")
}

pub fn parse_vvectors(s: &str) -> Option<Vec<Vec<VV>>> {
    if s.is_empty() {
        return Some(vec![vec![]]);
    }
    s.split(';').map(|v| if v.is_empty() { Some(vec![]) } else { v.split(',').map(VV::parse).collect::<Option<Vec<VV>>>() }).collect()
}

fn has_unsupported(items: &[Sx]) -> Option<String> {
    fn find(s: &Sx) -> Option<String> {
        if let Sx::L(v) = s {
            if s.head() == "unsupported" {
                return Some(s.args().first().map(|x| x.atom().to_string()).unwrap_or_default());
            }
            return v.iter().find_map(find);
        }
        None
    }
    items.iter().find_map(find)
}

/// One request per user function of the program: `C01.vfn \t source \t function \t argument vectors \t - \t <ir>`.
pub fn vrun_program(src: &str, only: Option<(&str, &[Vec<VV>])>, nvec: usize, rng: &mut Rng, out: &mut Out, hist_all: &mut Hist) {
    // the distribution of this stream is reported under its own prefix
    let mut local = Hist::default();
    vrun_program_inner(src, only, nvec, rng, out, &mut local, false);
    for (k, n) in &local.0 {
        let key = if k.starts_with("v:") { k.clone() } else { format!("v:{}", k) };
        *hist_all.0.entry(key).or_insert(0) += *n;
    }
}

/// `C01.vex`: the same run, reported at expression level for the Lean vector model — request
/// `C01.vex \t source \t function \t argument vectors \t vars=<id>:<emitted name>:<type>,… \t <IR of the returned expression>`,
/// observation `vast <exporter's tree of the returned expression> ;; run <IR value per vector>`; the function must be
/// `T f(in params) { return E; }`
pub fn vex_program(src: &str, only: Option<(&str, &[Vec<VV>])>, nvec: usize, rng: &mut Rng, out: &mut Out, hist_all: &mut Hist) {
    let mut local = Hist::default();
    vrun_program_inner(src, only, nvec, rng, out, &mut local, true);
    for (k, n) in &local.0 {
        let key = if k.starts_with("v:") { format!("x:{}", &k[2..]) } else { format!("x:{}", k) };
        *hist_all.0.entry(key).or_insert(0) += *n;
    }
}

fn vrun_program_inner(src: &str, only: Option<(&str, &[Vec<VV>])>, nvec: usize, rng: &mut Rng, out: &mut Out, hist: &mut Hist, vex: bool) {
    let opname = if vex { "C01.vex" } else { "C01.vfn" };
    let src1 = one_line(src);
    let p = match vprepare(src, hist) {
        Ok(p) => p,
        Err(why) => {
            hist.add("v:skip:front-end");
            out.case(&format!("{}\t{}\t-\t\t-\t-", opname, src1), "skip", &format!("SKIP:{}", why));
            return;
        }
    };
    hist.add("v:programs");
    let prog_text = p.prog.iter().map(|f| f.show()).collect::<Vec<_>>().join(" ");
    let ir_unsupported = has_unsupported(&p.prog);
    let ast_dx = guard(|| rssl_hlsl::verif_generate_ast(&p.ir, false));
    let ast_vk = guard(|| rssl_hlsl::verif_generate_ast(&p.ir, true));
    let text_dx = compile_src(src, Tgt::Dx, Mode::NoPipeline);
    let text_vk = compile_src(src, Tgt::Vk, Mode::NoPipeline);
    let reparsed = |o: &CompileOutcome| -> Result<Vec<Sx>, String> {
        match o {
            CompileOutcome::Ok(ps) if ps.len() == 1 => parse_text_module(&ps[0].text())
                .map(|m| TConv::new(&m).module(&m))
                .and_then(|items| super::protos::merge(items).map_err(|e| format!("declarations: {}", e))),
            CompileOutcome::Ok(_) => Err("compile returned several outputs".into()),
            CompileOutcome::Err(e) => Err(format!("compile error {}", one_line(&e.chars().take(80).collect::<String>()))),
            CompileOutcome::Panic(p) => Err(format!("panic {}", p)),
        }
    };
    let re_dx = reparsed(&text_dx);
    let re_vk = reparsed(&text_vk);
    let irv = if ir_unsupported.is_none() { IrV::new(&p.prog) } else { None };
    let global_names: Vec<String> = p.globals.iter().map(|g| g.1.clone()).collect();

    for (fid, src_name, emitted) in p.funcs.iter() {
        if let Some((want, _)) = only {
            if want != src_name {
                continue;
            }
        }
        let mut fails: Vec<String> = Vec::new();
        let mut refused_ok = false;
        let vectors: Vec<Vec<VV>> = match (only, &irv) {
            (Some((_, v)), _) => v.to_vec(),
            (None, Some(ev)) => match ev.param_types(*fid) {
                Some(pts) => (0..nvec)
                    .map(|k| pts.iter().map(|(_, t)| arg_value(rng, &ev.types, t, k == 0).unwrap_or(VV::S(V::Void))).collect())
                    .collect(),
                None => vec![vec![]],
            },
            _ => vec![vec![]],
        };
        let mut req = format!("C01.vfn\t{}\t{}\t{}\t-\t{}", src1, src_name, show_vvectors(&vectors), prog_text);
        // expression level: the IR function is `(fn id ret (params …) (b (ret E)))`
        let ret_expr: Option<&Sx> = p
            .prog
            .iter()
            .find(|x| x.head() == "fn" && x.args()[0].atom() == fid.to_string())
            .and_then(|f| match f.args()[3].args() {
                [r] if r.head() == "ret" && r.args().len() == 1 => Some(&r.args()[0]),
                _ => None,
            });
        // … or `(b (expr (op <assignment> place rhs)) (ret (var x)))`: the whole body is sent
        let assign_body: Option<&Sx> = p
            .prog
            .iter()
            .find(|x| x.head() == "fn" && x.args()[0].atom() == fid.to_string())
            .and_then(|f| match f.args()[3].args() {
                [e, r] if e.head() == "expr" && e.args()[0].head() == "op" && r.head() == "ret" && r.args().len() == 1 && r.args()[0].head() == "var" => Some(&f.args()[3]),
                _ => None,
            });
        // the exporter's tree of this function for both flavours (must be the same tree)
        let tree = |m: &Result<Result<rssl_ast::Module, _>, String>| -> Result<Option<Sx>, String> {
            match m {
                Ok(Ok(m)) => {
                    let tc = TConv::new(m);
                    Ok(tc.find_function(&m.root_definitions, "", emitted).map(|fd| tc.func(fd)))
                }
                Ok(Err(rssl_hlsl::ExportError::GenerateError(e))) => Err(format!("generate-error:{:?}", e)),
                Ok(Err(_)) => Err("generate-error".into()),
                Err(pn) => Err(format!("panic {}", pn)),
            }
        };
        let (t_dx, t_vk) = (tree(&ast_dx), tree(&ast_vk));
        let unsupported = ir_unsupported.is_some() || irv.is_none();
        let ir_results: Vec<Option<VOutcome>> = match &irv {
            Some(ev) => vectors.iter().map(|v| ev.run(*fid, v)).collect(),
            None => vectors.iter().map(|_| None).collect(),
        };
        let run_text = ir_results.iter().map(show_voutcome).collect::<Vec<_>>().join(" | ");
        let obs = match (&t_dx, &t_vk) {
            (Ok(Some(a1)), Ok(Some(a2))) => {
                if a1 != a2 {
                    fails.push(format!("dx and vk syntax trees of {} differ", emitted));
                }
                if unsupported {
                    format!("unsupported {}", ir_unsupported.clone().unwrap_or_default())
                } else if vex {
                    // names of the parameters as emitted, the returned expression's tree, return values only
                    let ir_params = p.prog.iter().find(|x| x.head() == "fn" && x.args()[0].atom() == fid.to_string()).map(|f| f.args()[2].args().to_vec()).unwrap_or_default();
                    let ast_params = a1.args()[2].args();
                    let body = a1.args()[3].args();
                    let ctx_of = |ir_params: &[Sx]| -> String {
                        ir_params
                            .iter()
                            .zip(ast_params)
                            .map(|(ip, ap)| format!("{}:{}:{}", ip.args()[0].atom(), ap.args()[0].atom(), ip.args()[2].show()))
                            .collect::<Vec<_>>()
                            .join(",")
                    };
                    let rets = |ir_results: &[Option<VOutcome>]| -> String {
                        ir_results
                            .iter()
                            .map(|o| match o {
                                Some(o) => o.ret.as_ref().map(|v| v.show()).unwrap_or_else(|| "v".into()),
                                None => "none".into(),
                            })
                            .collect::<Vec<_>>()
                            .join(" | ")
                    };
                    match (ret_expr, body) {
                        (None, [e, r]) if assign_body.is_some() && e.head() == "expr" && r.head() == "ret" && ir_params.len() == ast_params.len() => {
                            req = format!("C01.vex\t{}\t{}\t{}\tvars={}\t{}", src1, src_name, show_vvectors(&vectors), ctx_of(&ir_params), assign_body.unwrap().show());
                            format!("vast {} ;; run {}", e.args()[0].show(), rets(&ir_results))
                        }
                        (Some(e), [r]) if r.head() == "ret" && r.args().len() == 1 && ir_params.len() == ast_params.len() => {
                            let ctx: Vec<String> = ir_params
                                .iter()
                                .zip(ast_params)
                                .map(|(ip, ap)| format!("{}:{}:{}", ip.args()[0].atom(), ap.args()[0].atom(), ip.args()[2].show()))
                                .collect();
                            req = format!("C01.vex\t{}\t{}\t{}\tvars={}\t{}", src1, src_name, show_vvectors(&vectors), ctx.join(","), e.show());
                            let rets: Vec<String> = ir_results
                                .iter()
                                .map(|o| match o {
                                    Some(o) => o.ret.as_ref().map(|v| v.show()).unwrap_or_else(|| "v".into()),
                                    None => "none".into(),
                                })
                                .collect();
                            format!("vast {} ;; run {}", r.args()[0].show(), rets.join(" | "))
                        }
                        _ => {
                            req = format!("C01.vex\t{}\t{}\t{}\t-\t-", src1, src_name, show_vvectors(&vectors));
                            "unsupported not-an-expression-function".to_string()
                        }
                    }
                } else {
                    format!("ast {} ;; run {}", a1.show(), run_text)
                }
            }
            (Ok(None), _) | (_, Ok(None)) => {
                fails.push(format!("function {} missing from the exported module", emitted));
                "missing".to_string()
            }
            (Err(e1), Err(e2))
                if e1 == "generate-error:FunctionNotDefined"
                    && e2 == e1
                    && super::protos::has_undefined_declaration(&p.ir)
                    && matches!(text_dx, CompileOutcome::Err(_))
                    && matches!(text_vk, CompileOutcome::Err(_)) =>
            {
                // a declared function (or an instantiation of a declared function template) has no implementation in the
                // typed module: both flavours refuse, compile() reports an error, nothing is emitted, no meaning can change
                hist.add("v:export-refused:FunctionNotDefined");
                refused_ok = true;
                "generate-error".to_string()
            }
            (Err(e), _) | (_, Err(e)) => {
                fails.push(e.clone());
                e.split(':').next().unwrap_or("error").to_string()
            }
        };
        // `precise` stays on the declarations it was written on (parameters, locals, struct members)
        for (flav, m) in [("dx", &ast_dx), ("vk", &ast_vk)] {
            if let Ok(Ok(m)) = m {
                let tc = TConv::new(m);
                // every function of the module, not only the one under test (its callees' parameters are declared elsewhere)
                let mut any = false;
                for (gid, _, gname) in p.funcs.iter() {
                    let want = super::protos::precise_of_ir(&p.ir, ir::FunctionId(*gid));
                    let got = tc.find_function(&m.root_definitions, "", gname).map(super::protos::precise_of_ast).unwrap_or_default();
                    any |= !want.is_empty();
                    if got != want && fails.is_empty() {
                        fails.push(format!("{}: precise declarations of {} differ: IR [{}] exported [{}]", flav, gname, want.join(" "), got.join(" ")));
                    }
                }
                let (wm, gm) = (super::protos::precise_members_of_ir(&p.ir), super::protos::precise_members_of_ast(m));
                if flav == "dx" && (any || !wm.is_empty()) {
                    hist.add("v:fn:with-precise");
                }
                if gm != wm && fails.is_empty() {
                    fails.push(format!("{}: precise struct members differ: IR [{}] exported [{}]", flav, wm.join(" "), gm.join(" ")));
                }
            }
        }
        if fails.is_empty() && !unsupported && !refused_ok {
            for (flav, re) in [("dx", &re_dx), ("vk", &re_vk)] {
                match re {
                    Err(e) => fails.push(format!("{}: emitted text unusable: {}", flav, e)),
                    Ok(items) => {
                        if let Some(what) = has_unsupported(items) {
                            hist.add(&format!("v:text-unsupported:{}", what));
                            continue;
                        }
                        let tx = match TxV::new(items) {
                            Some(t) => t,
                            None => {
                                fails.push(format!("{}: declarations of the emitted text not understood", flav));
                                continue;
                            }
                        };
                        // initial values of the static globals
                        if let (Some(ev), Some(gl)) = (&irv, tx.init_globals()) {
                            if let Some(st) = ev.init_globals() {
                                for (gid, n) in &p.globals {
                                    let want = st.get(&Var::Glob(*gid));
                                    if want.is_some() && gl.get(n) != want {
                                        fails.push(format!("{}: initial value of static {} differs", flav, n));
                                    }
                                }
                            }
                        }
                        for (v, want) in vectors.iter().zip(&ir_results) {
                            vtake_why();
                            if let Some(ev) = &irv {
                                let _ = ev.run(*fid, v);
                            }
                            let why_ir = vtake_why();
                            let got = tx.run(emitted, v, &global_names);
                            let why_text = vtake_why();
                            hist.add(if want.is_some() { "v:vector:defined" } else { "v:vector:none" });
                            if want.is_some() && &got != want {
                                fails.push(format!(
                                    "{}: args [{}]: IR gives {} but emitted text gives {} (stuck at: {}{})",
                                    flav,
                                    v.iter().map(|x| x.show()).collect::<Vec<_>>().join(","),
                                    show_voutcome(want),
                                    show_voutcome(&got),
                                    why_ir,
                                    why_text
                                ));
                                break;
                            }
                        }
                    }
                }
            }
        }
        hist.add(if unsupported { "v:fn:unsupported" } else { "v:fn:supported" });
        if let Some(u) = &ir_unsupported {
            hist.add(&format!("v:unsupported:{}", u));
        }
        let oracle = if !fails.is_empty() {
            format!("FAIL:{}", fails[0])
        } else if refused_ok {
            "ok(export refused — FunctionNotDefined: a declared function has no definition; nothing is emitted)".to_string()
        } else {
            "ok".to_string()
        };
        out.case(&req, &obs, &oracle);
    }
}

/// the k-th program of the vector stream for a seed
pub fn vprogram(seed: u64, k: u64) -> String {
    let mut rng = Rng::new(seed.wrapping_mul(0x2545_F491_4F6C_DD1D) ^ k.wrapping_mul(0x9E37_79B9_7F4A_7C15) ^ 0x76656374);
    let opts = super::vgen::VGenOpts { max_depth: 1 + (k % 3) as u32, matrices: k % 4 == 3, structs: k % 2 == 1, enums: k % 5 >= 3, pure: false };
    super::vgen::VGen::new(&mut rng, opts).program()
}

/// the k-th expression function of the vector-model stream (`C01.vex`)
pub fn vex_source(seed: u64, k: u64) -> String {
    let mut rng = Rng::new(seed.wrapping_mul(0x2545_F491_4F6C_DD1D) ^ k.wrapping_mul(0x9E37_79B9_7F4A_7C15) ^ 0x76657821);
    let opts = super::vgen::VGenOpts { max_depth: 1 + (k % 4) as u32, matrices: false, structs: false, enums: false, pure: true };
    let mut g = super::vgen::VGen::new(&mut rng, opts);
    // every fourth: a statement-level assignment to a vector parameter / a swizzle of it
    if k % 4 == 3 { g.assignment_function() } else { g.expression_function() }
}

#!/bin/sh
# usage: merge_branch.sh <branch> — merge a worker branch, auto-resolving the append-only known_findings.jsonl
B="$1"
cd "$(dirname "$0")/.."
git merge --no-edit "$B" >/tmp/merge.$$ 2>&1 || true
if git status --short | grep -q '^UU known_findings.jsonl\|^AA known_findings.jsonl'; then
  python3 - <<'PY'
lines=[]
for l in open('known_findings.jsonl').read().splitlines():
    if l.startswith('<<<<<<<') or l.startswith('=======') or l.startswith('>>>>>>>'): continue
    if l.strip() and l not in lines: lines.append(l)
open('known_findings.jsonl','w').write('\n'.join(lines)+'\n')
PY
  git add known_findings.jsonl
fi
# corpus files are append-only too: keep both sides, drop the markers and repeated lines
for f in $(git status --short | grep '^UU\|^AA' | awk '{print $2}' | grep '^corpus/'); do
  python3 - "$f" <<'PY'
import sys
lines=[];seen=set()
for l in open(sys.argv[1]).read().splitlines():
    if l.startswith('<<<<<<<') or l.startswith('=======') or l.startswith('>>>>>>>'): continue
    if l.strip() and l in seen: continue
    seen.add(l); lines.append(l)
open(sys.argv[1],'w').write('\n'.join(lines)+'\n')
PY
  git add "$f"
done
# generated files: take the branch's version (they are rewritten by the next run anyway)
for f in $(git status --short | grep '^UU\|^AA\|^DU\|^UD' | awk '{print $2}' | grep '^evidence/\|^lean/RsslVerif/Gen/\|^MANIFEST.json'); do
  git checkout --theirs "$f" 2>/dev/null && git add "$f" || git rm -q --cached "$f" 2>/dev/null || true
done
if git status --short | grep -q '^UU\|^AA\|^DU\|^UD'; then
  echo "UNRESOLVED:"; git status --short | grep '^UU\|^AA\|^DU\|^UD'
else
  git commit -qm "merge $B" 2>/dev/null || true
  echo "merged $B: $(git log --oneline -1)"
fi
rm -f /tmp/merge.$$

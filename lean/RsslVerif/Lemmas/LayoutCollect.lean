import RsslVerif.Model.LayoutCollect
/-!
# Lemmas about the collection loops of `check_layout` (C19)

`types_to_check` only grows, `types_seen` holds exactly the ids of its entries, so every global / function
the loops match leaves an entry with its type id in the list; conversely every entry stems from a matched
global or function.  Core Lean only.
-/
namespace RsslVerif.Lemmas.LayoutCollect
open RsslVerif.Gen.LayoutTables RsslVerif.Model.Layout RsslVerif.Model.LayoutCollect

/-- `types_seen` = ids of `types_to_check` -/
def Inv (a : Acc) : Prop := ∀ n, n ∈ a.seen ↔ ∃ e ∈ a.list, e.ref.id = n

theorem inv_empty : Inv ⟨[], []⟩ := by
  intro n; simp

theorem push_list_mono (a : Acc) (r : TyRef) (loc : String) (e : Entry) (he : e ∈ a.list) :
    e ∈ (a.push r loc).list := by
  unfold Acc.push
  split
  · exact he
  · simp [he]

theorem push_has (a : Acc) (hi : Inv a) (r : TyRef) (loc : String) :
    ∃ e ∈ (a.push r loc).list, e.ref.id = r.id := by
  unfold Acc.push
  split
  · rename_i hc
    exact (hi r.id).1 (by simpa using hc)
  · exact ⟨⟨r, loc⟩, by simp, rfl⟩

theorem push_inv (a : Acc) (hi : Inv a) (r : TyRef) (loc : String) : Inv (a.push r loc) := by
  unfold Acc.push
  split
  · exact hi
  · intro n
    simp only [List.mem_cons, List.mem_append, List.not_mem_nil, or_false]
    constructor
    · rintro (h | h)
      · exact ⟨⟨r, loc⟩, Or.inr rfl, h.symm⟩
      · obtain ⟨e, he, hn⟩ := (hi n).1 h
        exact ⟨e, Or.inl he, hn⟩
    · rintro ⟨e, (he | he), hn⟩
      · exact Or.inr ((hi n).2 ⟨e, he, hn⟩)
      · subst he; exact Or.inl hn.symm

/-- every entry `push` adds is the pushed reference -/
theorem push_origin (a : Acc) (r : TyRef) (loc : String) (e : Entry) (he : e ∈ (a.push r loc).list) :
    e ∈ a.list ∨ e.ref = r := by
  unfold Acc.push at he
  split at he
  · exact Or.inl he
  · simp only [List.mem_append, List.mem_singleton] at he
    rcases he with he | he
    · exact Or.inl he
    · subst he; exact Or.inr rfl

/-! ### the global loop -/

/-- the global is one the loop matches, with element reference `r` -/
def GlobalHit (g : Global) (r : TyRef) : Prop :=
  ∃ k, peel globalPeelOps g.ty = .object k (some r) ∧ checkedObjects.contains k = true

theorem stepGlobal_mono (a : Acc) (g : Global) (e : Entry) (he : e ∈ a.list) : e ∈ (stepGlobal a g).list := by
  unfold stepGlobal
  split
  · split
    · exact push_list_mono a _ _ e he
    · exact he
  · exact he

theorem stepGlobal_inv (a : Acc) (hi : Inv a) (g : Global) : Inv (stepGlobal a g) := by
  unfold stepGlobal
  split
  · split
    · exact push_inv a hi _ _
    · exact hi
  · exact hi

theorem stepGlobal_hit (a : Acc) (hi : Inv a) (g : Global) (r : TyRef) (h : GlobalHit g r) :
    ∃ e ∈ (stepGlobal a g).list, e.ref.id = r.id := by
  obtain ⟨k, hk, hc⟩ := h
  unfold stepGlobal
  rw [hk]
  simp only [hc, if_true]
  exact push_has a hi r g.loc

theorem stepGlobal_origin (a : Acc) (g : Global) (e : Entry) (he : e ∈ (stepGlobal a g).list) :
    e ∈ a.list ∨ GlobalHit g e.ref := by
  unfold stepGlobal at he
  split at he
  · rename_i k r hk
    split at he
    · rename_i hc
      rcases push_origin a r g.loc e he with h | h
      · exact Or.inl h
      · exact Or.inr ⟨k, by rw [h]; exact hk, hc⟩
    · exact Or.inl he
  · exact Or.inl he

theorem foldl_mono (gs : List Global) (a : Acc) (e : Entry) (he : e ∈ a.list) :
    e ∈ (gs.foldl stepGlobal a).list := by
  induction gs generalizing a with
  | nil => exact he
  | cons g gs ih => exact ih _ (stepGlobal_mono a g e he)

theorem foldl_inv (gs : List Global) (a : Acc) (hi : Inv a) : Inv (gs.foldl stepGlobal a) := by
  induction gs generalizing a with
  | nil => exact hi
  | cons g gs ih => exact ih _ (stepGlobal_inv a hi g)

theorem foldl_hit (gs : List Global) (a : Acc) (hi : Inv a) (g : Global) (hg : g ∈ gs) (r : TyRef)
    (h : GlobalHit g r) : ∃ e ∈ (gs.foldl stepGlobal a).list, e.ref.id = r.id := by
  induction gs generalizing a with
  | nil => cases hg
  | cons g' gs ih =>
    rcases List.mem_cons.1 hg with hg | hg
    · subst hg
      obtain ⟨e, he, hid⟩ := stepGlobal_hit a hi g r h
      exact ⟨e, foldl_mono gs _ e he, hid⟩
    · exact ih _ (stepGlobal_inv a hi g') hg

theorem foldl_origin (gs : List Global) (a : Acc) (e : Entry) (he : e ∈ (gs.foldl stepGlobal a).list) :
    e ∈ a.list ∨ ∃ g ∈ gs, GlobalHit g e.ref := by
  induction gs generalizing a with
  | nil => exact Or.inl he
  | cons g gs ih =>
    rcases ih _ he with h | ⟨g', hg', hh⟩
    · rcases stepGlobal_origin a g e h with h | h
      · exact Or.inl h
      · exact Or.inr ⟨g, List.mem_cons_self .., h⟩
    · exact Or.inr ⟨g', List.mem_cons_of_mem _ hg', hh⟩

/-! ### the function loop -/

/-- the function is one the loop matches, with type argument `r` -/
def FnHit (f : Fn) (r : TyRef) : Prop :=
  ∃ i, f.intrinsic = some i ∧ checkedIntrinsics.contains i = true ∧ f.template = some [.type r] ∧
    (fnLoopSkipsDependent && isDependent r.ty) = false

theorem stepFn_mono (a a' : Acc) (f : Fn) (h : stepFn a f = .ok a') (e : Entry) (he : e ∈ a.list) :
    e ∈ a'.list := by
  unfold stepFn at h
  split at h
  · cases h; exact he
  · split at h
    · cases h; exact he
    · split at h
      · cases h; exact he
      · split at h
        · cases h; exact he
        · cases h; exact push_list_mono a _ _ e he
      · cases h

theorem stepFn_inv (a a' : Acc) (hi : Inv a) (f : Fn) (h : stepFn a f = .ok a') : Inv a' := by
  unfold stepFn at h
  split at h
  · cases h; exact hi
  · split at h
    · cases h; exact hi
    · split at h
      · cases h; exact hi
      · split at h
        · cases h; exact hi
        · cases h; exact push_inv a hi _ _
      · cases h

theorem stepFn_hit (a a' : Acc) (hi : Inv a) (f : Fn) (h : stepFn a f = .ok a') (r : TyRef) (hh : FnHit f r) :
    ∃ e ∈ a'.list, e.ref.id = r.id := by
  obtain ⟨i, h1, h2, h3, h4⟩ := hh
  unfold stepFn at h
  rw [h1] at h
  simp only [h2, Bool.not_true, Bool.false_eq_true, if_false, h3, h4] at h
  cases h
  exact push_has a hi r _

theorem stepFn_origin (a a' : Acc) (f : Fn) (h : stepFn a f = .ok a') (e : Entry) (he : e ∈ a'.list) :
    e ∈ a.list ∨ FnHit f e.ref := by
  unfold stepFn at h
  split at h
  · cases h; exact Or.inl he
  · rename_i i hi
    split at h
    · cases h; exact Or.inl he
    · rename_i hc
      split at h
      · cases h; exact Or.inl he
      · rename_i r ht
        split at h
        · cases h; exact Or.inl he
        · rename_i hd
          cases h
          rcases push_origin a r _ e he with h | h
          · exact Or.inl h
          · exact Or.inr ⟨i, hi, by simpa using hc, by rw [h]; exact ht, by rw [h]; simpa using hd⟩
      · cases h

theorem foldFns_mono (fs : List Fn) (a a' : Acc) (h : foldFns fs a = .ok a') (e : Entry) (he : e ∈ a.list) :
    e ∈ a'.list := by
  induction fs generalizing a with
  | nil => simp only [foldFns] at h; cases h; exact he
  | cons f fs ih =>
    simp only [foldFns] at h
    split at h
    · rename_i a1 h1
      exact ih a1 h (stepFn_mono a a1 f h1 e he)
    · cases h

theorem foldFns_hit (fs : List Fn) (a a' : Acc) (hi : Inv a) (h : foldFns fs a = .ok a') (f : Fn) (hf : f ∈ fs)
    (r : TyRef) (hh : FnHit f r) : ∃ e ∈ a'.list, e.ref.id = r.id := by
  induction fs generalizing a with
  | nil => cases hf
  | cons f' fs ih =>
    simp only [foldFns] at h
    split at h
    · rename_i a1 h1
      rcases List.mem_cons.1 hf with hf | hf
      · subst hf
        obtain ⟨e, he, hid⟩ := stepFn_hit a a1 hi f h1 r hh
        exact ⟨e, foldFns_mono fs a1 a' h e he, hid⟩
      · exact ih a1 (stepFn_inv a a1 hi f' h1) h hf
    · cases h

theorem foldFns_origin (fs : List Fn) (a a' : Acc) (h : foldFns fs a = .ok a') (e : Entry) (he : e ∈ a'.list) :
    e ∈ a.list ∨ ∃ f ∈ fs, FnHit f e.ref := by
  induction fs generalizing a with
  | nil => simp only [foldFns] at h; cases h; exact Or.inl he
  | cons f fs ih =>
    simp only [foldFns] at h
    split at h
    · rename_i a1 h1
      rcases ih a1 h with h' | ⟨f', hf', hh⟩
      · rcases stepFn_origin a a1 f h1 e h' with h'' | h''
        · exact Or.inl h''
        · exact Or.inr ⟨f, List.mem_cons_self .., h''⟩
      · exact Or.inr ⟨f', List.mem_cons_of_mem _ hf', hh⟩
    · cases h

/-! ### both loops -/

theorem collect_global (m : Module) (l : List Entry) (h : collect m = .ok l) (g : Global) (hg : g ∈ m.globals)
    (r : TyRef) (hh : GlobalHit g r) : ∃ e ∈ l, e.ref.id = r.id := by
  unfold collect at h
  split at h
  · rename_i a ha
    cases h
    obtain ⟨e, he, hid⟩ := foldl_hit m.globals ⟨[], []⟩ inv_empty g hg r hh
    exact ⟨e, foldFns_mono m.fns _ a ha e he, hid⟩
  · cases h

theorem collect_fn (m : Module) (l : List Entry) (h : collect m = .ok l) (f : Fn) (hf : f ∈ m.fns)
    (r : TyRef) (hh : FnHit f r) : ∃ e ∈ l, e.ref.id = r.id := by
  unfold collect at h
  split at h
  · rename_i a ha
    cases h
    exact foldFns_hit m.fns _ a (foldl_inv m.globals _ inv_empty) ha f hf r hh
  · cases h

/-- nothing else is collected: every entry is the reference of a matched global or function -/
theorem collect_origin (m : Module) (l : List Entry) (h : collect m = .ok l) (e : Entry) (he : e ∈ l) :
    (∃ g ∈ m.globals, GlobalHit g e.ref) ∨ (∃ f ∈ m.fns, FnHit f e.ref) := by
  unfold collect at h
  split at h
  · rename_i a ha
    cases h
    rcases foldFns_origin m.fns _ a ha e he with h' | h'
    · rcases foldl_origin m.globals ⟨[], []⟩ e h' with h'' | h''
      · cases h''
      · exact Or.inl h''
    · exact Or.inr h'
  · cases h

end RsslVerif.Lemmas.LayoutCollect

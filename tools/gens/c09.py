"""C09 translator plugin: Gen.FmtTables (formatter.rs) and Gen.ParseTables (parser/expressions.rs, lexer.rs, tokens.rs).

Everything the C09 theorems quantify over as "the tables" comes from here and is re-extracted on every run:
operator enumerations, formatter precedences / associativity / spellings / the parenthesis rule at equal precedence /
the sign characters of the unary-space rule; token enumeration, the lexer's symbol tables, the prefix-operator table of
`unaryop_prefix` and every `expr_pN::parse_op` arm list (translated arm by arm, in order, guards included).
"""
import re

from rustsrc import (ExtractError, fn_body, enum_variants, first_match, match_arms, split_top, normws,
                     lean_str, matching)


def neg_literal_arms(fm):
    """The guarded `Literal` arms of `get_expression_precedence` (fix e7611e2: a negative literal binds like a prefix
    operation): returns ([literal kinds], precedence) — ([], None) when there are none.  Every guarded arm must be a
    single `ast::Expression::Literal(<kinds>)` pattern whose guard is `*v < 0` (integers) or `v.is_sign_negative()`
    (floats) and whose result is a number; anything else is refused."""
    body = fn_body(fm, "get_expression_precedence")
    _, arms_text, _ = first_match(body, r'^expr$')
    kinds, precs = [], set()
    seen_plain_literal = False
    for pats, guard, result in match_arms(arms_text):
        if guard is None:
            if any(p.startswith("ast::Expression::Literal(") for p in pats):
                seen_plain_literal = True
            continue
        if seen_plain_literal:
            raise ExtractError("get_expression_precedence: a guarded arm after the unguarded Literal arm is dead code")
        if len(pats) != 1:
            raise ExtractError(f"get_expression_precedence: guarded arm with alternatives {pats!r}")
        m = re.fullmatch(r'ast::Expression::Literal\(\s*(.*?),?\s*\)', normws(pats[0]))
        if not m:
            raise ExtractError(f"get_expression_precedence: guarded pattern {pats[0]!r} unsupported")
        ks = []
        for alt in split_top(m.group(1), '|'):
            am = re.fullmatch(r'ast::Literal::([A-Za-z0-9]+)\(v\)', normws(alt))
            if not am:
                raise ExtractError(f"get_expression_precedence: guarded literal pattern {alt!r} unsupported")
            ks.append(am.group(1))
        g = normws(guard)
        if g == "*v < 0":
            if any(not k.startswith("Int") for k in ks):
                raise ExtractError(f"get_expression_precedence: guard `*v < 0` on {ks}")
        elif g == "v.is_sign_negative()":
            if any(not k.startswith("Float") for k in ks):
                raise ExtractError(f"get_expression_precedence: guard `is_sign_negative` on {ks}")
        else:
            raise ExtractError(f"get_expression_precedence: guard {guard!r} unsupported")
        rm = re.fullmatch(r'\{?\s*(\d+)\s*\}?', result)
        if not rm:
            raise ExtractError(f"get_expression_precedence: guarded result {result!r} unsupported")
        precs.add(int(rm.group(1)))
        kinds += ks
    if len(precs) > 1:
        raise ExtractError(f"get_expression_precedence: negative literals have several precedences {sorted(precs)}")
    if len(set(kinds)) != len(kinds):
        raise ExtractError("get_expression_precedence: a literal kind has two guarded arms")
    return kinds, (precs.pop() if precs else None)


def member_arm(fm):
    """Body of the `Member` arm of `format_subexpression` and the literal kinds of its `is_int_literal` test (fix 07e6b1c:
    `(1).x`): returns (arm text, [kinds parenthesised always], [kinds parenthesised when `v >= 0`])."""
    body = fn_body(fm, "format_subexpression")
    i = body.find("ast::Expression::Member(expr, name) => {")
    if i < 0:
        raise ExtractError("format_subexpression: Member arm not found")
    j = matching(body, body.index("{", i))
    arm = body[i:j + 1]
    always, nonneg = [], []
    m = re.search(r'let\s+is_int_literal\s*=\s*match\s+expr\.node\s*\{', arm)
    if m:
        k = matching(arm, m.end() - 1)
        dflt = False
        for pats, guard, result in match_arms(arm[m.end():k]):
            if guard is not None:
                raise ExtractError("format_subexpression: is_int_literal has a guarded arm")
            if pats == ['_']:
                if result != 'false':
                    raise ExtractError("format_subexpression: is_int_literal default is not false")
                dflt = True
                continue
            if len(pats) != 1:
                raise ExtractError(f"format_subexpression: is_int_literal pattern {pats!r}")
            pm = re.fullmatch(r'ast::Expression::Literal\(\s*(.*?),?\s*\)', normws(pats[0]))
            if not pm:
                raise ExtractError(f"format_subexpression: is_int_literal pattern {pats[0]!r}")
            for alt in split_top(pm.group(1), '|'):
                am = re.fullmatch(r'ast::Literal::([A-Za-z0-9]+)\((_|v)\)', normws(alt))
                if not am:
                    raise ExtractError(f"format_subexpression: is_int_literal literal pattern {alt!r}")
                if result == 'true':
                    always.append(am.group(1))
                elif normws(result) == 'v >= 0' and am.group(2) == 'v':
                    nonneg.append(am.group(1))
                else:
                    raise ExtractError(f"format_subexpression: is_int_literal result {result!r}")
        if not dflt:
            raise ExtractError("format_subexpression: is_int_literal has no default arm")
        tail = normws(arm[k:])
        if not re.search(r"if is_int_literal \{ output\.push\('\('\); \} format_subexpression\(expr, prec, OperatorSide::[A-Za-z]+, output, context\)\?; "
                         r"if is_int_literal \{ output\.push\('\)'\); \} output\.push\('\.'\);", tail):
            raise ExtractError("format_subexpression: Member arm no longer wraps the object in ( ) exactly when is_int_literal")
    elif "output.push('(')" in arm:
        raise ExtractError("format_subexpression: Member arm prints a parenthesis the translator does not know")
    return arm, always, nonneg


def register(gen, T):
    # ------------------------------------------------------------------------------------------ FmtTables
    @gen("FmtTables")
    def fmt_tables():
        ast = T.src("ast/src/ast_expressions.rs")
        fm = T.src("formatter/src/formatter.rs")
        unops = [v for v, _ in enum_variants(ast, "UnaryOp")]
        binops = [v for v, _ in enum_variants(ast, "BinOp")]
        out = [T.header("FmtTables", ["ast/src/ast_expressions.rs", "formatter/src/formatter.rs"])]
        for name, vs in (("UnOp", unops), ("BinOp", binops)):
            out.append(f"inductive {name} where\n" + "".join(f"  | {v}\n" for v in vs) +
                       "  deriving DecidableEq, Repr, Inhabited\n\n")
            out.append(f"def {name}.all : List {name} := " + T.lean_list(f".{v}" for v in vs) + "\n\n")
            out.append(f"def {name}.name : {name} → String\n" + "".join(f"  | .{v} => {lean_str(v)}\n" for v in vs) + "\n")
            out.append(f"def {name}.ofName? (s : String) : Option {name} := {name}.all.find? (fun o => o.name == s)\n\n")

        # get_expression_precedence
        body = fn_body(fm, "get_expression_precedence")
        _, arms_text, _ = first_match(body, r'^expr$')
        node_prec = {}
        un_prec, bin_prec = {}, {}
        neg_literal_arms(fm)   # shape of the guarded `Literal` arms (their content goes to Gen.ParseTables, next to `LitKind`)
        for pats, guard, result in match_arms(arms_text):
            if guard is not None:
                continue
            kinds = []
            for p in pats:
                m = re.match(r'ast::Expression::([A-Za-z]+)', p)
                if not m:
                    raise ExtractError(f"get_expression_precedence pattern {p!r}")
                kinds.append(m.group(1))
            if re.fullmatch(r'\d+', result):
                for k in kinds:
                    node_prec[k] = int(result)
            elif 'return Err' in result:
                for k in kinds:
                    node_prec[k] = None
            elif kinds in (["UnaryOperation"], ["BinaryOperation"]):
                _, inner, _ = first_match(result, r'^op$')
                tgt = un_prec if kinds == ["UnaryOperation"] else bin_prec
                for ipats, ig, ires in match_arms(inner):
                    if ig is not None or not re.fullmatch(r'\d+', ires):
                        raise ExtractError(f"precedence arm {ipats} => {ires!r} unsupported")
                    for ip in ipats:
                        tgt[ip] = int(ires)
            else:
                raise ExtractError(f"get_expression_precedence result {result!r} unsupported")
        if set(un_prec) != set(unops) or set(bin_prec) != set(binops):
            raise ExtractError("get_expression_precedence does not cover every operator exactly once")
        out.append("/-- `get_expression_precedence` on unary operators -/\ndef unPrec : UnOp → Nat\n" +
                   "".join(f"  | .{o} => {un_prec[o]}\n" for o in unops) + "\n")
        out.append("/-- `get_expression_precedence` on binary operators -/\ndef binPrec : BinOp → Nat\n" +
                   "".join(f"  | .{o} => {bin_prec[o]}\n" for o in binops) + "\n")
        need = ["Literal", "Identifier", "TernaryConditional", "ArraySubscript", "Member", "Call", "Cast",
                "BracedInit", "SizeOf"]
        for k in need:
            if node_prec.get(k) is None:
                raise ExtractError(f"get_expression_precedence: no literal precedence for {k}")
            out.append(f"def prec{k} : Nat := {node_prec[k]}\n")
        out.append("\n")

        # get_precedence_associativity
        body = fn_body(fm, "get_precedence_associativity")
        _, arms_text, _ = first_match(body, r'^prec$')
        out.append("inductive Assoc where | LeftToRight | RightToLeft | None\n  deriving DecidableEq, Repr, Inhabited\n\n")
        out.append("/-- `get_precedence_associativity` -/\ndef assoc (prec : Nat) : Assoc :=\n")
        for pats, guard, result in match_arms(arms_text):
            m = re.fullmatch(r'Associativity::([A-Za-z]+)', result)
            if guard is not None or not m:
                raise ExtractError(f"get_precedence_associativity arm {pats} => {result!r}")
            conds = []
            for p in pats:
                if re.fullmatch(r'\d+', p):
                    conds.append(f"prec == {p}")
                elif re.fullmatch(r'(\d+)\.\.=(\d+)', p):
                    lo, hi = re.fullmatch(r'(\d+)\.\.=(\d+)', p).groups()
                    conds.append(f"({lo} ≤ prec && prec ≤ {hi})")
                elif p == '_':
                    conds.append("true")
                else:
                    raise ExtractError(f"get_precedence_associativity pattern {p!r}")
            out.append(f"  if {' || '.join(conds)} then .{m.group(1)} else\n")
        out.append("  .None\n\n")

        # the parenthesis rule of format_subexpression
        body = fn_body(fm, "format_subexpression")
        m = re.search(r'let\s+requires_paren\s*=\s*match\s+prec\.cmp\(&outer_precedence\)\s*\{', body)
        if not m:
            raise ExtractError("format_subexpression: requires_paren match not found")
        j = matching(body, m.end() - 1)
        rules = {}
        for pats, guard, result in match_arms(body[m.end():j]):
            rules[pats[0]] = result
        if rules.get("std::cmp::Ordering::Greater") != "true" or rules.get("std::cmp::Ordering::Less") != "false":
            raise ExtractError("format_subexpression: Greater/Less arms are not true/false")
        eq = rules.get("std::cmp::Ordering::Equal", "")
        mm = re.fullmatch(r'!matches!\(\s*\(side, get_precedence_associativity\(prec\)\)\s*,\s*(.*)\)', eq)
        if not mm:
            raise ExtractError(f"format_subexpression: Equal arm {eq!r} unsupported")
        out.append("inductive Side where | Left | Right | Middle | CommaList\n  deriving DecidableEq, Repr, Inhabited\n\n")
        out.append("/-- at equal precedence: the `(side, associativity)` pairs that need **no** parentheses -/\n"
                   "def noParenAtEqual (side : Side) (a : Assoc) : Bool :=\n  match side, a with\n")
        for alt in split_top(mm.group(1), '|'):
            am = re.fullmatch(r'\(OperatorSide::([A-Za-z]+),\s*(Associativity::([A-Za-z]+)|_)\)', normws(alt))
            if not am:
                raise ExtractError(f"format_subexpression: alternative {alt!r} unsupported")
            out.append(f"  | .{am.group(1)}, {('.' + am.group(3)) if am.group(3) else '_'} => true\n")
        out.append("  | _, _ => false\n\n")

        # postfix set and sign characters of the UnaryOperation arm
        pm = re.search(r'let\s+postfix\s*=\s*matches!\(\s*op\s*,\s*([^)]*)\)', body)
        if not pm:
            raise ExtractError("format_subexpression: postfix matches! not found")
        post = re.findall(r'ast::UnaryOp::([A-Za-z]+)', pm.group(1))
        out.append("def isPostfix (op : UnOp) : Bool := " + T.lean_list('.' + p for p in post) + ".contains op\n\n")
        sm = re.search(r'let\s+sign\s*=\s*match\s+op\s*\{', body)
        if not sm:
            raise ExtractError("format_subexpression: sign match not found")
        j = matching(body, sm.end() - 1)
        out.append("/-- a space is inserted after these prefix operators when the operand's text starts with the character -/\n"
                   "def unSign : UnOp → Option Char\n")
        for pats, guard, result in match_arms(body[sm.end():j]):
            for p in pats:
                if p == '_':
                    if result != 'None':
                        raise ExtractError("sign match: default arm is not None")
                    out.append("  | _ => none\n")
                    continue
                om = re.fullmatch(r'ast::UnaryOp::([A-Za-z]+)', p)
                rm = re.fullmatch(r"Some\('(.)'\)", result)
                if not om or not rm:
                    raise ExtractError(f"sign match arm {p!r} => {result!r}")
                out.append(f"  | .{om.group(1)} => some '{rm.group(1)}'\n")
        out.append("\n")
        if "output.insert(operand_start, ' ')" not in body or "starts_with(sign)" not in body:
            raise ExtractError("format_subexpression: the sign-separating space is gone")

        # call-site constants: (outer precedence, side) used for each child
        sites = {
            "callObject": r'format_subexpression\(object,\s*(\d+),\s*OperatorSide::([A-Za-z]+)',
            "callArg": r'format_subexpression\(last,\s*(\d+),\s*OperatorSide::([A-Za-z]+)',
            "callArgMain": r'format_subexpression\(expr,\s*(\d+),\s*OperatorSide::([A-Za-z]+),\s*output,\s*context\)\?;\s*output\.push_str\(", "\)',
        }
        for nm, rx in sites.items():
            cm = re.search(rx, body)
            if not cm:
                raise ExtractError(f"format_subexpression: call site {nm} not found")
            out.append(f"def {nm}Prec : Nat := {cm.group(1)}\ndef {nm}Side : Side := .{cm.group(2)}\n")
        child_sites = {
            "postfixOperand": r'if postfix \{\s*format_subexpression\(inner,\s*prec,\s*OperatorSide::([A-Za-z]+)',
            "prefixOperand": r'let operand_start = output\.len\(\);\s*format_subexpression\(inner,\s*prec,\s*OperatorSide::([A-Za-z]+)',
            "binLeft": r'format_subexpression\(left,\s*prec,\s*OperatorSide::([A-Za-z]+)',
            "binRight": r'format_subexpression\(right,\s*prec,\s*OperatorSide::([A-Za-z]+)',
            "ternCond": r'format_subexpression\(expr_cond,\s*prec,\s*OperatorSide::([A-Za-z]+)',
            "ternTrue": r'format_subexpression\(expr_true,\s*prec,\s*OperatorSide::([A-Za-z]+)',
            "ternFalse": r'format_subexpression\(expr_false,\s*prec,\s*OperatorSide::([A-Za-z]+)',
            "subObject": r'format_subexpression\(expr_object,\s*prec,\s*OperatorSide::([A-Za-z]+)',
            "subIndex": r'format_subexpression\(expr_index,\s*prec,\s*OperatorSide::([A-Za-z]+)',
            "memObject": r'format_subexpression\(expr,\s*prec,\s*OperatorSide::([A-Za-z]+)',
        }
        marm = member_arm(fm)[0]
        for nm, rx in child_sites.items():
            cm = re.search(rx, marm if nm == "memObject" else body)
            if not cm:
                raise ExtractError(f"format_subexpression: child site {nm} not found")
            out.append(f"def {nm}Side : Side := .{cm.group(1)}\n")
        # the guard added by fix 3f7c9d7 (assignment as last operand of a conditional)
        fa = re.search(r'let\s+false_is_assignment\s*=\s*matches!\(\s*&expr_false\.node\s*,\s*ast::Expression::BinaryOperation\(op, _, _\)\s*'
                       r'if get_expression_precedence\(&expr_false\.node\)\?\s*==\s*prec\s*&&\s*\*op\s*!=\s*ast::BinOp::Sequence\s*\)', body)
        out.append(f"/-- the last operand of a conditional is parenthesised when it is a non-comma binary operation of the conditional's precedence -/\n"
                   f"def ternFalseAssignmentParens : Bool := {'true' if fa else 'false'}\n")
        tl = fn_body(fm, "format_expression")
        tm = re.search(r'format_subexpression\(expr,\s*u32::MAX,\s*OperatorSide::([A-Za-z]+)', tl)
        if not tm:
            raise ExtractError("format_expression: top-level call not found")
        out.append(f"def topPrec : Nat := 4294967295\ndef topSide : Side := .{tm.group(1)}\n")
        ini = fn_body(fm, "format_initializer_inner")
        im = re.search(r'ast::Initializer::Expression\(expr\)\s*=>\s*\{?\s*format_subexpression\(expr,\s*(\d+),\s*OperatorSide::([A-Za-z]+)', ini)
        if not im:
            raise ExtractError("format_initializer_inner: expression arm not found")
        out.append(f"def initPrec : Nat := {im.group(1)}\ndef initSide : Side := .{im.group(2)}\n")
        dec = fn_body(fm, "format_declarator")
        am = re.search(r'if let Some\(expr\) = array_size \{\s*format_subexpression\(expr,\s*(\d+),\s*OperatorSide::([A-Za-z]+)', dec)
        if not am:
            raise ExtractError("format_declarator: the array size is no longer printed with format_subexpression(expr, <prec>, <side>)")
        out.append(f"/-- array size of a declarator (a83e0d0) -/\ndef arraySizePrec : Nat := {am.group(1)}\ndef arraySizeSide : Side := .{am.group(2)}\n\n")

        # spellings
        for fname, lname, ops in (("format_unary_op", "unSpell", unops), ("format_bin_op", "binSpell", binops)):
            b = fn_body(fm, fname)
            _, arms_text, _ = first_match(b, r'^op$')
            sp = {}
            for pats, guard, result in match_arms(arms_text):
                rm = re.fullmatch(r'"([^"\\]*)"', result)
                if guard is not None or not rm:
                    raise ExtractError(f"{fname} arm {pats} => {result!r}")
                for p in pats:
                    sp[p] = rm.group(1)
            if set(sp) != set(ops):
                raise ExtractError(f"{fname} does not cover every operator")
            ty = "UnOp" if lname == "unSpell" else "BinOp"
            out.append(f"/-- `{fname}` -/\ndef {lname} : {ty} → String\n" +
                       "".join(f"  | .{o} => {lean_str(sp[o])}\n" for o in ops) + "\n")
            out.append(f"/-- `{fname}` as characters (kernel-reducible) -/\ndef {lname}Chars : {ty} → List Char\n" +
                       "".join(f"  | .{o} => " + T.lean_list("'" + c + "'" for c in sp[o]) + "\n" for o in ops) + "\n")
        # spaces around binary operators: `a, b` but `a + b`
        bb = re.search(r'if \*op != ast::BinOp::Sequence \{\s*output\.push\(\' \'\);\s*\}\s*format_bin_op\(op, output\)\?;\s*output\.push\(\' \'\);', body)
        if not bb:
            raise ExtractError("format_subexpression: spacing of binary operators changed")
        out.append("/-- a space precedes every binary operator except the comma; a space always follows -/\n"
                   "def spaceBeforeBin (op : BinOp) : Bool := op != .Sequence\n")
        out.append(T.footer("FmtTables"))
        return "".join(out)

    # ------------------------------------------------------------------------------------------ ParseTables
    def tok_pat(p):
        """Rust token pattern -> (lean predicate on Tok, lean constructor or None)"""
        p = normws(p)
        m = re.fullmatch(r'Token::(LeftAngleBracket|RightAngleBracket)\((FollowedBy::(Token|Whitespace)|_)\)', p)
        if m:
            c = "lt" if m.group(1) == "LeftAngleBracket" else "gt"
            if m.group(3) is None:
                return f"Tok.is{c.capitalize()}", None
            flag = "true" if m.group(3) == "Token" else "false"
            return f"(· == .{c} {flag})", f".{c} {flag}"
        m = re.fullmatch(r'Token::([A-Za-z]+)', p)
        if m:
            return f"(· == .p .{m.group(1)})", f".p .{m.group(1)}"
        raise ExtractError(f"token pattern {p!r} unsupported")

    def guard_to_lean(g):
        g = normws(g)
        g = g.replace("rest.is_empty()", "rest.isEmpty")
        g = re.sub(r'rest\[0\]\.0 != Token::([A-Za-z]+)', r'(rest.head? != some (Tok.p .\1))', g)
        g = re.sub(r'st\.terminator != Terminator::([A-Za-z]+)', r'(term != .\1)', g)
        if re.search(r'[A-Za-z_]+::|\bst\b|\[', g.replace("Tok.p", "")):
            raise ExtractError(f"guard {g!r} unsupported")
        return g

    def slice_arms(arms_text, where):
        arms = []
        for pats, guard, result in match_arms(arms_text):
            if len(pats) != 1:
                raise ExtractError(f"{where}: alternative patterns unsupported")
            p = pats[0]
            if p == '[]' or p == '_':
                if 'ParseErrorReason::' not in result:
                    raise ExtractError(f"{where}: default arm {result!r}")
                continue  # no operator
            if not (p.startswith('[') and p.endswith(']')):
                raise ExtractError(f"{where}: pattern {p!r}")
            elems = [normws(e) for e in split_top(p[1:-1], ',') if normws(e)]
            if elems[-1] not in ('rest @ ..', '..'):
                raise ExtractError(f"{where}: slice pattern {p!r} has no rest")
            toks = []
            for e in elems[:-1]:
                m = re.fullmatch(r'LexToken\((.*), _\)', e)
                if not m:
                    raise ExtractError(f"{where}: element {e!r}")
                toks.append(tok_pat(m.group(1))[0])
            rm = re.fullmatch(r'\{?\s*Ok\(\(rest, BinOp::([A-Za-z]+)\)\)\s*\}?', result)
            if rm:
                res = f"some (.{rm.group(1)}, rest)"
            elif 'ParseErrorReason::wrong_token' in result:
                res = "none"
            else:
                raise ExtractError(f"{where}: result {result!r}")
            arms.append((toks, guard_to_lean(guard) if guard else None, res))
        return arms

    @gen("ParseTables")
    def parse_tables():
        tokens_rs = T.src("text/src/tokens.rs")
        ex = T.src("parser/src/parser/expressions.rs")
        lx = T.src("preprocess/src/lexer.rs")
        out = ["-- GENERATED by tools/translate.py from text/src/tokens.rs, preprocess/src/lexer.rs, parser/src/parser/expressions.rs, formatter/src/formatter.rs -- do not edit\n"
               "import RsslVerif.Gen.FmtTables\nnamespace RsslVerif.Gen.ParseTables\nopen RsslVerif.Gen.FmtTables\n\n"]
        variants = enum_variants(tokens_rs, "Token")
        plain = [v for v, rest in variants if rest == ""]
        for need in ("LeftParen", "RightParen", "Comma", "QuestionMark", "Colon", "Period", "PlusPlus", "MinusMinus",
                     "LeftSquareBracket", "RightSquareBracket", "Equals", "ScopeResolution", "SizeOf"):
            if need not in plain:
                raise ExtractError(f"Token::{need} is not a payload-free variant any more")
        for v, rest in variants:
            if v in ("LeftAngleBracket", "RightAngleBracket") and rest != "(FollowedBy)":
                raise ExtractError(f"Token::{v} payload changed: {rest}")
        out.append("/-- payload-free variants of `Token` -/\ninductive Punct where\n" + "".join(f"  | {v}\n" for v in plain) +
                   "  deriving DecidableEq, Repr, Inhabited\n\n")
        out.append("inductive Terminator where | Standard | Sequence | TypeList\n  deriving DecidableEq, Repr, Inhabited\n\n")

        # lexer symbol tables
        ops = []
        for m in re.finditer(r"symbol_op_or_op_equals\(\s*b'(.)'\s*,\s*Token::([A-Za-z]+)\s*,\s*Token::([A-Za-z]+)\s*,\s*Token::([A-Za-z]+)\s*,?\s*\)", lx):
            ops.append(m.groups())
        singles = re.findall(r"symbol_single\(\s*b'(.)'\s*,\s*Token::([A-Za-z]+)\s*\)", lx)
        if len(ops) < 10 or len(singles) < 10:
            raise ExtractError("lexer symbol tables not found")
        body = fn_body(lx, "symbol_op_or_op_equals")
        if normws(body).count("=>") != 4 or "[c, b'=', ..] if *c == op_char && op_equals_token != Token::Eof" not in normws(body):
            raise ExtractError("symbol_op_or_op_equals changed shape")

        def opt(t):
            return "none" if t == "Eof" else f"some .{t}"
        out.append("/-- instances of `symbol_op_or_op_equals(c, op, op=, opop)`; `none` = `Token::Eof` (no such token) -/\n"
                   "def symOps : List (Char × Punct × Option Punct × Option Punct) := [\n" +
                   ",\n".join(f"  ('{c}', .{a}, {opt(b)}, {opt(d)})" for c, a, b, d in ops) + "]\n\n")
        seen = []
        for c, t in singles:
            if (c, t) not in seen:
                seen.append((c, t))
        out.append("/-- instances of `symbol_single(c, token)` -/\ndef symSingles : List (Char × Punct) := [\n" +
                   ",\n".join(f"  ('{c}', .{t})" for c, t in seen) + "]\n\n")
        la = fn_body(lx, "leftanglebracket")
        ra = fn_body(lx, "rightanglebracket")
        if "Some(tok) if !tok.is_whitespace() => Token::LeftAngleBracket(FollowedBy::Token)" not in normws(la) or \
           "Some(tok) if !tok.is_whitespace() => Token::RightAngleBracket(FollowedBy::Token)" not in normws(ra):
            raise ExtractError("angle bracket lexing changed shape")
        out.append("/-- `<` and `>` are always single-character tokens carrying `FollowedBy::Token` iff a token follows immediately -/\n"
                   "def angleBracketsAreSingle : Bool := true\n\n")

        # literals: kinds = variants of ast::Literal; the lexer has one literal token per kind (expr_literal is 1:1)
        ast_rs = T.src("ast/src/ast_expressions.rs")
        lit_kinds = [v for v, _ in enum_variants(ast_rs, "Literal")]
        el = normws(fn_body(ex, "expr_literal"))
        for k, t in (("IntUntyped", "LiteralInt"), ("IntUnsigned32", "LiteralIntUnsigned32"), ("IntUnsigned64", "LiteralIntUnsigned64"),
                     ("IntSigned64", "LiteralIntSigned64"), ("FloatUntyped", "LiteralFloat"), ("Float16", "LiteralFloat16"),
                     ("Float32", "LiteralFloat32"), ("Float64", "LiteralFloat64")):
            if k not in lit_kinds or f"Token::{t}(v) => Literal::{k}(v)" not in el:
                raise ExtractError(f"expr_literal no longer maps Token::{t} to Literal::{k}")
        if "Token::True => Literal::Bool(true)" not in el or "Token::False => Literal::Bool(false)" not in el:
            raise ExtractError("expr_literal: true/false mapping changed")
        out.append("/-- variants of `ast::Literal` (each has exactly one literal token, `expr_literal`) -/\ninductive LitKind where\n" +
                   "".join(f"  | {k}\n" for k in lit_kinds) + "  deriving DecidableEq, Repr, Inhabited\n\n"
                   "/-- a literal value: integers `±mag`; floats: sign bit and the remaining bits of the IEEE pattern; bool 0/1 -/\n"
                   "structure Lit where\n  kind : LitKind\n  neg : Bool\n  mag : Nat\n  deriving DecidableEq, Repr, Inhabited\n\n")
        # literal-dependent rules of the formatter (they need `LitKind`, hence here and not in Gen.FmtTables)
        fm = T.src("formatter/src/formatter.rs")
        nkinds, nprec = neg_literal_arms(fm)
        for k in nkinds:
            if k not in lit_kinds:
                raise ExtractError(f"get_expression_precedence: unknown literal kind {k}")
        out.append("/-- `get_expression_precedence`: a literal of one of these kinds whose value is negative (floats: sign bit set) has the\n"
                   "precedence `precNegLiteral` — it is printed with a sign and binds like a prefix operation (e7611e2); every other literal\n"
                   "has `precLiteral` -/\n"
                   "def negLiteralKinds : List LitKind := " + T.lean_list(f".{k}" for k in nkinds) + "\n"
                   f"def precNegLiteral : Nat := {nprec if nprec is not None else 'precLiteral'}\n\n")
        _, malways, mnonneg = member_arm(fm)
        for k in malways + mnonneg:
            if k not in lit_kinds:
                raise ExtractError(f"format_subexpression (Member): unknown literal kind {k}")
        out.append("/-- `format_subexpression`, `Member` arm: an object that is a literal of these kinds is printed in parentheses — `(1).x`,\n"
                   "because `1.x` would lex as a float (07e6b1c); the second list only when the value is not negative -/\n"
                   "def memParenLiteralKinds : List LitKind := " + T.lean_list(f".{k}" for k in malways) + "\n"
                   "def memParenNonNegLiteralKinds : List LitKind := " + T.lean_list(f".{k}" for k in mnonneg) + "\n\n")
        # token type of the model
        out.append("/-- tokens of the model: a (scoped) identifier is one abstract token named by its text; a literal token carries its value -/\n"
                   "inductive Tok where\n  | id (n : String)\n  | lit (l : Lit)\n  | p (p : Punct)\n  | lt (followedByToken : Bool)\n"
                   "  | gt (followedByToken : Bool)\n  deriving DecidableEq, Repr, Inhabited\n\n"
                   "def Tok.isLt : Tok → Bool | .lt _ => true | _ => false\n"
                   "def Tok.isGt : Tok → Bool | .gt _ => true | _ => false\n\n"
                   "/-- slice-pattern matching as the Rust `match` does it: predicates on the leading tokens, left to right -/\n"
                   "def matchPrefix : List (Tok → Bool) → List Tok → Option (List Tok)\n"
                   "  | [], ts => some ts\n  | _ :: _, [] => none\n"
                   "  | p :: ps, t :: ts => if p t then matchPrefix ps ts else none\n\n"
                   "/-- first arm whose pattern and guard hold decides; `some none` = the arm rejects -/\n"
                   "def firstArm {α : Type} : List (Option (Option α)) → Option α\n"
                   "  | [] => none\n  | some r :: _ => r\n  | none :: rest => firstArm rest\n\n")

        # prefix operators
        body = fn_body(ex, "unaryop_prefix")
        inner = re.findall(r'parse_token\(Token::([A-Za-z]+)\)\(input\)\?;\s*Ok\(\(\s*input,\s*Located::new\(UnaryOp::([A-Za-z]+)', body)
        order = re.findall(r'(unaryop_[a-z_]+)\(input\)', body[body.rindex("unaryop_increment(input)"):])
        if len(inner) != 8 or len(order) != 8:
            raise ExtractError(f"unaryop_prefix: expected 8 alternatives, found {len(inner)}/{len(order)}")
        out.append("/-- `unaryop_prefix`: token ↦ prefix operator -/\ndef prefixOp : Tok → Option UnOp\n" +
                   "".join(f"  | .p .{t} => some .{o}\n" for t, o in inner) + "  | _ => none\n\n")

        # postfix tokens of expr_p1
        p1 = fn_body(ex, "expr_p1")
        for fn, tok in (("expr_p1_increment", "PlusPlus"), ("expr_p1_decrement", "MinusMinus"), ("expr_p1_member", "Period"),
                        ("expr_p1_subscript", "LeftSquareBracket")):
            b = fn_body(p1, fn)
            if f"parse_token(Token::{tok})(input)?" not in normws(b):
                raise ExtractError(f"{fn} no longer starts with Token::{tok}")
        sub = fn_body(p1, "expr_p1_subscript")
        call = fn_body(p1, "expr_p1_call")
        if "Terminator::Sequence" not in sub or "Terminator::Sequence" not in call:
            raise ExtractError("expr_p1: subscript / call arguments no longer parse with Terminator::Sequence")
        par = fn_body(ex, "expr_in_paren")
        if "Terminator::Standard" not in par:
            raise ExtractError("expr_in_paren no longer parses with Terminator::Standard")
        pr = T.src("parser/src/parser.rs")
        st_rs = T.src("parser/src/parser/statements.rs")
        if "parse_expression_no_seq(input)" not in normws(fn_body(pr, "parse_arraydim")) or \
           "parse_expression_no_seq(input)?" not in normws(fn_body(fn_body(st_rs, "parse_initializer"), "init_expr")) or \
           "parse_expression_resolve_symbols(input, Terminator::Sequence)" not in normws(fn_body(ex, "parse_expression_no_seq")):
            raise ExtractError("array sizes / initialisers are no longer read with parse_expression_no_seq (Terminator::Sequence)")
        out.append("/-- array sizes and initialiser expressions are read with `parse_expression_no_seq` -/\n"
                   "def arraySizeTerminator : Terminator := .Sequence\ndef initTerminator : Terminator := .Sequence\n\n")
        out.append("/-- terminators used inside brackets (checked against expr_p1_subscript, expr_p1_call, expr_in_paren) -/\n"
                   "def subscriptTerminator : Terminator := .Sequence\ndef callArgTerminator : Terminator := .Sequence\n"
                   "def parenTerminator : Terminator := .Standard\n\n")

        # binary levels
        level_fns = {}
        for n in range(3, 16):
            if n == 13:
                continue
            body = fn_body(ex, f"expr_p{n}")
            po = fn_body(body, "parse_op")
            try:
                scrut, arms_text, _ = first_match(po, r'^input$')
                arms = slice_arms(arms_text, f"expr_p{n}::parse_op")
            except ExtractError:
                # older style: match input.first() { Some(LexToken(tok, _)) => { let op = match *tok {..}; Ok((&input[1..], op)) } .. }
                scrut, arms_text, _ = first_match(po, r'^\*tok$')
                if "Ok((&input[1..], op))" not in normws(po):
                    raise ExtractError(f"expr_p{n}::parse_op shape unsupported")
                arms = []
                for pats, guard, result in match_arms(arms_text):
                    if pats == ['_']:
                        continue
                    rm = re.fullmatch(r'BinOp::([A-Za-z]+)', result)
                    if guard is not None or not rm or len(pats) != 1:
                        raise ExtractError(f"expr_p{n}::parse_op arm {pats} => {result!r}")
                    arms.append(([tok_pat(pats[0])[0]], None, f"some (.{rm.group(1)}, rest)"))
            level_fns[n] = arms
            # what the level recurses into
            tail = normws(body[body.rindex("}") + 1:] if False else body)
            if n in (14,):
                if "expr_p13(input, st)?" not in tail or "expr_p14(input, st)?" not in tail:
                    raise ExtractError("expr_p14 no longer has the shape p13 [op p14]")
            else:
                mm = re.search(r'parse_binary_operations(_st)?\(parse_op, expr_p(\d+), input, st\)', tail)
                if not mm or int(mm.group(2)) != (n - 1 if n != 15 else 14):
                    raise ExtractError(f"expr_p{n} no longer is a left-associative loop over expr_p{n - 1}")
            out.append(f"/-- `expr_p{n}::parse_op`, arm by arm -/\ndef parseOp{n} (term : Terminator) (ts : List Tok) : Option (BinOp × List Tok) :=\n"
                       f"  let _ := term\n  firstArm [\n")
            lines = []
            for toks, guard, res in arms:
                g = f"if {guard} then some ({res}) else none" if guard else f"some ({res})"
                lines.append(f"    (match matchPrefix {T.lean_list(toks)} ts with | some rest => (let _ := rest; {g}) | none => none)")
            out.append(",\n".join(lines) + "]\n\n")
        p13 = normws(fn_body(ex, "expr_p13"))
        tr = normws(fn_body(fn_body(ex, "expr_p13"), "ternary_right"))
        tm = re.search(r'parse_token\(Token::QuestionMark\)\(input\)\?; let \(input, left\) = expr_p(\d+)\(input, st\)\?; '
                       r'let \(input, _\) = parse_token\(Token::Colon\)\(input\)\?; let \(input, right\) = expr_p(\d+)\(input, st\)\?;', tr)
        if not tm or "let (input, main) = expr_p12(input, st)?;" not in p13 or "_ => Ok((input, main))" not in p13:
            raise ExtractError("expr_p13 no longer has the shape p12 [? pM : pL] with fallback to p12")
        tern_mid, tern_last = int(tm.group(1)), int(tm.group(2))
        p14 = normws(fn_body(ex, "expr_p14"))
        if "_ => Ok((input, main))" not in p14:
            raise ExtractError("expr_p14 lost its fallback")
        p2 = normws(fn_body(ex, "expr_p2"))
        if "let (input, unary) = unaryop_prefix(input)?; let (input, expr) = expr_p2(input, st)?;" not in p2:
            raise ExtractError("expr_p2_unaryop no longer is prefix-op followed by expr_p2")
        out.append("/-- operator recognised by the loop of parser level `lvl` (3‥12 and 15 left-associative loops, 14 assignment) -/\n"
                   "def parseOpAt (lvl : Nat) (term : Terminator) (ts : List Tok) : Option (BinOp × List Tok) :=\n  match lvl with\n" +
                   "".join(f"  | {n} => parseOp{n} term ts\n" for n in sorted(level_fns)) + "  | _ => none\n\n")
        out.append("def leftAssocLevels : List Nat := " + T.lean_list(str(n) for n in sorted(level_fns) if n != 14) + "\n"
                   "def ternaryLevel : Nat := 13\ndef assignLevel : Nat := 14\ndef prefixLevel : Nat := 2\ndef postfixLevel : Nat := 1\n"
                   f"/-- levels at which `ternary_right` reads the operand between `?` and `:` and the one after `:` -/\n"
                   f"def ternMiddleLevel : Nat := {tern_mid}\ndef ternLastLevel : Nat := {tern_last}\n")
        out.append("\nend RsslVerif.Gen.ParseTables\n")
        return "".join(out)

    # ------------------------------------------------------------------------------------------ SyntaxTables
    # types, declarators, statements: extracted tables (type modifiers, keywords, site constants) and a fingerprint of
    # every formatter / parser function whose control flow is hand-modelled in Model/FormatFull.lean and
    # Model/ParseFull.lean.  `Thm.C09.source_fingerprints` compares the fingerprints with the ones the model was
    # written against: a changed arm breaks that obligation until the model has been re-read against the source.
    FINGERPRINTED = [
        # (source file, path of nested fn names)
        ("formatter/src/formatter.rs", ["format_type"]),
        ("formatter/src/formatter.rs", ["format_type_id"]),
        ("formatter/src/formatter.rs", ["format_type_layout"]),
        ("formatter/src/formatter.rs", ["format_type_modifiers"]),
        ("formatter/src/formatter.rs", ["format_scoped_identifier"]),
        ("formatter/src/formatter.rs", ["format_expression_or_type"]),
        ("formatter/src/formatter.rs", ["format_template_type_args"]),
        ("formatter/src/formatter.rs", ["format_declarator"]),
        ("formatter/src/formatter.rs", ["format_init_declarators"]),
        ("formatter/src/formatter.rs", ["format_init_declarator"]),
        ("formatter/src/formatter.rs", ["format_initializer"]),
        ("formatter/src/formatter.rs", ["format_initializer_inner"]),
        ("formatter/src/formatter.rs", ["format_variable_definition"]),
        ("formatter/src/formatter.rs", ["format_for_init"]),
        ("formatter/src/formatter.rs", ["format_statement"]),
        ("formatter/src/formatter.rs", ["format_attributes"]),
        ("formatter/src/formatter.rs", ["format_attribute"]),
        ("formatter/src/formatter.rs", ["format_function"]),
        ("formatter/src/formatter.rs", ["format_function_param"]),
        ("formatter/src/formatter.rs", ["format_struct"]),
        ("formatter/src/formatter.rs", ["format_global_variable"]),
        ("formatter/src/formatter.rs", ["format_location_annotations"]),
        ("formatter/src/formatter.rs", ["format_location_annotation"]),
        ("formatter/src/formatter.rs", ["format_semantic_annotation"]),
        ("parser/src/parser/errors.rs", ["get_most_relevant_result"]),
        ("parser/src/parser/errors.rs", ["get_result_significance"]),
        ("parser/src/parser.rs", ["parse_list_base"]),
        ("parser/src/parser.rs", ["parse_optional"]),
        ("parser/src/parser.rs", ["parse_arraydim"]),
        ("parser/src/parser/expressions.rs", ["expr_leaf"]),
        ("parser/src/parser/expressions.rs", ["expr_in_paren"]),
        ("parser/src/parser/expressions.rs", ["parse_expression_or_type_with_or_without_symbols"]),
        ("parser/src/parser/expressions.rs", ["parse_template_args_req"]),
        ("parser/src/parser/expressions.rs", ["parse_template_args"]),
        ("parser/src/parser/expressions.rs", ["expr_p1", "expr_p1_call"]),
        ("parser/src/parser/expressions.rs", ["expr_p1", "expr_p1_member"]),
        ("parser/src/parser/expressions.rs", ["expr_p1", "expr_p1_right"]),
        ("parser/src/parser/expressions.rs", ["expr_p1", "right_side_ops"]),
        ("parser/src/parser/expressions.rs", ["expr_p2"]),
        ("parser/src/parser/expressions.rs", ["parse_binary_operations_st"]),
        ("parser/src/parser/expressions.rs", ["parse_expression_resolve_symbols"]),
        ("parser/src/parser/types.rs", ["parse_type_layout_internal"]),
        ("parser/src/parser/types.rs", ["parse_type_internal"]),
        ("parser/src/parser/types.rs", ["parse_type_modifiers_before"]),
        ("parser/src/parser/types.rs", ["parse_type_modifiers_after"]),
        ("parser/src/parser/types.rs", ["parse_type_id_internal"]),
        ("parser/src/parser/declarations.rs", ["parse_init_declarators"]),
        ("parser/src/parser/declarations.rs", ["parse_init_declarator"]),
        ("parser/src/parser/declarations.rs", ["parse_declarator_internal"]),
        ("parser/src/parser/declarations.rs", ["parse_location_annotation"]),
        ("parser/src/parser/declarations.rs", ["parse_semantic"]),
        ("parser/src/parser/statements.rs", ["parse_initializer"]),
        ("parser/src/parser/statements.rs", ["parse_vardef"]),
        ("parser/src/parser/statements.rs", ["parse_init_statement"]),
        ("parser/src/parser/statements.rs", ["parse_attribute_base"]),
        ("parser/src/parser/statements.rs", ["parse_statement"]),
        ("parser/src/parser/statements.rs", ["parse_statement_kind"]),
        ("parser/src/parser/statements.rs", ["statement_block"]),
        ("parser/src/parser/functions.rs", ["parse_function_param"]),
        ("parser/src/parser/functions.rs", ["parse_function_definition"]),
        ("parser/src/parser/structs.rs", ["parse_struct_member"]),
        ("parser/src/parser/structs.rs", ["parse_struct_entry"]),
        ("parser/src/parser/structs.rs", ["parse_struct_definition"]),
    ]

    @gen("SyntaxTables")
    def syntax_tables():
        from rustsrc import sha
        ast_t = T.src("ast/src/ast_types.rs")
        fm = T.src("formatter/src/formatter.rs")
        lx = T.src("preprocess/src/lexer.rs")
        ty = T.src("parser/src/parser/types.rs")
        out = ["-- GENERATED by tools/translate.py from ast/src/ast_types.rs, formatter/src/formatter.rs, preprocess/src/lexer.rs, "
               "parser/src/parser/*.rs -- do not edit\n"
               "import RsslVerif.Gen.ParseTables\nnamespace RsslVerif.Gen.SyntaxTables\n"
               "open RsslVerif.Gen.FmtTables RsslVerif.Gen.ParseTables\n\n"]
        # type modifiers (payload-free variants)
        mods = [v for v, rest in enum_variants(ast_t, "TypeModifier") if rest == ""]
        out.append("/-- payload-free variants of `ast::TypeModifier` -/\ninductive TypeMod where\n" + "".join(f"  | {v}\n" for v in mods) +
                   "  deriving DecidableEq, Repr, Inhabited\n\n")
        out.append("def TypeMod.all : List TypeMod := " + T.lean_list(f".{v}" for v in mods) + "\n\n")
        out.append("def TypeMod.name : TypeMod → String\n" + "".join(f"  | .{v} => {lean_str(v)}\n" for v in mods) + "\n")
        out.append("def TypeMod.ofName? (s : String) : Option TypeMod := TypeMod.all.find? (fun o => o.name == s)\n\n")
        # Debug impl = the printed spelling (format_type_modifiers prints `{:?}`)
        m = re.search(r'impl std::fmt::Debug for TypeModifier \{', ast_t)
        if not m:
            raise ExtractError("Debug impl of TypeModifier not found")
        dbg = fn_body(ast_t[m.end():], "fmt")
        _, arms_text, _ = first_match(dbg, r'^self$')
        spell = {}
        for pats, guard, result in match_arms(arms_text):
            for p in pats:
                pm = re.fullmatch(r'TypeModifier::([A-Za-z]+)', p)
                rm = re.fullmatch(r'write!\(f, "([a-z_]+)"\)', result)
                if pm and rm and guard is None:
                    spell[pm.group(1)] = rm.group(1)
        if set(spell) != set(mods):
            raise ExtractError("TypeModifier Debug impl does not spell every payload-free variant with a literal")
        if 'write!(output, " {:?}", modifier.node)' not in normws(fn_body(fm, "format_type_modifiers")) or \
           'write!(output, "{:?} ", modifier.node)' not in normws(fn_body(fm, "format_type_modifiers")):
            raise ExtractError("format_type_modifiers no longer prints the Debug spelling with one space")
        out.append("/-- `Debug` of a modifier = what `format_type_modifiers` prints -/\ndef modSpell : TypeMod → String\n" +
                   "".join(f"  | .{v} => {lean_str(spell[v])}\n" for v in mods) + "\n")
        # keywords of the lexer
        kw_body = fn_body(lx, "any_word")
        _, arms_text, _ = first_match(kw_body, r'as_str\(\)')
        kws = []
        for pats, guard, result in match_arms(arms_text):
            rm = re.fullmatch(r'Token::([A-Za-z]+)', result)
            if rm and guard is None:
                for p in pats:
                    sm = re.fullmatch(r'"([A-Za-z_]+)"', p)
                    if sm:
                        kws.append((sm.group(1), rm.group(1)))
        if len(kws) < 30:
            raise ExtractError("any_word keyword table not found")
        out.append("/-- `any_word`: spelling ↦ keyword token (every other word is an identifier or a reserved word) -/\n"
                   "def keywords : List (String × Punct) := [\n" +
                   ",\n".join(f"  ({lean_str(s)}, .{t})" for s, t in kws) + "]\n\n")
        # modifiers before / after a type name
        def mod_arms(fname):
            body = fn_body(ty, fname)
            _, arms_text, _ = first_match(body, r'^input$')
            kw, ids, skips = [], [], []
            for pats, guard, result in match_arms(arms_text):
                for p in pats:
                    km = re.fullmatch(r'\[LexToken\(Token::([A-Za-z]+), (?:loc|_)\), rest @ \.\.\]', p)
                    if km and guard is None:
                        rm = re.fullmatch(r'\{?\s*\(TypeModifier::([A-Za-z]+), \*loc, rest\)\s*\}?', result)
                        if rm:
                            kw.append((km.group(1), rm.group(1)))
                        elif "input = rest; continue;" in result:
                            skips.append(km.group(1))
                        else:
                            raise ExtractError(f"{fname}: arm {p!r} => {result!r}")
                    elif p.startswith("[LexToken(Token::Id(id), loc)"):
                        _, inner, _ = first_match(result, r'as_str\(\)')
                        for ipats, ig, ires in match_arms(inner):
                            for ip in ipats:
                                sm = re.fullmatch(r'"([a-z_]+)"', ip)
                                rm = re.fullmatch(r'TypeModifier::([A-Za-z]+)', ires)
                                if sm and rm:
                                    ids.append((sm.group(1), rm.group(1)))
                                elif ip == '_' and ires == 'break':
                                    pass
                                else:
                                    raise ExtractError(f"{fname}: identifier arm {ip!r} => {ires!r}")
                    elif p == '_':
                        if result != 'break':
                            raise ExtractError(f"{fname}: default arm is not break")
                    else:
                        raise ExtractError(f"{fname}: pattern {p!r}")
            return kw, ids, skips
        bkw, bids, bskips = mod_arms("parse_type_modifiers_before")
        akw, aids, askips = mod_arms("parse_type_modifiers_after")
        if aids or askips:
            raise ExtractError("parse_type_modifiers_after has identifier / skip arms now")
        out.append("/-- `parse_type_modifiers_before`: keyword arms, identifier arms, skipped keywords (`inline`) -/\n"
                   "def modBeforeKw : List (Punct × TypeMod) := " + T.lean_list(f"(.{k}, .{m})" for k, m in bkw) + "\n"
                   "def modBeforeId : List (String × TypeMod) := " + T.lean_list(f"({lean_str(s)}, .{m})" for s, m in bids) + "\n"
                   "def modBeforeSkips : List Punct := " + T.lean_list(f".{k}" for k in bskips) + "\n"
                   "/-- `parse_type_modifiers_after` -/\n"
                   "def modAfterKw : List (Punct × TypeMod) := " + T.lean_list(f"(.{k}, .{m})" for k, m in akw) + "\n\n")
        # format_type prints every modifier before the layout
        ft = normws(fn_body(fm, "format_type"))
        if "format_type_modifiers(&ty.modifiers, false, output)?; format_type_layout(&ty.layout, output, context)?;" not in ft:
            raise ExtractError("format_type no longer prints modifiers (space after) then the layout")
        # cast / sizeof arms of format_subexpression
        body = fn_body(fm, "format_subexpression")
        cm = re.search(r"ast::Expression::Cast\(ty, expr\) => \{\s*output\.push\('\('\);\s*format_type_id\(ty, output, context\)\?;\s*"
                       r"output\.push\('\)'\);\s*format_subexpression\(expr,\s*prec,\s*OperatorSide::([A-Za-z]+)", body)
        if not cm:
            raise ExtractError("format_subexpression: Cast arm changed shape")
        out.append(f"/-- operand of a cast: `format_subexpression(expr, prec, side)` after `(type)` -/\ndef castOperandSide : Side := .{cm.group(1)}\n")
        sm = re.search(r'ast::Expression::SizeOf\(expr\) => \{\s*output\.push_str\("sizeof\("\);\s*format_expression_or_type\(expr, output, context\)\?;\s*'
                       r"output\.push\('\)'\);", body)
        if not sm:
            raise ExtractError("format_subexpression: SizeOf arm changed shape")
        ca = re.search(r'format_subexpression\(object,\s*2,\s*OperatorSide::Left,\s*output,\s*context\)\?;\s*format_template_type_args\(template_args, output, context\)\?;\s*'
                       r"output\.push\('\('\);", body)
        if not ca:
            raise ExtractError("format_subexpression: Call arm no longer prints object, template arguments, `(`")
        eot = normws(fn_body(fm, "format_expression_or_type"))
        em = re.fullmatch(r"match value \{ ast::ExpressionOrType::Expression\(expr\) \| ast::ExpressionOrType::Either\(expr, _\) => \{ "
                          r"(format_expression\(expr, output, context\)|format_subexpression\(expr, (\d+), OperatorSide::([A-Za-z]+), output, context\)) \} "
                          r"ast::ExpressionOrType::Type\(ty\) => format_type_id\(ty, output, context\), \}", eot)
        if not em:
            raise ExtractError("format_expression_or_type changed shape")
        if em.group(2) is None:
            out.append("/-- template arguments and the operand of sizeof are printed with `format_expression` (never parenthesised) or `format_type_id` -/\n"
                       "def eotExprPrec : Nat := topPrec\ndef eotExprSide : Side := topSide\n\n")
        else:
            out.append("/-- an expression that is a template argument or the operand of sizeof is printed with\n"
                       "`format_subexpression(expr, eotExprPrec, eotExprSide)` (e8e0be6: the shift operators and everything that binds less tightly\n"
                       "are parenthesised — the position is read under `Terminator::TypeList`); a type with `format_type_id` -/\n"
                       f"def eotExprPrec : Nat := {em.group(2)}\ndef eotExprSide : Side := .{em.group(3)}\n\n")
        # expression positions of lists outside format_subexpression (2a6da39): attribute arguments, default values, enum values
        def site(fname, rx, what):
            b = normws(fn_body(fm, fname))
            ms = re.findall(rx, b)
            if not ms:
                if "format_expression(" in b:
                    return None
                raise ExtractError(f"{fname}: {what} is printed in an unknown way")
            if len(set(ms)) != 1:
                raise ExtractError(f"{fname}: {what} is printed in several ways {sorted(set(ms))}")
            return ms[0]
        sites = [
            ("attrArg", "format_attribute", r"format_subexpression\((?:expr|last), (\d+), OperatorSide::([A-Za-z]+), output, context\)\?;", "an attribute argument"),
            ("paramDefault", "format_function_param", r'output\.push_str\(" = "\); format_subexpression\(default_expr, (\d+), OperatorSide::([A-Za-z]+), output, context\)\?;', "a default value"),
            ("enumValue", "format_enum", r'output\.push_str\(" = "\); format_subexpression\(expr, (\d+), OperatorSide::([A-Za-z]+), output, context\)\?;', "an enum value"),
        ]
        for nm, fname, rx, what in sites:
            r = site(fname, rx, what)
            if nm == "attrArg" and r is not None and len(re.findall(rx, normws(fn_body(fm, fname)))) != 2:
                raise ExtractError("format_attribute: not every argument is printed with format_subexpression")
            if r is None:
                out.append(f"/-- {what}: printed with `format_expression` -/\ndef {nm}Prec : Nat := topPrec\ndef {nm}Side : Side := topSide\n")
            else:
                out.append(f"/-- {what}: `format_subexpression(expr, {nm}Prec, {nm}Side)` (2a6da39) -/\n"
                           f"def {nm}Prec : Nat := {r[0]}\ndef {nm}Side : Side := .{r[1]}\n")
        out.append("\n")
        # order of template parameter list and attributes in format_function (df99070); base types in format_struct (2e907a1)
        ff = normws(fn_body(fm, "format_function"))
        it = ff.find("format_template_param_list(&def.template_params, output, context)?;")
        ia = ff.find("for attribute in &def.attributes {")
        ir = ff.find("format_type(&def.returntype.return_type, output, context)?;")
        if min(it, ia, ir) < 0 or not (max(it, ia) < ir):
            raise ExtractError("format_function: template parameters / attributes / return type not found in front")
        out.append("/-- `format_function` prints the template parameter list in front of the attributes (the order `parse_function_definition` reads) -/\n"
                   f"def templateParamsBeforeAttributes : Bool := {'true' if it < ia else 'false'}\n")
        pf = normws(fn_body(T.src("parser/src/parser/functions.rs"), "parse_function_definition"))
        jt = pf.find("parse_template_params(input)?")
        ja = pf.find("parse_multiple(parse_attribute)(input)?")
        if min(jt, ja) < 0:
            raise ExtractError("parse_function_definition: template parameters / attributes not found")
        out.append(f"def parserReadsTemplateParamsFirst : Bool := {'true' if jt < ja else 'false'}\n")
        fs = normws(fn_body(fm, "format_struct"))
        bm = re.search(r'output\.push_str\(&def\.name\); (if let Some\(\(first, rest\)\) = def\.base_types\.split_first\(\) \{ output\.push_str\(" : "\); '
                       r'format_type\(first, output, context\)\?; for base_type in rest \{ output\.push_str\(", "\); format_type\(base_type, output, context\)\?; \} \} )?'
                       r"context\.new_line\(output\); output\.push\('\{'\);", fs)
        if not bm or ("base_types" in fs and not bm.group(1)):
            raise ExtractError("format_struct: the part between the name and `{` changed shape")
        out.append("/-- `format_struct` prints ` : Base, Base` between the name and the opening brace -/\n"
                   f"def structPrintsBaseTypes : Bool := {'true' if bm.group(1) else 'false'}\n\n")
        # expr_p2's order of alternatives
        ex = T.src("parser/src/parser/expressions.rs")
        p2 = normws(fn_body(ex, "expr_p2"))
        if not p2.endswith("expr_p2_unaryop(input, st) .select(expr_p2_cast(input, st)) .select(expr_p2_sizeof(input, st)) .select(expr_p1(input, st))"):
            raise ExtractError("expr_p2: order of alternatives changed")
        p1r = normws(fn_body(fn_body(ex, "expr_p1"), "expr_p1_right"))
        if p1r != "expr_p1_increment(input) .select(expr_p1_decrement(input)) .select(expr_p1_call(input, st)) .select(expr_p1_member(input)) .select(expr_p1_subscript(input, st))":
            raise ExtractError("expr_p1_right: alternatives changed")
        eo = normws(fn_body(ex, "parse_expression_or_type_with_or_without_symbols"))
        if "parse_expression_resolve_symbols(input, Terminator::TypeList)" not in eo:
            raise ExtractError("parse_expression_or_type: the expression is no longer read under Terminator::TypeList")
        out.append("/-- the expression alternative of an expression-or-type position is read under this terminator -/\n"
                   "def eotTerminator : Terminator := .TypeList\n\n")
        # fingerprints
        fps = []
        cache = {}
        for rel, path in FINGERPRINTED:
            if rel not in cache:
                cache[rel] = T.src(rel)
            text = cache[rel]
            for name in path:
                text = fn_body(text, name)
            fps.append((rel.split("/")[-1] + "::" + "::".join(path), sha(normws(text))))
        out.append("/-- sha256 (first 16 hex digits) of the whitespace-normalised, comment-free body of every hand-modelled function -/\n"
                   "def fingerprints : List (String × String) := [\n" +
                   ",\n".join(f"  ({lean_str(n)}, {lean_str(h)})" for n, h in fps) + "]\n")
        out.append("\nend RsslVerif.Gen.SyntaxTables\n")
        return "".join(out)

import RsslVerif.Lemmas.MacroTame
import RsslVerif.Lemmas.MacroPaste
/-!
# Tame expansions with `##`

`TameP` = `Tame` (Lemmas/MacroTame.lean) plus a rule for `##` and two more side conditions on `invoke`:

* `paste`: a token that is kept and is followed -- white space aside -- by `##` and a right operand is pasted with
  that operand (`pasteTokens`); neither operand is expanded (the left one is `Kept`), the merged token names no enabled
  macro and is read again in front of what follows;
* `invoke`: the raw arguments contain no `##` (C pastes a replacement list *before* it looks for invocations, rssl
  while it rescans; with `##` inside the argument list of a nested invocation the two orders differ), and an argument
  whose parameter stands next to `##` contains no enabled macro name (rssl expands it before it substitutes, C does not)
  and is not empty (C's placemarker: `differs_empty_argument_next_to_paste`).

This file: the relation and the model side, `tameP_model`.
-/
namespace RsslVerif.Lemmas.MacroTameP
open RsslVerif.Model.Macro RsslVerif.Model.MacroTame RsslVerif.Lemmas.MacroTerm RsslVerif.Lemmas.MacroSubst
open RsslVerif.Lemmas.MacroHang RsslVerif.Lemmas.MacroTame RsslVerif.Lemmas.MacroPaste

/-- the arguments whose parameter stands next to `##` in the replacement list contain no enabled macro name and are
not empty -/
def PasteArgsOK (env : List Entry) (body : List PTok) (args : List (List PTok)) : Prop :=
  ∀ i ∈ pasteParams none body, ∀ a, args[i]? = some a → OnlyDisabled env a ∧ nonEmptyB a = true

inductive TameP : List Entry → List PTok → List PTok → Prop
  | nil (env : List Entry) : TameP env [] []
  | keep (env : List Entry) (t : PTok) (rest out : List PTok) :
      Kept env t rest → (t.tok.isWhitespace = true ∨ splitPaste rest = none) → TameP env rest out →
      TameP env (t :: rest) (t :: out)
  | paste (env : List Entry) (t1 t2 m : PTok) (rest rest2 out : List PTok) :
      t1.tok.isWhitespace = false → splitPaste rest = some (t2, rest2) → Kept env t1 rest →
      pasteTokens t1 t2 = .ok m → OnlyDisabled env [m] → TameP env (m :: rest2) out →
      TameP env (t1 :: rest) out
  | invoke (env : List Entry) (n : String) (b : Bool) (rest : List PTok) (mi : Nat) (e : Entry)
      (rest' : List PTok) (args args' : List (List PTok)) (body' R out : List PTok) :
      Selects env n mi e →
      readArgs e.m rest = .ok (rest', args) →
      (∀ a ∈ args, NoConcat a) →
      PasteArgsOK env e.m.body args →
      args'.length = args.length →
      (∀ (i : Nat) (a a' : List PTok), args[i]? = some a → args'[i]? = some a' → TameP env a a') →
      (∀ (i : Nat) (a a' : List PTok), args[i]? = some a → args'[i]? = some a' → ArgOK env a a') →
      substitute e.m.body args' = .ok body' →
      TameP (disable env mi) body' R →
      NoFire env mi R rest' →
      TameP env rest' out →
      TameP env (⟨.id n, b⟩ :: rest) (R ++ out)

/-! ## `splitPaste` -/

theorem dropWs_split (l : List PTok) :
    ∃ W, l = W ++ dropWs l ∧ (∀ t ∈ W, t.tok.isWhitespace = true) := by
  induction l with
  | nil => exact ⟨[], rfl, fun t ht => by cases ht⟩
  | cons x r ih =>
    by_cases hx : x.tok.isWhitespace = true
    · obtain ⟨W, hW, hws⟩ := ih
      refine ⟨x :: W, ?_, ?_⟩
      · have : dropWs (x :: r) = dropWs r := by simp [dropWs, hx]
        rw [this, List.cons_append, ← hW]
      · intro t ht
        rcases List.mem_cons.mp ht with rfl | ht
        · exact hx
        · exact hws t ht
    · refine ⟨[], ?_, fun t ht => by cases ht⟩
      simp [dropWs, hx]

theorem dropWs_head_nonws (l : List PTok) (t : PTok) (r : List PTok) (h : dropWs l = t :: r) :
    t.tok.isWhitespace = false := by
  induction l with
  | nil => simp [dropWs] at h
  | cons x xs ih =>
    by_cases hx : x.tok.isWhitespace = true
    · have : dropWs (x :: xs) = dropWs xs := by simp [dropWs, hx]
      rw [this] at h
      exact ih h
    · have : dropWs (x :: xs) = x :: xs := by simp [dropWs, hx]
      rw [this] at h
      cases h
      simpa using hx

/-- what `splitPaste` finds: `rest = W1 ++ ## :: W2 ++ t2 :: rest2` -/
theorem splitPaste_spec (rest rest2 : List PTok) (t2 : PTok) (h : splitPaste rest = some (t2, rest2)) :
    ∃ W1 c W2, rest = W1 ++ c :: (W2 ++ t2 :: rest2) ∧ c.tok = .concat ∧
      (∀ t ∈ W1, t.tok.isWhitespace = true) ∧ (∀ t ∈ W2, t.tok.isWhitespace = true) ∧
      t2.tok.isWhitespace = false ∧ t2.tok ≠ .concat := by
  unfold splitPaste at h
  split at h
  · rename_i cb r hd
    split at h
    · rename_i t2' rest2' hd2
      split at h
      · cases h
      · rename_i hne
        simp only [Option.some.injEq, Prod.mk.injEq] at h
        obtain ⟨rfl, rfl⟩ := h
        obtain ⟨W1, h1, hw1⟩ := dropWs_split rest
        obtain ⟨W2, h2, hw2⟩ := dropWs_split r
        refine ⟨W1, ⟨.concat, cb⟩, W2, ?_, rfl, hw1, hw2, dropWs_head_nonws r _ _ hd2, hne⟩
        rw [h1, hd, h2, hd2]
    · cases h
  · cases h

theorem tameP_model {env : List Entry} {l out : List PTok} (h : TameP env l out) :
    ∀ (toks : List PTok) (sp : SearchPos) (k : Nat), toks.drop k = l → sp.early ≤ sp.next → sp.next ≤ k →
      Passes toks sp env k → applyLoop env toks sp = .ok (toks.take k ++ out) := by
  induction h with
  | nil env =>
    intro toks sp k hl he hk hp
    have hk' : toks.length ≤ k := by simpa [List.drop_eq_nil_iff] using hl
    rw [applyLoop]
    split
    · simp only [findSingle, he, if_true]
      rw [hp, hl]
      simp [scanFrom, List.take_of_length_le hk']
    · simp [List.take_of_length_le hk']
  | keep env t rest out hkept _ htame ih =>
    intro toks sp k hl he hk hp
    obtain ⟨hget, hdrop, hlt⟩ := drop_cons_facts toks k t rest hl
    have hstep : scanFrom toks sp env (t :: rest) k = scanFrom toks sp env rest (k + 1) := by
      cases htk : t.tok with
      | id n =>
        have hm : matchMacro toks k n sp 0 env = none := by
          apply matchMacro_kept
          intro e he hn
          rcases hkept.2 n htk e he hn with hd | ⟨hf, hs⟩
          · exact Or.inl hd
          · exact Or.inr ⟨hf, parenAfter_none_of_startsParen toks k (by rw [hdrop]; exact hs)⟩
        simp [scanFrom, htk, hm]
      | concat => exact absurd htk hkept.1
      | _ => simp [scanFrom, htk]
    have hp' : Passes toks sp env (k + 1) := by
      unfold Passes at hp ⊢
      rw [hp, hl, hstep, hdrop]
    rw [ih toks sp (k + 1) hdrop he (by omega) hp']
    congr 1
    rw [List.take_add_one, hget]
    simp
  | paste env t1 t2 m rest rest2 out hnw hsplit hkept hpaste _ _ ih =>
    intro toks sp k hl he hk hp
    obtain ⟨W1, c, W2, hrest, hc, hw1, hw2, ht2, _⟩ := splitPaste_spec rest rest2 t2 hsplit
    obtain ⟨hget, hdrop, hlt⟩ := drop_cons_facts toks k t1 rest hl
    have hklen : (toks.take k).length = k := by simp; omega
    have htoks : toks = toks.take k ++ t1 :: (W1 ++ c :: (W2 ++ t2 :: rest2)) := by
      have := List.take_append_drop k toks
      rw [hl, hrest] at this
      exact this.symm
    obtain ⟨P, hP, hPl⟩ : ∃ P, toks = P ++ t1 :: (W1 ++ c :: (W2 ++ t2 :: rest2)) ∧ P.length = k :=
      ⟨toks.take k, htoks, hklen⟩
    clear htoks hklen
    subst hP
    have htk : (P ++ t1 :: (W1 ++ c :: (W2 ++ t2 :: rest2))).take k = P := by rw [← hPl, List.take_left]
    rw [htk]
    generalize hT : P ++ t1 :: (W1 ++ c :: (W2 ++ t2 :: rest2)) = toks at *
    -- the scan passes `t1` and the white space behind it and stops at the operator
    have hstep1 : scanFrom toks sp env (t1 :: rest) k = scanFrom toks sp env rest (k + 1) := by
      cases htk1 : t1.tok with
      | id n =>
        have hm : matchMacro toks k n sp 0 env = none := by
          apply matchMacro_kept
          intro e he hn
          rcases hkept.2 n htk1 e he hn with hd | ⟨hf, hs⟩
          · exact Or.inl hd
          · exact Or.inr ⟨hf, parenAfter_none_of_startsParen toks k (by rw [hdrop]; exact hs)⟩
        simp [scanFrom, htk1, hm]
      | concat => exact absurd htk1 hkept.1
      | _ => simp [scanFrom, htk1]
    have hstepW : ∀ (W : List PTok) (more : List PTok) (i : Nat), (∀ t ∈ W, t.tok.isWhitespace = true) →
        scanFrom toks sp env (W ++ more) i = scanFrom toks sp env more (i + W.length) := by
      intro W more
      induction W with
      | nil => intro i _; simp
      | cons w ws ihw =>
        intro i hws
        have hw : w.tok.isWhitespace = true := hws w (by simp)
        have := ihw (i + 1) (fun t ht => hws t (by simp [ht]))
        rw [List.cons_append, List.length_cons, show i + (ws.length + 1) = i + 1 + ws.length by omega, ← this]
        cases hwt : w.tok <;> simp [hwt, Tok.isWhitespace] at hw <;> simp [scanFrom, hwt]
    have htake : toks.take (k + 1 + W1.length) = P ++ t1 :: W1 := by
      have h1 : toks = (P ++ t1 :: W1) ++ c :: (W2 ++ t2 :: rest2) := by rw [← hT]; simp
      have h2 : (P ++ t1 :: W1).length = k + 1 + W1.length := by simp [hPl]; omega
      rw [h1, ← h2, List.take_left]
    have hl' : lastNonWs (toks.take (k + 1 + W1.length)) 0 none = some k := by
      rw [htake, lastNonWs_append]
      simp only [lastNonWs, hnw, Nat.zero_add, hPl]
      exact lastNonWs_acc W1 _ _ hw1
    have hr' : firstNonWs (W2 ++ t2 :: rest2) (k + 1 + W1.length + 1) = some (k + 1 + W1.length + 1 + W2.length) := by
      rw [firstNonWs_ws W2 _ _ hw2]
      simp [firstNonWs, ht2]
    have hf : findSingle toks sp env = .ok (.concat k (k + 1 + W1.length + 1 + W2.length)) := by
      unfold findSingle
      simp only [he, if_true]
      rw [hp, hl, hstep1, hrest, hstepW W1 _ (k + 1) hw1, scanFrom]
      simp only [hc]
      have : ¬ k + 1 + W1.length < sp.next := by omega
      simp only [this, if_false]
      rw [hl', hr']
    have hlen : toks.length = k + 1 + W1.length + 1 + W2.length + 1 + rest2.length := by
      rw [← hT]
      simp only [List.length_append, List.length_cons, hPl]
      omega
    have hgr : toks[k + 1 + W1.length + 1 + W2.length]? = some t2 := by
      have h1 : toks = (P ++ t1 :: (W1 ++ c :: W2)) ++ t2 :: rest2 := by rw [← hT]; simp
      have h2 : (P ++ t1 :: (W1 ++ c :: W2)).length = k + 1 + W1.length + 1 + W2.length := by
        simp [hPl]; omega
      rw [h1, ← h2, List.getElem?_append_right (Nat.le_refl _)]
      simp
    rw [applyLoop]
    have hlt0 : sp.next < toks.length := by omega
    simp only [hlt0, dite_true, hf, hget, hgr, hpaste]
    have h1 : k + 1 < k + 1 + W1.length + 1 + W2.length := by omega
    have h2 : sp.next < k + 1 + W1.length + 1 + W2.length ∧ k + 1 + W1.length + 1 + W2.length < toks.length := by
      omega
    simp only [h1, if_true, h2, and_self, dite_true]
    have hspl : splice toks k (k + 1 + W1.length + 1 + W2.length + 1) [m] = P ++ m :: rest2 := by
      unfold splice
      have e1 : toks.take k = P := by rw [← hT, ← hPl, List.take_left]
      have e2 : toks.drop (k + 1 + W1.length + 1 + W2.length + 1) = rest2 := by
        have hh : toks = (P ++ t1 :: (W1 ++ c :: (W2 ++ [t2]))) ++ rest2 := by rw [← hT]; simp
        have hl2 : (P ++ t1 :: (W1 ++ c :: (W2 ++ [t2]))).length = k + 1 + W1.length + 1 + W2.length + 1 := by
          simp [hPl]; omega
        rw [hh, ← hl2, List.drop_left]
      rw [e1, e2]; simp
    rw [hspl]
    have hdrop' : (P ++ m :: rest2).drop k = m :: rest2 := by
      rw [← hPl, List.drop_left]
    have := ih (P ++ m :: rest2) ⟨k, k, none⟩ k hdrop' (Nat.le_refl _) (Nat.le_refl _) (by
      unfold Passes; rfl)
    rw [this]
    congr 1
    rw [← hPl, List.take_left]
  | invoke env n b rest mi e rest' args args' body' R out hsel hra _ _ hlen hargs hod hsub hbody hnf hrest
      ihargs ihbody ihrest =>
    intro toks sp k hl he hk hp
    obtain ⟨hget, hdrop, hlt⟩ := drop_cons_facts toks k ⟨.id n, b⟩ rest hl
    obtain ⟨henv, hprelen, hpre⟩ := selects_split hsel
    -- the scan stops at `k` and selects entry `mi`
    have hfn : e.m.isFunction = true → ∃ act, parenAfter toks k = some act ∧ sp.next ≤ act := by
      intro hf
      have hs := readArgs_spec e.m rest rest' args hra
      simp only [hf, if_true] at hs
      obtain ⟨bb, tail, htrim, _, _⟩ := hs
      have hpa : parenAfter toks k = some (toks.length - (tail.length + 1)) := by
        unfold parenAfter; rw [hdrop, htrim]
      exact ⟨_, hpa, by have := parenAfter_gt _ _ _ hpa; omega⟩
    have hm : matchMacro toks k n sp 0 env = some mi := by
      have := matchMacro_at toks k sp 0 (env.take mi) (env.drop (mi + 1)) e hpre hsel.enabled hk hfn
      rw [← henv, hprelen, hsel.name, Nat.zero_add] at this
      exact this
    have hf : findSingle toks sp env = .ok (.user mi k) := by
      unfold findSingle
      simp only [he, if_true]
      rw [hp, hl]
      simp [scanFrom, hm]
    have hargsM : mapE (fun a => applyLoop env a SearchPos.start) args = .ok args' :=
      mapE_pointwise _ _ _ hlen (fun i a a' ha ha' => by
        have := ihargs i a a' ha ha' a SearchPos.start 0 rfl (Nat.le_refl _) (Nat.le_refl _) (passes_start _ _)
        simpa using this)
    have hbodyM : applyLoop (disable env mi) body' SearchPos.start = .ok R := by
      have := ihbody body' SearchPos.start 0 rfl (Nat.le_refl _) (Nat.le_refl _) (passes_start _ _)
      simpa using this
    have hstep := applyLoop_user_step env toks sp mi k e rest' args args' body' R (by omega) hf hsel.get
      (by rw [hdrop]; exact hra) hargsM hsub hbodyM
    obtain ⟨mid, hmid⟩ := readArgs_suffix _ _ _ _ hra
    have hklen : (toks.take k).length = k := by simp; omega
    have htoks : toks = toks.take k ++ (⟨.id n, b⟩ :: mid) ++ rest' := by
      have := List.take_append_drop k toks
      rw [hl, hmid] at this
      simpa using this.symm
    have hspl : splice toks k (toks.length - rest'.length) R = toks.take k ++ R ++ rest' := by
      have := splice_middle (toks.take k) (⟨.id n, b⟩ :: mid) rest' R
      rw [← htoks, hklen] at this
      exact this
    have hncR : NoConcat R :=
      (applyLoop_hang_free (disable env mi) body' SearchPos.start
        (by simpa [SearchPos.start] using noConcat_nil)).2 R hbodyM
    have hpass := passes_after env mi e (toks.take k) R rest' hsel.get hncR hnf
    rw [hklen] at hpass
    have hdrop' : (toks.take k ++ R ++ rest').drop (k + R.length) = rest' := by
      have : k + R.length = (toks.take k ++ R).length := by simp [hklen]
      rw [this, List.drop_left]
    have := ihrest (toks.take k ++ R ++ rest')
      ⟨k + R.length, k, if e.m.isFunction then some mi else none⟩ (k + R.length) hdrop' (by simp) (Nat.le_refl _) hpass
    rw [hstep, hspl, this]
    congr 1
    have : k + R.length = (toks.take k ++ R).length := by simp [hklen]
    rw [this, List.take_left]
    simp



end RsslVerif.Lemmas.MacroTameP

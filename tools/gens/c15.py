"""Translator plugin for C15: Gen.Reserved

Re-extracted from /repo on every run:
  * hlsl/src/names.rs, msl/src/names.rs : RESERVED_NAMES (string literals and `pub const X: &str` references,
    in source order), the fixed generated identifiers of the MSL exporter
  * typer/src/typer/types.rs            : is_illegal_variable_name / is_illegal_type_name
  * ir/src/name_generator.rs            : the facts of NameMap::build the model relies on (candidate format,
    keep-verbatim condition, which sets the two loops test) as literal fingerprints
  * hlsl/src/ast_generate.rs, msl/src/generator.rs : the arguments of the NameMap::build call
"""
import re


def register(gen, T):
    from rustsrc import ExtractError, fn_body, impl_fn_body, lean_str, normws, matching, split_top

    def str_consts(text):
        return {m.group(1): m.group(2) for m in
                re.finditer(r'pub\s+const\s+([A-Z0-9_]+)\s*:\s*&str\s*=\s*"((?:[^"\\]|\\.)*)"\s*;', text)}

    def reserved_list(text, what):
        m = re.search(r'pub\s+const\s+RESERVED_NAMES\s*:\s*&\[&str\]\s*=\s*&\[', text)
        if not m:
            raise ExtractError(f"{what}: RESERVED_NAMES not found")
        i = m.end() - 1
        j = matching(text, i)
        consts = str_consts(text)
        out = []
        for part in split_top(text[i + 1:j], ','):
            p = part.strip()
            if not p:
                continue
            sm = re.fullmatch(r'"((?:[^"\\]|\\.)*)"', p)
            if sm:
                if '\\' in sm.group(1):
                    raise ExtractError(f"{what}: escape in reserved name {p}")
                out.append(sm.group(1))
            elif p in consts:
                out.append(consts[p])
            else:
                raise ExtractError(f"{what}: cannot read RESERVED_NAMES entry {p!r}")
        if not out:
            raise ExtractError(f"{what}: RESERVED_NAMES is empty")
        return out, consts

    def matches_list(text, fn):
        body = fn_body(text, fn)
        m = re.search(r'matches!\s*\(', body)
        if not m:
            raise ExtractError(f"{fn}: matches! not found")
        i = m.end() - 1
        j = matching(body, i)
        args = split_top(body[i + 1:j], ',')
        if len(args) < 2 or normws(args[0]) != "name.as_str()":
            raise ExtractError(f"{fn}: unexpected matches! scrutinee")
        pats = ','.join(args[1:])
        names = []
        for p in split_top(pats, '|'):
            p = p.strip()
            if not p:
                continue
            sm = re.fullmatch(r'"([^"\\]*)"', p)
            if not sm:
                raise ExtractError(f"{fn}: pattern {p!r} is not a string literal")
            names.append(sm.group(1))
        return names

    def build_call(text, what):
        m = re.search(r'NameMap::build\(\s*module\s*,\s*RESERVED_NAMES\s*,\s*(true|false)\s*\)', text)
        if not m:
            raise ExtractError(f"{what}: NameMap::build(module, RESERVED_NAMES, <bool>) not found")
        return m.group(1)


    # ---------------------------------------------------------------- identifiers the exporters introduce themselves
    DECL_SITES = [
        ("declarator", r'Declarator::Identifier\(\s*(?:ast::)?ScopedIdentifier::trivial\('),
        ("declarator-from", r'Declarator::from\(\s*Located::none\('),
        ("local", r'VarDef::one\(\s*Located::none\(\s*String::from\('),
    ]

    def call_arg(text, open_paren):
        """text of the (single) argument of the call whose `(` is at open_paren"""
        j = matching(text, open_paren)
        return normws(text[open_paren + 1:j]).rstrip(',').strip()

    def classify(arg, consts, what):
        """('lit', name) | ('const', CONST, name) | ('pattern', prefix) | ('dyn', expr)"""
        a = arg[1:].strip() if arg.startswith('&') else arg
        m = re.fullmatch(r'"([A-Za-z_][A-Za-z_0-9]*)"', a)
        if m:
            return ('lit', m.group(1))
        if re.fullmatch(r'[A-Z][A-Z0-9_]*', a):
            if a not in consts:
                raise ExtractError(f"{what}: identifier constant {a} is not a `pub const … : &str` of names.rs")
            return ('const', a, consts[a])
        m = re.fullmatch(r'format!\(\s*"([A-Za-z_][A-Za-z_0-9]*)\{[a-z_]*\}"\s*(?:,[^)]*)?\)', a)
        if m:
            return ('pattern', m.group(1))
        if a.startswith('"') or a.startswith('format!'):
            raise ExtractError(f"{what}: cannot read introduced identifier {arg!r}")
        return ('dyn', a)

    def introduced(texts, consts, what):
        """fixed names and `format!` prefixes that appear in declaring positions of the given generator sources, plus every
        names.rs constant the sources mention at all (struct / function names reach their definitions through variables)"""
        fixed, patterns, ndyn = [], [], 0
        for fname, text in texts:
            for kind, pat in DECL_SITES:
                for m in re.finditer(pat, text):
                    c = classify(call_arg(text, m.end() - 1), consts, f"{what} {fname} {kind}")
                    if c[0] == 'lit':
                        fixed.append(c[1])
                    elif c[0] == 'const':
                        fixed.append(c[2])
                    elif c[0] == 'pattern':
                        patterns.append(c[1])
                    else:
                        ndyn += 1
            for m in re.finditer(r'format!\(\s*"([A-Za-z_][A-Za-z_0-9]*)\{[a-z_]*\}"', text):
                # a numbered identifier built in place (`set{}`, `InlineDescriptor{}`, `g_inlineDescriptor{set}`)
                tail = text[m.end():m.end() + 1]
                if tail in (',', ')') and len(m.group(1)) >= 3:
                    patterns.append(m.group(1))
            for c in consts:
                if re.search(r'\b' + c + r'\b', text):
                    fixed.append(consts[c])
        uniq = lambda xs: sorted(set(xs))
        return uniq(fixed), uniq(patterns), ndyn

    IMPLICIT_ARM = r'ImplicitFunctionParameter::([A-Za-z]+)(?:\([^)]*\))?\s*=>'

    def implicit_sites(body, consts, what):
        """per `ImplicitFunctionParameter::X =>` arm of `body`: the arguments of every `ScopedIdentifier::trivial(…)` /
        `Declarator::from(Located::none(…))` up to the next arm, constants resolved; dynamic ones dropped"""
        arms = list(re.finditer(IMPLICIT_ARM, body))
        out = {}
        for k, m in enumerate(arms):
            seg = body[m.end():arms[k + 1].start() if k + 1 < len(arms) else len(body)]
            names = []
            for t in re.finditer(r'ScopedIdentifier::trivial\(|Declarator::from\(\s*Located::none\(', seg):
                c = classify(call_arg(seg, t.end() - 1), consts, f"{what} arm {m.group(1)}")
                if c[0] == 'lit':
                    names.append(c[1])
                elif c[0] == 'const':
                    names.append(c[2])
            out.setdefault(m.group(1), []).extend(names)
        return out

    @gen("Reserved")
    def gen_reserved():
        hl = T.src("hlsl/src/names.rs")
        ms = T.src("msl/src/names.rs")
        ty = T.src("typer/src/typer/types.rs")
        ng = T.src("ir/src/name_generator.rs")
        hg = T.src("hlsl/src/ast_generate.rs")
        mg = T.src("msl/src/generator.rs")
        hres, _ = reserved_list(hl, "hlsl")
        mres, mconsts = reserved_list(ms, "msl")
        out = [T.header("Reserved", ["hlsl/src/names.rs", "msl/src/names.rs", "typer/src/typer/types.rs",
                                     "ir/src/name_generator.rs", "hlsl/src/ast_generate.rs", "msl/src/generator.rs",
                                     "msl/src/generator/pipeline.rs"])]

        def lst(name, doc, items):
            out.append(f"/-- {doc} -/\ndef {name} : List String :=\n  [" +
                       ",\n   ".join(", ".join(lean_str(x) for x in items[k:k + 6]) for k in range(0, len(items), 6)) +
                       "]\n\n")

        lst("hlsl", "`RESERVED_NAMES` of hlsl/src/names.rs, source order", hres)
        lst("msl", "`RESERVED_NAMES` of msl/src/names.rs, source order (constants resolved)", mres)
        lst("mslFixed", "fixed identifiers the MSL exporter generates (`pub const … : &str` of msl/src/names.rs)",
            [mconsts[k] for k in mconsts])
        lst("illegalVariableNames", "`is_illegal_variable_name`", matches_list(ty, "is_illegal_variable_name"))
        lst("illegalTypeNames", "`is_illegal_type_name`", matches_list(ty, "is_illegal_type_name"))

        # --- fingerprints of NameMap::build
        body = impl_fn_body(ng, r'NameMap', "build")
        flat = normws(body)
        fmts = re.findall(r'format!\(\s*"([^"]*)"\s*,\s*name\s*,\s*counter\s*\)', flat)
        if len(fmts) != 2 or fmts[0] != fmts[1]:
            raise ExtractError(f"NameMap::build: expected two identical candidate format! calls, found {fmts}")
        out.append(f"/-- the `format!` string of both candidate loops of `NameMap::build` -/\n"
                   f"def candFormat : String := {lean_str(fmts[0])}\n\n")
        facts = {
            "claimLoop": r'let mut kept_names = HashSet::new\(\); for \(name, symbols\) in &name_to_symbol_vec \{ if symbols\.len\(\) == 1 && used_names\.insert\(\(\*name\)\.clone\(\)\) \{ kept_names\.insert\(\*name\); \} \}',
            "keepCondition": r'let name = if kept_names\.contains\(name\) \{ name\.clone\(\) \} else \{',
            "scopeLoopInsert": r'if used_names\.insert\(candidate\.clone\(\)\) \{ used_names_all_scopes\.insert\(candidate\.clone\(\)\); break candidate; \} counter \+= 1;',
            "scopeUsedStartsReserved": r'let mut used_names = reserved_name_set\.clone\(\);',
            "allScopesStartsReserved": r'let mut used_names_all_scopes = reserved_name_set\.clone\(\);',
            "sortedByName": r'name_to_symbol_vec\.sort_by\(\|l, r\| String::cmp\(l\.0, r\.0\)\);',
            "usageOfAllFunctions": r'let usage = usage_analysis::GlobalUsageAnalysis::calculate\(module\); for id in module\.function_registry\.iter\(\) \{ for used_symbol in usage\.get_usage_for_function\(id\) \{',
            "usageKinds": r'usage_analysis::UsageSymbol::Function\(id\) => NameSymbol::Function\(id\), usage_analysis::UsageSymbol::GlobalVariable\(id\) => NameSymbol::GlobalVariable\(id\), usage_analysis::UsageSymbol::ConstantBuffer\(_\) => continue,',
            "usageReserves": r'if let Some\(name_string\) = name_map\.names\.get\(&symbol\) \{ used_names_all_scopes\.insert\(name_string\.name\.clone\(\)\); \}',
            "localTest": r'let picked_name = if used_names_all_scopes\.contains\(name\) \{',
            "localLoop": r'if !all_local_names\.contains\(&candidate\) && used_names_all_scopes\.insert\(candidate\.clone\(\)\) \{ break candidate; \} counter \+= 1;',
            "localKeeps": r'\} else \{ String::from\(name\) \};',
            "counterStartsAtZero": r'let mut counter = 0; loop \{ let candidate',
        }
        for k, pat in facts.items():
            n = len(re.findall(pat, flat))
            want = 2 if k == "counterStartsAtZero" else 1
            out.append(f"/-- source fingerprint `{k}` of NameMap::build found {n} time(s), expected {want} -/\n"
                       f"def fact_{k} : Bool := {'true' if n == want else 'false'}\n\n")
        order = re.findall(r'name_vec\.push\(NameSymbol::([A-Za-z]+)\(\*?[a-z_]+\)\)', flat)
        lst("pushOrder", "order in which `NameMap::build` pushes symbol kinds into the per-scope vectors", order)

        # --- identifiers the exporters introduce themselves into scopes that hold user-named entities
        mp = T.src("msl/src/generator/pipeline.rs")
        hconsts = str_consts(hl)
        mfix, mpat, mdyn = introduced([("generator.rs", mg), ("generator/pipeline.rs", mp)], mconsts, "msl")
        hfix, hpat, hdyn = introduced([("ast_generate.rs", hg)], hconsts, "hlsl")
        lst("mslIntroduced", "fixed identifiers msl/src/generator.rs and generator/pipeline.rs put into declaring positions "
            "(`Declarator::Identifier(ScopedIdentifier::trivial(X))`, `Declarator::from(Located::none(X))`, "
            "`VarDef::one(Located::none(String::from(X)))` with X a literal or a names.rs constant) or reach through a names.rs "
            "constant they mention (struct / wrapper names); generator/intrinsic_helpers.rs is left out: everything it declares "
            "sits inside `namespace helper` in scopes of its own that hold no user entity", mfix)
        lst("mslIntroducedPatterns", "`format!` prefixes of numbered identifiers the MSL exporter builds in place", mpat)
        lst("hlslIntroduced", "the same for hlsl/src/ast_generate.rs", hfix)
        lst("hlslIntroducedPatterns", "`format!` prefixes of numbered identifiers the HLSL exporter builds in place", hpat)
        out.append(f"/-- declaring positions of the exporters whose identifier is computed (name map, loops): msl, hlsl -/\n"
                   f"def introducedDynamicSites : Nat × Nat := ({mdyn}, {hdyn})\n\n")
        # the implicit parameters: one identifier per variant, the same at the four places that must agree
        decl = implicit_sites(fn_body(mg, "generate_function_inner"), mconsts, "generate_function_inner")
        args_ = implicit_sites(fn_body(mg, "append_arguments_for_globals"), mconsts, "append_arguments_for_globals")
        wrap_ = implicit_sites(fn_body(mp, "generate_pipeline"), mconsts, "generate_pipeline")
        variants = [v for v in decl if v != "Global"]
        rows = []
        for v in variants:
            names = set(decl.get(v, [])) | set(args_.get(v, [])) | set(wrap_.get(v, []))
            if len(names) != 1 or not decl.get(v) or not args_.get(v) or not wrap_.get(v):
                raise ExtractError(f"implicit parameter {v}: declaration {decl.get(v)}, call argument {args_.get(v)}, "
                                   f"entry wrapper {wrap_.get(v)} do not agree on one identifier")
            rows.append((v, names.pop()))
        out.append("/-- `ImplicitFunctionParameter` variants other than `Global` with the identifier that `generate_function_inner` "
                   "declares, `append_arguments_for_globals` passes and the entry wrapper of `generate_pipeline` declares and "
                   "passes for them (all sites agree, else the translator refuses) -/\n"
                   "def mslImplicitParams : List (String × String) :=\n  [" +
                   ",\n   ".join(f"({lean_str(v)}, {lean_str(n)})" for v, n in rows) + "]\n\n")
        # which intrinsic asks for which variant, and which identifier the intrinsic itself is printed as
        asks = re.findall(r'ir::Intrinsic::([A-Za-z]+) => \{ required_globals\.push\(ImplicitFunctionParameter::([A-Za-z]+)\)',
                          normws(mg))
        ibody = normws(fn_body(mg, "generate_intrinsic_function"))
        wave = []
        for intr, var in asks:
            m = re.search(r'\b' + intr + r' => Ok\(ast::Expression::Identifier\((?:ast::)?ScopedIdentifier::trivial\(([^)]*?),? ?\)\)\)', ibody)
            if m:
                c = classify(m.group(1).strip(), mconsts, f"generate_intrinsic_function {intr}")
                if c[0] in ('lit', 'const'):
                    wave.append((intr, var, c[-1]))
        out.append("/-- intrinsics that `generate_intrinsic_function` prints as a bare identifier and for which the usage loop pushes an "
                   "implicit parameter: (intrinsic, variant, identifier printed) -/\n"
                   "def mslImplicitIntrinsics : List (String × String × String) :=\n  [" +
                   ",\n   ".join(f"({lean_str(a)}, {lean_str(b)}, {lean_str(c)})" for a, b, c in wave) + "]\n\n")
        sorted_fact = len(re.findall(r'required_globals\.sort\(\);', normws(mg)))
        enum_m = re.search(r'enum ImplicitFunctionParameter \{(.*?)\n\}', mg, re.S)
        order = re.findall(r'^\s*([A-Z][A-Za-z]+)\b', re.sub(r'///[^\n]*', '', enum_m.group(1)), re.M) if enum_m else []
        lst("mslImplicitOrder", "variants of `enum ImplicitFunctionParameter` in declaration order (= derived `Ord`; "
            "`required_globals.sort()` puts the parameters into this order)", order)
        out.append(f"/-- `required_globals.sort();` found {sorted_fact} time(s), expected 1 -/\n"
                   f"def fact_implicitSorted : Bool := {'true' if sorted_fact == 1 else 'false'}\n\n")
        out.append(f"/-- third argument of the `NameMap::build` call in hlsl/src/ast_generate.rs -/\n"
                   f"def hlslIntrinsicsReserved : Bool := {build_call(hg, 'hlsl')}\n\n")
        out.append(f"/-- third argument of the `NameMap::build` call in msl/src/generator.rs -/\n"
                   f"def mslIntrinsicsReserved : Bool := {build_call(mg, 'msl')}\n")
        out.append(T.footer("Reserved"))
        return "".join(out)

    @gen("UsageOperands")
    def usage_operands():
        """ir/src/ir_expressions.rs `enum Expression`: which fields of each variant hold sub-expressions (operands).  Together
        with Gen.UsageTables.exprArms (tools/gens/c02.py: which fields gather_usage_for_expression descends into, per match arm
        and per or-pattern alternative) this yields the obligation `every operand is descended into`."""
        from rustsrc import enum_variants
        src = T.src("ir/src/ir_expressions.rs")
        rows = []
        for v, rest in enum_variants(src, "Expression"):
            rest = re.sub(r'//[^\n]*', '', rest).strip()
            if not rest:
                fields = []
            elif rest.startswith('('):
                j = matching(rest, 0)
                fields = [f.strip() for f in split_top(rest[1:j], ',') if f.strip()]
            else:
                raise ExtractError(f"Expression::{v}: struct-like variant {rest[:40]!r} is not understood")
            # a field is an operand when its type mentions Expression or ConstructorSlot (which wraps an Expression)
            rows.append((v, [bool(re.search(r'\b(Expression|ConstructorSlot)\b', f)) for f in fields], fields))
        slot = re.search(r'pub struct ConstructorSlot \{(.*?)\}', src, re.S)
        if not slot or not re.search(r'\bexpr\s*:\s*Expression\b', slot.group(1)):
            raise ExtractError("ConstructorSlot no longer wraps `expr: Expression`")
        out = [T.header("UsageOperands", ["ir/src/ir_expressions.rs"])]
        out.append("/-- `enum Expression`: variant ↦ per field, does it hold sub-expressions (Box<Expression>, Vec<Expression>, "
                   "Vec<ConstructorSlot>) -/\ndef exprOperandFields : List (String × List Bool) := [\n")
        out.append(",\n".join(f"  ({lean_str(v)}, [{', '.join('true' if b else 'false' for b in fl)}])  -- {', '.join(fs)}"
                              if False else f"  ({lean_str(v)}, [{', '.join('true' if b else 'false' for b in fl)}])"
                              for v, fl, fs in rows))
        out.append("\n]\n")
        out.append(T.footer("UsageOperands"))
        return "".join(out)

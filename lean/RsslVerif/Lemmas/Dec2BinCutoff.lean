import RsslVerif.Lemmas.Dec2BinNearest
/-!
# The two cut-offs of `nearestDec` agree with `nearestRat` (binary64)

`nearestDec` answers `+∞` for `e > 400` and `0` for `e + |digits| < -400` without building the power of ten.
Here: `nearestRat binary64` of the exact rational gives the same, so `nearest64 ds e` *is* `nearestRat binary64`
of `digits × 10^e` for every digit string and every exponent.
-/
namespace RsslVerif.Spec.Dec2Bin

set_option exponentiation.threshold 3000 in
theorem pow10_401_ge : 2 ^ 1332 ≤ 10 ^ 401 := by decide +kernel

theorem ofDigits_foldl_lt (ds : List Nat) (h : ∀ d ∈ ds, d < 10) (acc : Nat) :
    ds.foldl (fun a d => a * 10 + d) acc < (acc + 1) * 10 ^ ds.length := by
  induction ds generalizing acc with
  | nil => simp
  | cons d ds ih =>
    simp only [List.foldl_cons, List.length_cons]
    have hd : d < 10 := h d (List.mem_cons_self)
    have := ih (fun x hx => h x (List.mem_cons_of_mem _ hx)) (acc * 10 + d)
    have h2 : (acc * 10 + d + 1) * 10 ^ ds.length ≤ ((acc + 1) * 10) * 10 ^ ds.length :=
      Nat.mul_le_mul (by omega) (Nat.le_refl _)
    rw [Nat.pow_succ]
    have h3 : (acc + 1) * (10 ^ ds.length * 10) = (acc + 1) * 10 * 10 ^ ds.length := by ac_rfl
    omega

theorem ofDigits_lt (ds : List Nat) (h : ∀ d ∈ ds, d < 10) : ofDigits 10 ds < 10 ^ ds.length := by
  have := ofDigits_foldl_lt ds h 0
  simpa [ofDigits] using this

/-- overflow cut-off: `x ≥ 10^401` rounds to `+∞` -/
theorem nearestRat_huge (N : Nat) (hN : 10 ^ 401 ≤ N) : nearestRat binary64 N 1 = binary64.infBits := by
  have hN0 : 0 < N := Nat.lt_of_lt_of_le (Nat.pow_pos (by omega)) hN
  obtain ⟨h1, h2⟩ := chooseExp_norm binary64 (by decide) N 1 hN0 (by omega)
  have hge := chooseExp_ge binary64 N 1
  unfold nearestRat
  rw [if_neg (Nat.pos_iff_ne_zero.mp hN0)]
  dsimp only
  generalize chooseExp binary64 N 1 = q at *
  -- the exponent must be large
  have hq : 1279 < q := by
    apply Int.lt_of_not_ge
    intro hle
    unfold quotAt at h1
    rw [Nat.div_lt_iff_lt_mul (scale_pos N 1 q (by omega)), scale_eq] at h1
    dsimp only at h1
    have hw : q.toNat ≤ 1279 := by omega
    have hpw : 2 ^ q.toNat ≤ 2 ^ 1279 := Nat.pow_le_pow_right (by omega) hw
    have h3 : N ≤ N * 2 ^ (-q).toNat := Nat.le_mul_of_pos_right _ (two_pow_pos _)
    have h4 : 2 ^ binary64.p * (1 * 2 ^ q.toNat) ≤ 2 ^ 53 * 2 ^ 1279 := by
      rw [Nat.one_mul]; exact Nat.mul_le_mul (Nat.le_refl _) hpw
    have h5 : (2 : Nat) ^ 53 * 2 ^ 1279 = 2 ^ 1332 := by rw [← Nat.pow_add]
    have := pow10_401_ge
    omega
  apply Nat.min_eq_right
  unfold encode Fmt.infBits
  have hj : 2353 ≤ (q - binary64.emin).toNat := by
    have : binary64.emin = -1074 := rfl
    omega
  have : 2353 * 2 ^ (binary64.p - 1) ≤ (q - binary64.emin).toNat * 2 ^ (binary64.p - 1) :=
    Nat.mul_le_mul hj (Nat.le_refl _)
  have h6 : (2 ^ binary64.ebits - 1) * 2 ^ (binary64.p - 1) ≤ 2353 * 2 ^ (binary64.p - 1) :=
    Nat.mul_le_mul (by decide) (Nat.le_refl _)
  omega

/-- underflow cut-off: `x < 10^-401` (written `N · 10^401 < M`) rounds to `0` -/
theorem nearestRat_tiny (N M : Nat) (hN : 0 < N) (hNM : N * 10 ^ 401 < M) : nearestRat binary64 N M = 0 := by
  have hM : 0 < M := by omega
  obtain ⟨h1, h2⟩ := chooseExp_norm binary64 (by decide) N M hN hM
  have hge := chooseExp_ge binary64 N M
  have hbig : N * 2 ^ 1332 < M := by
    have : N * 2 ^ 1332 ≤ N * 10 ^ 401 := Nat.mul_le_mul (Nat.le_refl _) pow10_401_ge
    omega
  have hemin : binary64.emin = -1074 := rfl
  unfold nearestRat
  rw [if_neg (Nat.pos_iff_ne_zero.mp hN)]
  dsimp only
  generalize chooseExp binary64 N M = q at *
  have hq : q = -1074 := by
    apply Int.le_antisymm _ (by omega)
    apply Int.not_lt.mp
    intro hgt
    have hlow := h2 (by omega)
    unfold quotAt at hlow
    rw [Nat.le_div_iff_mul_le (scale_pos N M q hM), scale_eq] at hlow
    dsimp only at hlow
    -- 2^52 · M · 2^w ≤ N · 2^u with u ≤ 1073
    have hu : (-q).toNat ≤ 1073 := by omega
    have h3 : N * 2 ^ (-q).toNat ≤ N * 2 ^ 1073 :=
      Nat.mul_le_mul (Nat.le_refl _) (Nat.pow_le_pow_right (by omega) hu)
    have h4 : M ≤ 2 ^ (binary64.p - 1) * (M * 2 ^ q.toNat) := by
      calc M = 1 * (M * 1) := by simp
        _ ≤ 2 ^ (binary64.p - 1) * (M * 2 ^ q.toNat) :=
          Nat.mul_le_mul (two_pow_pos _) (Nat.mul_le_mul (Nat.le_refl _) (two_pow_pos _))
    have h5 : N * 2 ^ 1073 ≤ N * 2 ^ 1332 :=
      Nat.mul_le_mul (Nat.le_refl _) (Nat.pow_le_pow_right (by omega) (by omega))
    omega
  subst hq
  rw [scale_eq]
  dsimp only
  have e1 : (-(-1074 : Int)).toNat = 1074 := by decide
  have e2 : ((-1074 : Int)).toNat = 0 := by decide
  rw [e1, e2]
  simp only [Nat.pow_zero, Nat.mul_one]
  have hA : 2 * (N * 2 ^ 1074) < M := by
    have : 2 * (N * 2 ^ 1074) = N * 2 ^ 1075 := by
      have hp : (2 : Nat) ^ 1075 = 2 * 2 ^ 1074 := by
        rw [show (1075 : Nat) = 1074 + 1 from rfl, Nat.pow_succ, Nat.mul_comm]
      rw [hp]
      exact Nat.mul_left_comm 2 N _
    have h5 : N * 2 ^ 1075 ≤ N * 2 ^ 1332 :=
      Nat.mul_le_mul (Nat.le_refl _) (Nat.pow_le_pow_right (by omega) (by omega))
    omega
  have hdiv : N * 2 ^ 1074 / M = 0 := Nat.div_eq_of_lt (by omega)
  have hmod : N * 2 ^ 1074 % M = N * 2 ^ 1074 := Nat.mod_eq_of_lt (by omega)
  have hr : roundQuot (N * 2 ^ 1074) M = 0 := by
    unfold roundQuot
    dsimp only
    rw [hdiv, hmod]
    have : ¬ (M < 2 * (N * 2 ^ 1074) ∨ (2 * (N * 2 ^ 1074) = M ∧ 0 % 2 = 1)) := by omega
    rw [if_neg this]
  rw [hr]
  unfold encode
  simp [hemin]

/-- `nearest64` is `nearestRat binary64` of the exact rational `digits × 10^e`, for every digit string and
every exponent (the cut-offs included) -/
theorem nearest64_eq_nearestRat (ds : List Nat) (e : Int) (hds : ∀ d ∈ ds, d < 10) :
    nearest64 ds e =
      if 0 ≤ e then nearestRat binary64 (ofDigits 10 ds * 10 ^ e.toNat) 1
      else nearestRat binary64 (ofDigits 10 ds) (10 ^ (-e).toNat) := by
  unfold nearest64 nearestDec
  dsimp only
  by_cases hD : ofDigits 10 ds = 0
  · rw [if_pos hD, hD]
    simp [nearestRat]
  · rw [if_neg hD]
    have hDpos : 0 < ofDigits 10 ds := Nat.pos_of_ne_zero hD
    by_cases h1 : 400 < e
    · rw [if_pos h1, if_pos (by omega)]
      symm
      apply nearestRat_huge
      have hk : 401 ≤ e.toNat := by omega
      calc 10 ^ 401 ≤ 10 ^ e.toNat := Nat.pow_le_pow_right (by omega) hk
        _ = 1 * 10 ^ e.toNat := (Nat.one_mul _).symm
        _ ≤ ofDigits 10 ds * 10 ^ e.toNat := Nat.mul_le_mul hDpos (Nat.le_refl _)
    · rw [if_neg h1]
      by_cases h2 : e + ds.length < -400
      · rw [if_pos h2, if_neg (by omega)]
        symm
        apply nearestRat_tiny _ _ hDpos
        have hlt := ofDigits_lt ds hds
        have hk : ds.length + 401 ≤ (-e).toNat := by omega
        calc ofDigits 10 ds * 10 ^ 401 < 10 ^ ds.length * 10 ^ 401 :=
              Nat.mul_lt_mul_of_lt_of_le hlt (Nat.le_refl _) (Nat.pow_pos (by omega))
          _ = 10 ^ (ds.length + 401) := (Nat.pow_add _ _ _).symm
          _ ≤ 10 ^ (-e).toNat := Nat.pow_le_pow_right (by omega) hk
      · rw [if_neg h2]

end RsslVerif.Spec.Dec2Bin

import RsslVerif.Driver.C02Vec
import RsslVerif.Model.MslDup
/-!
Line-protocol front end of the struct-cast model (`Model.MslDup`).

`C02.dup <source> <cast> ;; <cast> …` with `<cast> = <type shape> @ <operand>` (forms of `harness/src/c02/dupcast.rs`): every
cast of the module to a struct type from a value of another type.  The answer is what the Metal exporter does with the module
as far as these casts decide: `diagnostic GenerateError(UnsupportedCast)` if `structCastNow` refuses one of them, else
`casts n1 n2 …`, the sorted numbers of clauses of the emitted braced lists.  Everything else goes to `Driver.C02Vec.handle`.
-/
namespace RsslVerif.Driver.C02Dup
open RsslVerif.Model.MslDup RsslVerif.Driver.C01

partial def parseCTy? (x : Sx) : Option CTy :=
  match x.head, x.args with
  | "leaf", [] => some .leaf
  | "arr", [e, n] =>
    match parseCTy? e with
    | none => none
    | some t => if n.atom == "none" then some (.arr t none) else n.atom.toNat?.map (fun k => .arr t (some k))
  | "struct", ms => (ms.mapM parseCTy?).map .struct
  | _, _ => none

mutual
partial def parseD? (x : Sx) : Option DExpr :=
  if x.head == "" then none else (parseFields? x.args).map (.node x.head)
partial def parseFields? : List Sx → Option DFields
  | [] => some .nil
  | f :: r =>
    match parseFields? r with
    | none => none
    | some rest =>
      match f with
      | .a "p" => some (.payload 0 rest)
      | _ =>
        match f.head, f.args with
        | "one", [e] => (parseD? e).map (fun d => .one d rest)
        | "many", es => (parseDs? es).map (fun ds => .many ds rest)
        | _, _ => none
partial def parseDs? : List Sx → Option DExprs
  | [] => some .nil
  | e :: r =>
    match parseD? e, parseDs? r with
    | some d, some ds => some (.cons d ds)
    | _, _ => none
end

def insertSorted (n : Nat) : List Nat → List Nat
  | [] => [n]
  | m :: r => if n ≤ m then n :: m :: r else m :: insertSorted n r

def handleDup (casts : String) : String :=
  let items := if casts == "-" then [] else casts.splitOn " ;; "
  let outcomes := items.map fun it =>
    match it.splitOn " @ " with
    | [t, e] =>
      match parseAll t, parseAll e with
      | [tx], [ex] =>
        match parseCTy? tx, parseD? ex with
        | some ty, some d => some (structCastNow ty d)
        | _, _ => none
      | _, _ => none
    | _ => none
  if outcomes.any (·.isNone) then "bad-request" else
  let os := outcomes.filterMap id
  if os.any (fun o => match o with | .panic _ => true | _ => false) then "panic" else
  if os.any (· == .unsupportedCast) then "diagnostic GenerateError(UnsupportedCast)" else
  let counts := os.foldl (fun acc o => match o with | .repeated n => insertSorted n acc | _ => acc) []
  "casts" ++ String.join (counts.map (fun n => " " ++ toString n))

def handle (op : String) (args : List String) : String :=
  match op, args with
  | "C02.dup", [_src, casts] => handleDup casts
  | "C02.dup", _ => "skip"
  | _, _ => RsslVerif.Driver.C02Vec.handle op args

end RsslVerif.Driver.C02Dup

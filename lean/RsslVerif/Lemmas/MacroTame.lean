import RsslVerif.Lemmas.MacroSubst
import RsslVerif.Lemmas.MacroHang
import RsslVerif.Model.MacroTame
/-!
# Tame expansions: the big-step reading of `apply_macros` on which rssl and the C algorithm agree

`Tame env toks out` is a derivation of "the token list `toks` expands to `out` under the macro list `env`" in the
style of a big-step semantics: the list is read left to right, a token is either *kept* or it is the name of an
enabled macro that is *invoked* (arguments read, each argument expanded on its own, the substituted replacement list
expanded with the macro disabled, the result put in place of the invocation and never looked at again).  The
rules carry the side conditions that delimit where rssl's algorithm (per-macro `macro_disabled` flags, rescanning of
the replacement list in isolation, `early_function_pos`) and the C algorithm (per-token hide sets, rescanning together
with the rest of the source) provably coincide:

* `ArgOK` = `OnlyDisabled` or `AllKept`: what an argument expands to contains no macro name that is still enabled
  (otherwise rssl expands it again when it rescans the replacement list, C does not: deviation `argument-repainted`)
  -- unless nothing was expanded in the argument at all: then its tokens carry exactly the hide set of the invocation
  and behave like tokens of the replacement list (the bare name of a function-like macro passed to a macro that
  invokes it, `APPLY(NEG, a)`, `LIST(DECL)`);
* `NoFire`: the expansion of a replacement list does not end in the name of an enabled function-like macro that is
  followed by `(` in the rest of the source (an invocation that spans the end of a replacement list: rssl decides it
  with `early_function_pos`/`last_macro_function_index`, C with hide sets, and they differ: deviations
  `painted-function-name-reinvoked`, `function-name-before-vanished-macro`);
* `Kept`: an enabled function-like macro name is kept only if the next token that is not white space is not `(`
  (this is exactly when rssl keeps it: since fix f08088c the search for `(` skips line ends like C does,
  `parenAfter_iff_startsParen`; before, `F` line end `(1)` was the deviation `line-end-before-parenthesis`); no `##`.

This file: the relation and the model side, `tame_model`: a tame derivation is what `applyLoop` computes.
-/
namespace RsslVerif.Lemmas.MacroTame
open RsslVerif.Model.Macro RsslVerif.Model.MacroTame RsslVerif.Lemmas.MacroTerm RsslVerif.Lemmas.MacroSubst
open RsslVerif.Lemmas.MacroHang

/-- the identifier `n` selects entry `mi`: it is enabled and it is the only entry of that name -/
structure Selects (env : List Entry) (n : String) (mi : Nat) (e : Entry) : Prop where
  get : env[mi]? = some e
  name : e.m.name = n
  enabled : e.disabled = false
  uniq : ∀ j e', env[j]? = some e' → e'.m.name = n → j = mi

/-- the token `t`, followed by `rest`, starts no operation: it is not `##`, and if it is an identifier then every
entry of that name is disabled, or is function-like while the next token is not `(` -/
def Kept (env : List Entry) (t : PTok) (rest : List PTok) : Prop :=
  t.tok ≠ .concat ∧
  ∀ n, t.tok = .id n → ∀ e ∈ env, e.m.name = n →
    e.disabled = true ∨ (e.m.isFunction = true ∧ startsParen rest = false)

/-- every macro name in `l` names disabled entries only -/
def OnlyDisabled (env : List Entry) (l : List PTok) : Prop :=
  ∀ t ∈ l, ∀ n, t.tok = .id n → ∀ e ∈ env, e.m.name = n → e.disabled = true

/-- no token of `l` starts an operation where it stands: the list expands to itself, token by token -/
def AllKept (env : List Entry) : List PTok → Prop
  | [] => True
  | t :: rest => Kept env t rest ∧ AllKept env rest

/-- the side condition on an argument `a` of an invocation and what it expanded to, `a'`: `a'` names disabled macros
only, or nothing happened in `a` at all (`a' = a`, token by token).  The second case is the higher-order use of a
macro: the bare name of an enabled function-like macro is passed (`APPLY(NEG, a)`, `LIST(DECL)`), not followed by `(`
inside the argument, and the replacement list invokes it. -/
def ArgOK (env : List Entry) (a a' : List PTok) : Prop := OnlyDisabled env a' ∨ AllKept env a

/-- the expansion `R` of the replacement list of entry `mi`, followed by `rest`, gives no invocation that spans
the end of `R`: if an identifier of `R` is followed by white space only up to the end of `R` and `rest` starts with
`(`, then the function-like entries of that name are disabled, or are `mi` itself -/
def NoFire (env : List Entry) (mi : Nat) (R rest : List PTok) : Prop :=
  ∀ R0 g b R1, R = R0 ++ ⟨.id g, b⟩ :: R1 → (∀ t ∈ R1, t.tok.isWhitespace = true) → startsParen rest = true →
    ∀ j e, env[j]? = some e → e.m.name = g → e.m.isFunction = true → e.disabled = true ∨ j = mi

inductive Tame : List Entry → List PTok → List PTok → Prop
  | nil (env : List Entry) : Tame env [] []
  | keep (env : List Entry) (t : PTok) (rest out : List PTok) :
      Kept env t rest → Tame env rest out → Tame env (t :: rest) (t :: out)
  | invoke (env : List Entry) (n : String) (b : Bool) (rest : List PTok) (mi : Nat) (e : Entry)
      (rest' : List PTok) (args args' : List (List PTok)) (body' R out : List PTok) :
      Selects env n mi e →
      readArgs e.m rest = .ok (rest', args) →
      args'.length = args.length →
      (∀ (i : Nat) (a a' : List PTok), args[i]? = some a → args'[i]? = some a' → Tame env a a') →
      (∀ (i : Nat) (a a' : List PTok), args[i]? = some a → args'[i]? = some a' → ArgOK env a a') →
      substitute e.m.body args' = .ok body' →
      Tame (disable env mi) body' R →
      NoFire env mi R rest' →
      Tame env rest' out →
      Tame env (⟨.id n, b⟩ :: rest) (R ++ out)

/-! ## `disable` -/

theorem disable_getElem? (env : List Entry) (mi j : Nat) :
    (disable env mi)[j]? = (env[j]?).map (fun e => if j = mi then { e with disabled := true } else e) := by
  unfold disable
  rw [List.getElem?_modify]
  cases env[j]? with
  | none => rfl
  | some e =>
    simp only [Option.map_some]
    by_cases h : mi = j
    · subst h; simp
    · have : ¬ j = mi := fun hh => h hh.symm
      simp [h, this]

theorem mem_disable {env : List Entry} {mi : Nat} {e' : Entry} (h : e' ∈ disable env mi) :
    ∃ e ∈ env, e'.m = e.m ∧ (e.disabled = true → e'.disabled = true) := by
  obtain ⟨j, hj⟩ := List.mem_iff_getElem?.mp h
  rw [disable_getElem?] at hj
  cases hget : env[j]? with
  | none => simp [hget] at hj
  | some e =>
    simp only [hget, Option.map_some, Option.some.injEq] at hj
    refine ⟨e, List.mem_of_getElem? hget, ?_, ?_⟩
    · rw [← hj]; split <;> rfl
    · intro hd; rw [← hj]; split
      · rfl
      · exact hd

/-! ## white space and parentheses -/

theorem blank_isWhitespace (t : Tok) (h : t.isBlank = true) : t.isWhitespace = true := by
  cases t <;> simp [Tok.isBlank] at h ⊢ <;> rfl

theorem startsParen_of_trimStartAll (l : List PTok) (b : Bool) (tail : List PTok)
    (h : trimStartAll l = ⟨.lparen, b⟩ :: tail) : startsParen l = true := by
  induction l with
  | nil => simp [trimStartAll] at h
  | cons t r ih =>
    unfold trimStartAll at h ih
    rw [List.dropWhile_cons] at h
    split at h
    · rename_i hw
      have := ih h
      simp only [startsParen, firstTok, hw, if_true] at this ⊢
      exact this
    · cases h
      simp [startsParen, firstTok, Tok.isWhitespace]

/-- the search for `(` of `find_single_macro` / `split_macro_args` (fix f08088c) is the C reading of "the next
preprocessing token is `(`": white space of every kind, line ends included, is skipped -/
theorem trimStartAll_of_startsParen (l : List PTok) (h : startsParen l = true) :
    ∃ b tail, trimStartAll l = ⟨.lparen, b⟩ :: tail := by
  induction l with
  | nil => simp [startsParen, firstTok] at h
  | cons t r ih =>
    unfold trimStartAll at ih ⊢
    rw [List.dropWhile_cons]
    cases hw : t.tok.isWhitespace with
    | true =>
      simp only [if_true]
      apply ih
      simpa [startsParen, firstTok, hw] using h
    | false =>
      simp only [Bool.false_eq_true, if_false]
      obtain ⟨tk, b⟩ := t
      simp only [startsParen, firstTok] at h hw
      simp only [hw, Bool.false_eq_true, if_false, beq_iff_eq, Option.some.injEq] at h
      subst h
      exact ⟨b, r, rfl⟩

/-- `trimStartAll (A ++ B)` starts with a `(` that lies in `B`: `A` is white space and `trimStartAll B` starts with it -/
theorem trimStartAll_append_paren (A B tail : List PTok) (b : Bool)
    (h : trimStartAll (A ++ B) = ⟨.lparen, b⟩ :: tail) (hlen : tail.length + 1 ≤ B.length) :
    (∀ t ∈ A, t.tok.isWhitespace = true) ∧ trimStartAll B = ⟨.lparen, b⟩ :: tail := by
  induction A with
  | nil => exact ⟨fun t ht => (by cases ht), by simpa using h⟩
  | cons a A' ih =>
    unfold trimStartAll at h ih ⊢
    rw [List.cons_append, List.dropWhile_cons] at h
    split at h
    · rename_i hb
      obtain ⟨h1, h2⟩ := ih h
      refine ⟨?_, h2⟩
      intro t ht
      rcases List.mem_cons.mp ht with rfl | ht
      · exact hb
      · exact h1 t ht
    · exfalso
      have := congrArg List.length h
      simp only [List.length_cons, List.length_append] at this
      omega

/-! ## `split_macro_args` returns a suffix -/

theorem scanArgs_suffix (ts cur : List PTok) (args : List (List PTok)) (d : Nat) (rest : List PTok)
    (out : List (List PTok)) (h : scanArgs ts cur args d = .ok (rest, out)) : ∃ mid, ts = mid ++ rest := by
  induction ts generalizing cur args d with
  | nil => simp [scanArgs] at h
  | cons t ts ih =>
    unfold scanArgs at h
    split at h
    · split at h
      · obtain ⟨mid, hm⟩ := ih _ _ _ h; exact ⟨t :: mid, by simp [hm]⟩
      · obtain ⟨mid, hm⟩ := ih _ _ _ h; exact ⟨t :: mid, by simp [hm]⟩
    · obtain ⟨mid, hm⟩ := ih _ _ _ h; exact ⟨t :: mid, by simp [hm]⟩
    · split at h
      · cases h; exact ⟨[t], by simp⟩
      · obtain ⟨mid, hm⟩ := ih _ _ _ h; exact ⟨t :: mid, by simp [hm]⟩
    · obtain ⟨mid, hm⟩ := ih _ _ _ h; exact ⟨t :: mid, by simp [hm]⟩

theorem trimStartAll_suffix (l : List PTok) : ∃ pre, l = pre ++ trimStartAll l :=
  ⟨l.takeWhile (·.tok.isWhitespace), by unfold trimStartAll; exact (List.takeWhile_append_dropWhile).symm⟩

theorem readArgs_suffix (m : Macro) (remaining rest : List PTok) (args : List (List PTok))
    (h : readArgs m remaining = .ok (rest, args)) : ∃ mid, remaining = mid ++ rest := by
  cases hf : m.isFunction with
  | true =>
    have hs := readArgs_ok_function m remaining rest args hf h
    unfold splitArgs at hs
    split at hs
    · rename_i b tail htrim
      obtain ⟨mid, hm⟩ := scanArgs_suffix _ _ _ _ _ _ hs
      obtain ⟨pre, hp⟩ := trimStartAll_suffix remaining
      refine ⟨pre ++ ⟨.lparen, b⟩ :: mid, ?_⟩
      rw [hp, htrim, hm]; simp
    · cases hs
  | false =>
    unfold readArgs at h
    simp only [hf] at h
    cases h; exact ⟨[], rfl⟩

/-! ## the scan of `find_single_macro` -/

/-- the scan that starts at `early_function_pos` passes every position before `k` -/
def Passes (toks : List PTok) (sp : SearchPos) (env : List Entry) (k : Nat) : Prop :=
  scanFrom toks sp env (toks.drop sp.early) sp.early = scanFrom toks sp env (toks.drop k) k

theorem parenAfter_none_of_startsParen (toks : List PTok) (i : Nat)
    (h : startsParen (toks.drop (i + 1)) = false) : parenAfter toks i = none := by
  unfold parenAfter
  split
  · rename_i b tail ht
    have := startsParen_of_trimStartAll _ _ _ ht
    rw [h] at this; cases this
  · rfl

/-- **`find_single_macro` looks for the `(` of an invocation the way C does** (fix f08088c): it is found exactly when
the next token that is not white space -- blank, comment *or line end* -- is `(` -/
theorem parenAfter_iff_startsParen (toks : List PTok) (i : Nat) :
    (parenAfter toks i).isSome = startsParen (toks.drop (i + 1)) := by
  cases h : startsParen (toks.drop (i + 1)) with
  | false => rw [parenAfter_none_of_startsParen toks i h]; rfl
  | true =>
    obtain ⟨b, tail, ht⟩ := trimStartAll_of_startsParen _ h
    unfold parenAfter
    rw [ht]; rfl

theorem matchMacro_kept (toks : List PTok) (i : Nat) (n : String) (sp : SearchPos) (j : Nat) (env : List Entry)
    (h : ∀ e ∈ env, e.m.name = n → e.disabled = true ∨ (e.m.isFunction = true ∧ parenAfter toks i = none)) :
    matchMacro toks i n sp j env = none := by
  induction env generalizing j with
  | nil => rfl
  | cons e es ih =>
    have ih' := ih (j + 1) (fun x hx => h x (by simp [hx]))
    unfold matchMacro
    split
    · exact ih'
    · rename_i hd
      split
      · exact ih'
      · split
        · rename_i hn
          rcases h e (by simp) hn.symm with hdis | ⟨hfn, hpa⟩
          · exact absurd hdis hd
          · simp only [hfn, if_true, hpa]
            exact ih'
        · exact ih'

/-- the entry selected by an identifier at a position that is not in the early region -/
theorem matchMacro_at (toks : List PTok) (i : Nat) (sp : SearchPos) (k : Nat) (pre post : List Entry) (e : Entry)
    (hpre : ∀ x ∈ pre, x.m.name ≠ e.m.name) (hen : e.disabled = false) (hi : sp.next ≤ i)
    (hfn : e.m.isFunction = true → ∃ act, parenAfter toks i = some act ∧ sp.next ≤ act) :
    matchMacro toks i e.m.name sp k (pre ++ e :: post) = some (k + pre.length) := by
  induction pre generalizing k with
  | nil =>
    simp only [List.nil_append, List.length_nil, Nat.add_zero]
    unfold matchMacro
    have h1 : ¬ i < sp.next := by omega
    cases hf : e.m.isFunction with
    | true =>
      obtain ⟨act, hpa, hact⟩ := hfn hf
      have h2 : ¬ act < sp.next := by omega
      simp [hen, h1, hpa, h2]
    | false => simp [hen, h1]
  | cons x xs ih =>
    have hx : e.m.name ≠ x.m.name := fun hh => hpre x (by simp) hh.symm
    have ih' := ih (k + 1) (fun y hy => hpre y (by simp [hy]))
    simp only [List.cons_append, List.length_cons]
    unfold matchMacro
    simp only [hx, if_false, ih', ite_self]
    congr 1; omega

theorem selects_split {env : List Entry} {n : String} {mi : Nat} {e : Entry} (h : Selects env n mi e) :
    env = env.take mi ++ e :: env.drop (mi + 1) ∧ (env.take mi).length = mi ∧
      ∀ x ∈ env.take mi, x.m.name ≠ e.m.name := by
  have hlt : mi < env.length := by
    have := h.get
    exact (List.getElem?_eq_some_iff.mp this).1
  have hget : env[mi] = e := (List.getElem?_eq_some_iff.mp h.get).2
  refine ⟨?_, by simp; omega, ?_⟩
  · rw [← hget]; simp
  · intro x hx hname
    obtain ⟨j, hj⟩ := List.mem_iff_getElem?.mp hx
    rw [List.getElem?_take] at hj
    split at hj
    · rename_i hlt'
      have := h.uniq j x hj (by rw [hname, h.name])
      omega
    · cases hj

theorem parenAfter_gt (toks : List PTok) (i act : Nat) (h : parenAfter toks i = some act) : i < act := by
  obtain ⟨b, tail, htrim, hact⟩ := parenAfter_spec toks i act h
  have := trimStartAll_length_le (toks.drop (i + 1))
  rw [htrim] at this
  simp only [List.length_cons, List.length_drop] at this
  omega


/-- in the early region an identifier starts an invocation only if it names an enabled function-like entry, other
than the one applied last, whose `(` lies at or beyond `next_pos` -/
theorem matchMacro_early (toks : List PTok) (i : Nat) (n : String) (sp : SearchPos) (j : Nat) (env : List Entry)
    (hi : i < sp.next)
    (h : ∀ k e, env[k]? = some e → e.disabled = false → sp.lastFn ≠ some (j + k) → e.m.name = n →
      e.m.isFunction = true → ∀ act, parenAfter toks i = some act → act < sp.next) :
    matchMacro toks i n sp j env = none := by
  induction env generalizing j with
  | nil => rfl
  | cons e es ih =>
    have ih' := ih (j + 1) (fun k x hk => by
      have := h (k + 1) x (by simpa using hk)
      rwa [show j + (k + 1) = j + 1 + k by omega] at this)
    unfold matchMacro
    split
    · exact ih'
    · rename_i hd
      split
      · exact ih'
      · rename_i hl
        split
        · rename_i hn
          split
          · rename_i hfn
            split
            · rename_i act hpa
              have hlf : sp.lastFn ≠ some (j + 0) := fun hh => hl ⟨by simpa using hh, hi⟩
              have := h 0 e (by simp) (by simpa using hd) hlf hn.symm hfn act hpa
              simp only [this, if_true]
              exact ih'
            · exact ih'
          · exact ih'
        · exact ih'

theorem drop_cons_facts (toks : List PTok) (i : Nat) (t : PTok) (rest : List PTok) (hs : toks.drop i = t :: rest) :
    toks[i]? = some t ∧ toks.drop (i + 1) = rest ∧ i < toks.length := by
  obtain ⟨h1, h2, _⟩ := suffix_facts toks i t rest hs.symm
  refine ⟨?_, h2.symm, h1⟩
  have := congrArg List.head? hs
  simpa using this

/-- the scan passes a stretch `R1` of the early region -/
theorem scanFrom_early_pass (toks : List PTok) (sp : SearchPos) (env : List Entry) (R1 rest : List PTok) (i : Nat)
    (hs : toks.drop i = R1 ++ rest) (hend : i + R1.length ≤ sp.next) (hnc : NoConcat R1)
    (hq : ∀ p x b, toks[p]? = some ⟨.id x, b⟩ → i ≤ p → p < i + R1.length →
      ∀ k e, env[k]? = some e → e.disabled = false → sp.lastFn ≠ some k → e.m.name = x →
        e.m.isFunction = true → ∀ act, parenAfter toks p = some act → act < sp.next) :
    scanFrom toks sp env (R1 ++ rest) i = scanFrom toks sp env rest (i + R1.length) := by
  induction R1 generalizing i with
  | nil => simp
  | cons t ts ih =>
    obtain ⟨hget, hdrop, _⟩ := drop_cons_facts toks i t (ts ++ rest) (by simpa using hs)
    have hlen : i + 1 + ts.length = i + (t :: ts).length := by simp; omega
    have ih' := ih (i + 1) hdrop (by simp at hend; omega) (fun x hx => hnc x (by simp [hx]))
      (fun p x b hp h1 h2 => hq p x b hp (by omega) (by omega))
    rw [hlen] at ih'
    rw [← ih', List.cons_append]
    have hne : t.tok ≠ .concat := hnc t (by simp)
    cases htk : t.tok with
    | id x =>
      have hm : matchMacro toks i x sp 0 env = none := by
        apply matchMacro_early
        · simp at hend; omega
        · intro k e hk hd hl hn hf act hpa
          obtain ⟨tt, tb⟩ := t
          simp only at htk
          subst htk
          exact hq i x tb hget (Nat.le_refl _) (by simp) k e hk hd (by simpa using hl) hn hf act hpa
      simp [scanFrom, htk, hm]
    | concat => exact absurd htk hne
    | _ => simp [scanFrom, htk]

theorem mapE_pointwise {α β : Type} (f : α → Except Err β) (l : List α) (r : List β) (hlen : r.length = l.length)
    (h : ∀ (i : Nat) a b, l[i]? = some a → r[i]? = some b → f a = .ok b) : mapE f l = .ok r := by
  induction l generalizing r with
  | nil =>
    cases r with
    | nil => rfl
    | cons _ _ => simp at hlen
  | cons a as ih =>
    cases r with
    | nil => simp at hlen
    | cons b bs =>
      have h0 := h 0 a b (by simp) (by simp)
      have := ih bs (by simpa using hlen) (fun i x y hx hy => h (i + 1) x y (by simpa using hx) (by simpa using hy))
      simp only [mapE, h0, this]


/-! ## an invocation that is completed by the text after an expansion (`early_function_pos`) -/

/-- the entry selected by an identifier *inside* the early region: function-like, its `(` at or beyond `next_pos`,
not the macro applied last -/
theorem matchMacro_at_early (toks : List PTok) (i : Nat) (sp : SearchPos) (k : Nat) (pre post : List Entry) (e : Entry)
    (hpre : ∀ x ∈ pre, x.m.name ≠ e.m.name) (hen : e.disabled = false) (hfn : e.m.isFunction = true) (act : Nat)
    (hpa : parenAfter toks i = some act) (hact : sp.next ≤ act) (hlast : sp.lastFn ≠ some (k + pre.length)) :
    matchMacro toks i e.m.name sp k (pre ++ e :: post) = some (k + pre.length) := by
  induction pre generalizing k with
  | nil =>
    simp only [List.nil_append, List.length_nil, Nat.add_zero] at hlast ⊢
    unfold matchMacro
    have h2 : ¬ act < sp.next := by omega
    have h3 : ¬ (sp.lastFn = some k ∧ i < sp.next) := fun hh => hlast hh.1
    simp [hen, hfn, hpa, h2, h3]
  | cons x xs ih =>
    have hx : e.m.name ≠ x.m.name := fun hh => hpre x (by simp) hh.symm
    have ih' := ih (k + 1) (fun y hy => hpre y (by simp [hy]))
      (by simpa [List.length_cons, Nat.add_assoc, Nat.add_comm 1] using hlast)
    simp only [List.cons_append, List.length_cons]
    unfold matchMacro
    simp only [hx, if_false, ih', ite_self]
    congr 1; omega

theorem trimStartAll_first_nonws (l : List PTok) (x : PTok) (tail : List PTok) (h : trimStartAll l = x :: tail)
    (j : Nat) (t : PTok) (hj : l[j]? = some t) (ht : t.tok.isWhitespace = false) : l.length - (tail.length + 1) ≤ j := by
  induction l generalizing j with
  | nil => simp [trimStartAll] at h
  | cons a r ih =>
    unfold trimStartAll at h ih
    rw [List.dropWhile_cons] at h
    split at h
    · rename_i hb
      cases j with
      | zero =>
        simp only [List.getElem?_cons_zero, Option.some.injEq] at hj
        subst hj
        rw [ht] at hb; cases hb
      | succ j' =>
        have := ih h j' (by simpa using hj)
        simp only [List.length_cons]
        omega
    · cases h
      simp

/-- the `(` found behind position `p` does not lie behind a later token that is not white space -/
theorem parenAfter_le_nonblank (toks : List PTok) (p act q : Nat) (t : PTok) (h : parenAfter toks p = some act)
    (hpq : p < q) (hq : toks[q]? = some t) (ht : t.tok.isWhitespace = false) : act ≤ q := by
  obtain ⟨b, tail, htrim, hact⟩ := parenAfter_spec toks p act h
  have hq' : (toks.drop (p + 1))[q - (p + 1)]? = some t := by
    rw [List.getElem?_drop]
    have : p + 1 + (q - (p + 1)) = q := by omega
    rw [this]; exact hq
  have := trimStartAll_first_nonws _ _ _ htrim _ t hq' ht
  simp only [List.length_drop] at this
  have hlen : q < toks.length := (List.getElem?_eq_some_iff.mp hq).1
  omega

theorem trimStartAll_ws_prefix (blanks rest : List PTok) (h : ∀ t ∈ blanks, t.tok.isWhitespace = true) :
    trimStartAll (blanks ++ rest) = trimStartAll rest := by
  induction blanks with
  | nil => rfl
  | cons a r ih =>
    unfold trimStartAll at ih ⊢
    rw [List.cons_append, List.dropWhile_cons]
    simp only [h a (by simp), if_true]
    exact ih (fun t ht => h t (by simp [ht]))

/-- **The scan of the early region finds the function-like name at the end of an expansion.**  After an invocation
was replaced by `R0 ++ g :: blanks` (`P`: the tokens before it), with `next_pos` behind the expansion and
`early_function_pos` at its start: if `g` names an enabled function-like entry other than the one applied last, only
white space (blanks, comments, line ends) follows it inside the expansion, and the text behind the expansion starts
-- after white space -- with `(`, then `find_single_macro` reports an invocation of that entry at the position of `g`. -/
theorem early_scan_finds_trailing_name (env : List Entry) (P R0 blanks rest : List PTok) (g : String) (b : Bool)
    (mj : Nat) (e : Entry) (lastFn : Option Nat)
    (hsel : Selects env g mj e) (hfn : e.m.isFunction = true) (hlast : lastFn ≠ some mj)
    (hnc : NoConcat R0) (hblank : ∀ t ∈ blanks, t.tok.isWhitespace = true)
    (hparen : ∃ b' tail, trimStartAll rest = ⟨.lparen, b'⟩ :: tail) :
    findSingle (P ++ (R0 ++ ⟨.id g, b⟩ :: blanks) ++ rest)
      ⟨P.length + (R0 ++ ⟨.id g, b⟩ :: blanks).length, P.length, lastFn⟩ env =
      .ok (.user mj (P.length + R0.length)) := by
  obtain ⟨b', tail, htrim⟩ := hparen
  obtain ⟨henv, hprelen, hpre⟩ := selects_split hsel
  have hlenR : (R0 ++ ⟨.id g, b⟩ :: blanks).length = R0.length + 1 + blanks.length := by simp; omega
  generalize htoks : P ++ (R0 ++ ⟨.id g, b⟩ :: blanks) ++ rest = toks
  have hlen : toks.length = P.length + (R0.length + 1 + blanks.length) + rest.length := by
    rw [← htoks]; simp; omega
  have hdropP : toks.drop P.length = R0 ++ (⟨.id g, b⟩ :: (blanks ++ rest)) := by
    rw [← htoks]; simp [List.append_assoc]
  have hgetg : toks[P.length + R0.length]? = some ⟨.id g, b⟩ := by
    rw [← htoks, List.append_assoc, List.getElem?_append_right (by omega), List.append_assoc,
      List.getElem?_append_right (by omega)]
    simp
  have hdropg : toks.drop (P.length + R0.length + 1) = blanks ++ rest := by
    have h1 : toks.drop (P.length + R0.length) = ⟨.id g, b⟩ :: (blanks ++ rest) := by
      rw [← List.drop_drop, hdropP, List.drop_left]
    have := congrArg (List.drop 1) h1
    simpa [List.drop_drop, Nat.add_comm 1] using this
  -- the `(` behind `g`
  have hpa : parenAfter toks (P.length + R0.length) = some (toks.length - (tail.length + 1)) := by
    unfold parenAfter
    rw [hdropg, trimStartAll_ws_prefix blanks rest hblank, htrim]
  have htl : tail.length + 1 ≤ rest.length := by
    have := trimStartAll_length_le rest
    rw [htrim] at this
    simpa using this
  unfold findSingle
  simp only [hlenR, Nat.le_add_right, if_true]
  rw [hdropP]
  rw [scanFrom_early_pass toks _ env R0 _ P.length hdropP (by simp only; omega) hnc]
  · -- at `g`
    have hm : matchMacro toks (P.length + R0.length) g
        ⟨P.length + (R0.length + 1 + blanks.length), P.length, lastFn⟩ 0 env = some mj := by
      have := matchMacro_at_early toks (P.length + R0.length)
        ⟨P.length + (R0.length + 1 + blanks.length), P.length, lastFn⟩ 0 (env.take mj) (env.drop (mj + 1)) e hpre
        hsel.enabled hfn _ hpa (by simp only; omega) (by simpa [hprelen] using hlast)
      rw [← henv, hprelen, hsel.name, Nat.zero_add] at this
      exact this
    simp [scanFrom, hm]
  · -- nothing in `R0` can start an invocation: its `(` would lie before `g`
    intro p x bx hp h1 h2 k e' _ _ _ _ _ act hact
    have := parenAfter_le_nonblank toks p act (P.length + R0.length) ⟨.id g, b⟩ hact (by omega) hgetg rfl
    simp only
    omega


theorem passes_start (toks : List PTok) (env : List Entry) : Passes toks SearchPos.start env 0 := by
  simp [Passes, SearchPos.start]

/-- after an invocation was replaced by `R`, the scan of the early region (the tokens of `R`) finds nothing -/
theorem passes_after (env : List Entry) (mi : Nat) (e : Entry) (P R rest' : List PTok) (hmi : env[mi]? = some e)
    (hnc : NoConcat R) (hnf : NoFire env mi R rest') :
    Passes (P ++ R ++ rest') ⟨P.length + R.length, P.length, if e.m.isFunction then some mi else none⟩ env
      (P.length + R.length) := by
  unfold Passes
  have hd1 : (P ++ R ++ rest').drop P.length = R ++ rest' := by simp [List.append_assoc]
  have hd2 : (P ++ R ++ rest').drop (P.length + R.length) = rest' := by
    rw [← List.length_append, List.drop_left]
  simp only [hd1, hd2]
  apply scanFrom_early_pass _ _ _ R rest' P.length hd1 (Nat.le_refl _) hnc
  intro p x b' hp h1 h2 j e' hj hd hl hname hfn act hpa
  apply Classical.byContradiction
  intro hact
  simp only [Nat.not_lt] at hact
  -- the token at `p` is `R[p - P.length]`
  have hpR : R[p - P.length]? = some ⟨.id x, b'⟩ := by
    rw [List.append_assoc, List.getElem?_append_right h1, List.getElem?_append_left (by omega)] at hp
    exact hp
  have hlt : p - P.length < R.length := by omega
  have hRsplit : R = R.take (p - P.length) ++ ⟨.id x, b'⟩ :: R.drop (p - P.length + 1) := by
    have h3 : R[p - P.length] = ⟨.id x, b'⟩ := (List.getElem?_eq_some_iff.mp hpR).2
    rw [← h3]; simp
  obtain ⟨bb, tail, htrim, hactEq⟩ := parenAfter_spec _ _ _ hpa
  have hdrop : (P ++ R ++ rest').drop (p + 1) = R.drop (p - P.length + 1) ++ rest' := by
    have e1 : p + 1 - P.length = p - P.length + 1 := by omega
    have e2 : p - P.length + 1 - R.length = 0 := by omega
    rw [List.append_assoc, List.drop_append, List.drop_eq_nil_of_le (by omega), List.nil_append, e1,
      List.drop_append, e2, List.drop_zero]
  rw [hdrop] at htrim
  have hlen' : (P ++ R ++ rest').length = P.length + R.length + rest'.length := by simp; omega
  have htl : tail.length + 1 ≤ (R.drop (p - P.length + 1) ++ rest').length := by
    have := trimStartAll_length_le (R.drop (p - P.length + 1) ++ rest')
    rw [htrim] at this
    simpa using this
  have htl2 : tail.length + 1 ≤ rest'.length := by
    simp only [List.length_append, List.length_drop] at htl
    omega
  obtain ⟨hblank, htrim'⟩ := trimStartAll_append_paren _ _ _ _ htrim htl2
  have hsp : startsParen rest' = true := startsParen_of_trimStartAll _ _ _ htrim'
  rcases hnf _ x b' _ hRsplit (fun t ht => hblank t ht) hsp j e' hj hname hfn with h4 | h4
  · rw [hd] at h4; cases h4
  · subst h4
    rw [hmi] at hj
    cases hj
    simp [hfn] at hl

/-- **A tame derivation is what the loop of `apply_macros_internal` computes.**  Started at any search position
whose scan passes the first `k` tokens, the loop leaves those alone and replaces the rest by `out`. -/
theorem tame_model {env : List Entry} {l out : List PTok} (h : Tame env l out) :
    ∀ (toks : List PTok) (sp : SearchPos) (k : Nat), toks.drop k = l → sp.early ≤ sp.next → sp.next ≤ k →
      Passes toks sp env k → applyLoop env toks sp = .ok (toks.take k ++ out) := by
  induction h with
  | nil env =>
    intro toks sp k hl he hk hp
    have hk' : toks.length ≤ k := by simpa [List.drop_eq_nil_iff] using hl
    rw [applyLoop]
    split
    · simp only [findSingle, he, if_true]
      rw [hp, hl]
      simp [scanFrom, List.take_of_length_le hk']
    · simp [List.take_of_length_le hk']
  | keep env t rest out hkept htame ih =>
    intro toks sp k hl he hk hp
    obtain ⟨hget, hdrop, hlt⟩ := drop_cons_facts toks k t rest hl
    have hstep : scanFrom toks sp env (t :: rest) k = scanFrom toks sp env rest (k + 1) := by
      cases htk : t.tok with
      | id n =>
        have hm : matchMacro toks k n sp 0 env = none := by
          apply matchMacro_kept
          intro e he hn
          rcases hkept.2 n htk e he hn with hd | ⟨hf, hs⟩
          · exact Or.inl hd
          · exact Or.inr ⟨hf, parenAfter_none_of_startsParen toks k (by rw [hdrop]; exact hs)⟩
        simp [scanFrom, htk, hm]
      | concat => exact absurd htk hkept.1
      | _ => simp [scanFrom, htk]
    have hp' : Passes toks sp env (k + 1) := by
      unfold Passes at hp ⊢
      rw [hp, hl, hstep, hdrop]
    rw [ih toks sp (k + 1) hdrop he (by omega) hp']
    congr 1
    rw [List.take_add_one, hget]
    simp
  | invoke env n b rest mi e rest' args args' body' R out hsel hra hlen hargs hod hsub hbody hnf hrest
      ihargs ihbody ihrest =>
    intro toks sp k hl he hk hp
    obtain ⟨hget, hdrop, hlt⟩ := drop_cons_facts toks k ⟨.id n, b⟩ rest hl
    obtain ⟨henv, hprelen, hpre⟩ := selects_split hsel
    -- the scan stops at `k` and selects entry `mi`
    have hfn : e.m.isFunction = true → ∃ act, parenAfter toks k = some act ∧ sp.next ≤ act := by
      intro hf
      have hs := readArgs_spec e.m rest rest' args hra
      simp only [hf, if_true] at hs
      obtain ⟨bb, tail, htrim, _, _⟩ := hs
      have hpa : parenAfter toks k = some (toks.length - (tail.length + 1)) := by
        unfold parenAfter; rw [hdrop, htrim]
      exact ⟨_, hpa, by have := parenAfter_gt _ _ _ hpa; omega⟩
    have hm : matchMacro toks k n sp 0 env = some mi := by
      have := matchMacro_at toks k sp 0 (env.take mi) (env.drop (mi + 1)) e hpre hsel.enabled hk hfn
      rw [← henv, hprelen, hsel.name, Nat.zero_add] at this
      exact this
    have hf : findSingle toks sp env = .ok (.user mi k) := by
      unfold findSingle
      simp only [he, if_true]
      rw [hp, hl]
      simp [scanFrom, hm]
    have hargsM : mapE (fun a => applyLoop env a SearchPos.start) args = .ok args' :=
      mapE_pointwise _ _ _ hlen (fun i a a' ha ha' => by
        have := ihargs i a a' ha ha' a SearchPos.start 0 rfl (Nat.le_refl _) (Nat.le_refl _) (passes_start _ _)
        simpa using this)
    have hbodyM : applyLoop (disable env mi) body' SearchPos.start = .ok R := by
      have := ihbody body' SearchPos.start 0 rfl (Nat.le_refl _) (Nat.le_refl _) (passes_start _ _)
      simpa using this
    have hstep := applyLoop_user_step env toks sp mi k e rest' args args' body' R (by omega) hf hsel.get
      (by rw [hdrop]; exact hra) hargsM hsub hbodyM
    obtain ⟨mid, hmid⟩ := readArgs_suffix _ _ _ _ hra
    have hklen : (toks.take k).length = k := by simp; omega
    have htoks : toks = toks.take k ++ (⟨.id n, b⟩ :: mid) ++ rest' := by
      have := List.take_append_drop k toks
      rw [hl, hmid] at this
      simpa using this.symm
    have hspl : splice toks k (toks.length - rest'.length) R = toks.take k ++ R ++ rest' := by
      have := splice_middle (toks.take k) (⟨.id n, b⟩ :: mid) rest' R
      rw [← htoks, hklen] at this
      exact this
    have hncR : NoConcat R :=
      (applyLoop_hang_free (disable env mi) body' SearchPos.start
        (by simpa [SearchPos.start] using noConcat_nil)).2 R hbodyM
    have hpass := passes_after env mi e (toks.take k) R rest' hsel.get hncR hnf
    rw [hklen] at hpass
    have hdrop' : (toks.take k ++ R ++ rest').drop (k + R.length) = rest' := by
      have : k + R.length = (toks.take k ++ R).length := by simp [hklen]
      rw [this, List.drop_left]
    have := ihrest (toks.take k ++ R ++ rest')
      ⟨k + R.length, k, if e.m.isFunction then some mi else none⟩ (k + R.length) hdrop' (by simp) (Nat.le_refl _) hpass
    rw [hstep, hspl, this]
    congr 1
    have : k + R.length = (toks.take k ++ R).length := by simp [hklen]
    rw [this, List.take_left]
    simp


end RsslVerif.Lemmas.MacroTame

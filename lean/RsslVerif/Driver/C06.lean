import RsslVerif.Model.SlotsCompile
import RsslVerif.Model.SlotsFront
import RsslVerif.Driver.Util
/-! Line-protocol front end of the C06 model. -/
namespace RsslVerif.Driver.C06
open RsslVerif.Gen.SlotTables RsslVerif.Model.Slots RsslVerif.Model.SlotsCompile RsslVerif.Model.SlotsFront RsslVerif.Driver

def parseParams (s : String) : Option Params :=
  match s.toList.map bit? with
  | [some a, some b, some c, some d] => some ⟨a, b, c, d⟩
  | _ => none

def parseDecl (s : String) : Option Decl :=
  match s.splitOn ":" with
  | ["o"] => some .other
  | ["c", set] => (optNat? set).map .cbuffer
  | ["g", set, ss, kind, len] => do
    let set ← optNat? set
    let ss ← match ss with | "1" => some true | "0" => some false | _ => none
    let kind ← if kind == "-" then some none else (ObjKind.ofName? kind).map some
    let len ← optNat? len
    pure (.global set ss kind len)
  | _ => none

def showBinding : Option Binding → String
  | none => "-"
  | some b =>
    toString b.set ++ "," ++
    (match b.loc with | .index i => "i" ++ toString i | .inline o => "n" ++ toString o) ++ "," ++
    (match b.slotType with | none => "-" | some r => r.name)

def showBuf (b : InlineBuf) : String :=
  toString b.set ++ "," ++ toString b.apiLocation ++ "," ++ toString b.sizeInBytes

/-! ### C06.compile -/

def parseTargetName : String → Option (Target × Bool)
  | "dx" => some (.HlslForDirectX, false)
  | "vk" => some (.HlslForVulkan, false)
  | "vkba" => some (.HlslForVulkan, true)
  | "msl" => some (.Msl, false)
  | _ => none

/-- the compile() options after the target: `B` = `support_buffer_address(true)` whatever the target is; `L`
    (validate_layout_consistency), `S` (source_info), `D` (user defines) are not arguments of anything modelled here:
    `compile`'s binding_params, `build_pipeline` and the exporters' binding analysis never read them -/
def parseOpts : Target × Bool → List String → Option (Target × Bool)
  | r, [] => some r
  | (t, sba), o :: os =>
    if o == "B" then parseOpts (t, true) os
    -- `Q`: a pipeline name given together with no-pipeline mode (the harness only does that in no-pipeline mode): the
    -- loop over the pipelines is not entered, exactly one module is built, so the name checks after it pass
    else if o == "L" || o == "S" || o == "D" || o == "Q" then parseOpts (t, sba) os
    else none

def parseTarget (s : String) : Option (Target × Bool) :=
  match s.splitOn "+" with
  | [] => none
  | name :: opts => (parseTargetName name).bind fun r => parseOpts r opts

def parseMode (s : String) : Option Mode :=
  if s == "all" then some .all
  else if s == "nopipeline" then some .noPipeline
  else if s.startsWith "name=" then some (.named (s.drop 5).toString) else none

/-- `<name>:<default group|->:<c|g>:<uses>`; an absent DefaultBindGroup property leaves the typer's 0 -/
def parsePipe (s : String) : Option Pipeline :=
  match s.splitOn ":" with
  | [name, dflt, _, _] => (optNat? dflt).map fun d => { name := name, defaultGroup := d.getD 0 }
  | _ => none

/-! ### request entry -> what the source text says (an independent reading of the request format of
    harness/src/c06/e2e.rs: `decl_attrs`, `own_anns`, `normalise`) -/

/-- one `<name>=<decl>~<flags>` entry -/
structure Entry where
  name : String
  /-- as written: `set` is the group this entry spells itself (how: see `how`) -/
  decl : Decl
  /-- a (attribute, default) | r (register space) | v (vk::binding) | o (attribute G + register space G+1) -/
  how : Char := 'a'
  langIndex : Option Nat := none
  /-- further annotations after the first: `some (index, space)` a register, `none` a semantic -/
  extras : List (Option (Option Nat × Option Nat)) := []
  preGroup : Option Nat := none
  bindless : Bool := false
  joined : Bool := false
  isStatic : Bool := false
  isUnsized : Bool := false
  dim2 : Bool := false
  wrongClass : Bool := false
  /-- `A<n>`: an ill-formed attribute in front of the others -/
  badAttr : Option Nat := none
  externKw : Bool := false
  groupShared : Bool := false
  /-- `q`: a `= StaticSampler {..}` initialiser on a declarator of a static-storage declaration -/
  staticSs : Bool := false
  /-- `E`: the first storage keyword is written twice -/
  dupKw : Bool := false
  /-- `U`: the sized array layer is part of a typedef (`typedef T TA[n]; TA name;`): the BASE type of the declaration
      is an array, which is what the register-class lookup of the annotation loop sees -/
  typedefArr : Bool := false
  /-- `M<n>` (cbuffer): the first member `<name>_v` carries an annotation: 0 a register, 1 a semantic -/
  memberAnn : Option Nat := none
  deriving Repr

def parseFlag (e : Entry) (f : String) : Option Entry :=
  if f == "" then some e
  else if f == "a" then some { e with how := 'a' }
  else if f == "r" then some { e with how := 'r' }
  else if f == "v" then some { e with how := 'v' }
  else if f == "o" then some { e with how := 'o' }
  else if f == "b" then some { e with bindless := true }
  else if f == "n" then some e
  else if f == "j" then some { e with joined := true }
  else if f == "s" then some { e with isStatic := true }
  else if f == "z" then some { e with isUnsized := true }
  else if f == "m" then some { e with dim2 := true }
  else if f == "k" then some { e with wrongClass := true }
  else if f == "e" then some { e with externKw := true }
  else if f == "E" then some { e with dupKw := true }
  else if f == "G" then some { e with groupShared := true }
  else if f == "q" then some { e with staticSs := true }
  else if f == "Y" then some { e with extras := e.extras ++ [none] }
  else if f == "U" then some { e with typedefArr := true }
  else if f == "M0" then some { e with memberAnn := some 0 }
  else if f == "M1" then some { e with memberAnn := some 1 }
  -- spellings that leave the typed declaration as it is: `const`, a typedef of the object type, a nested namespace,
  -- declared after the functions / after the pipelines (later entries are at least as late: request order = source
  -- order), the array length as a constant expression `x<n>`, the kind of an unbound root definition `F<n>`
  else if f == "C" || f == "T" || f == "N" || f == "l" || f == "L" then some e
  else if f.startsWith "x" then (f.drop 1).toString.toNat?.bind fun n => if n < 3 then some e else none
  else if f.startsWith "F" then (f.drop 1).toString.toNat?.bind fun n => if 1 ≤ n && n ≤ 4 then some e else none
  else if f.startsWith "i" then (f.drop 1).toString.toNat?.map fun n => { e with langIndex := some n }
  else if f.startsWith "w" then (f.drop 1).toString.toNat?.map fun n => { e with preGroup := some n }
  else if f.startsWith "A" then
    match (f.drop 1).toString.toNat? with
    | some n => if n < 12 then some { e with badAttr := some n } else none
    | none => none
  else if f.startsWith "R" then
    match (f.drop 1).toString.splitOn "_" with
    | [i, g] =>
      match optNat? i, optNat? g with
      | some i, some g => if i.isNone && g.isNone then none else some { e with extras := e.extras ++ [some (i, g)] }
      | _, _ => none
    | _ => none
  else none

def parseFlags : Entry → List String → Option Entry
  | e, [] => some e
  | e, f :: fs => match parseFlag e f with
    | none => none
    | some e' => parseFlags e' fs

def parseEntry (s : String) : Option Entry :=
  match s.splitOn "=" with
  | [name, rest] =>
    match rest.splitOn "~" with
    | [decl, flags] =>
      match parseDecl decl with
      | none => none
      | some d => parseFlags { name := name, decl := d } (flags.splitOn ".")
    | _ => none
  | _ => none

def Entry.set (e : Entry) : Option Nat :=
  match e.decl with
  | .cbuffer s => s
  | .global s _ _ _ => s
  | .other => none

/-- a cbuffer or a global of an object type (something a `register(..)` can be written on by the generator) -/
def Entry.object (e : Entry) : Bool :=
  match e.decl with
  | .cbuffer _ => true
  | .global _ _ (some _) _ => true
  | _ => false

/-- (object kind, static storage) of a declaration that can have several declarators -/
def Entry.base? (e : Entry) : Option (ObjKind × Bool) :=
  match e.decl with
  | .global _ _ (some k) _ => some (k, e.isStatic)
  | _ => none

/-- the register class the generator writes an index with -/
def Entry.regClass (e : Entry) : RegT :=
  match e.decl with
  | .cbuffer _ => .B
  | .global _ _ (some k) _ => (registerType k).getD .T
  | _ => .T

/-- attributes in front of the declaration whose first declarator is `h`, in source order -/
def badAttr : Nat → Attr
  | 0 => .badCount "bind_group"
  | 1 => .badCount "bind_group"
  | 2 => .badCount "bindless"
  | 3 => .unknown "nope"
  | 4 => .badCount "binding"
  | 5 => .badCount "binding"
  | 6 => .unknown "nope"
  | 7 => .unknown "other"
  | 8 => .unknown "single"
  | 9 => .notConstant ""
  | 10 => .notConstant "WaveGetLaneCount"
  | _ => .notConstant "4294967296"

def declAttrs (h : Entry) : List Attr :=
  (match h.badAttr with | some n => [badAttr n] | none => []) ++
  (if h.bindless then [Attr.bindless] else []) ++
  (match h.preGroup with | some g => [Attr.bindGroup g] | none => []) ++
  (if h.how == 'v' && h.object && (h.set.isSome || h.langIndex.isSome) then [Attr.vkBinding (h.langIndex.getD 0) h.set]
   else if h.how == 'r' && h.object then []
   else match h.set with | some g => [Attr.bindGroup g] | none => [])

def mkRegister (c : RegT) (wrong : Bool) (i g : Option Nat) : Annotation :=
  let c' := if wrong then (if c == .T then RegT.U else RegT.T) else c
  .register { slot := i.map fun i => (c', i), space := g }

/-- annotations after the declarator `e`, in source order; `joined` = it is a further declarator (its own group
    can only be a register space) -/
def ownAnns (e : Entry) (joined : Bool) : List Annotation :=
  let how := if joined then 'r' else e.how
  let c := e.regClass
  let first : List Annotation :=
    if !e.object then []
    else if how == 'r' then
      (if e.set.isSome || e.langIndex.isSome then [mkRegister c e.wrongClass e.langIndex e.set] else [])
    else if how == 'o' && e.set.isSome then [mkRegister c e.wrongClass e.langIndex (e.set.map (· + 1))]
    else if how == 'v' && (e.set.isSome || e.langIndex.isSome) then []
    else if e.langIndex.isSome then [mkRegister c e.wrongClass e.langIndex none] else []
  first ++ e.extras.map fun x =>
    match x with
    | some (i, g) => mkRegister c false i g
    | none => Annotation.semantic

def Entry.declarator (e : Entry) (joined : Bool) : Declarator Shape :=
  match e.decl with
  | .global _ ss _ len =>
    { name := e.name, annotations := ownAnns e joined, staticSampler := ss || (e.isStatic && e.staticSs),
      shape := { len := len, peelable := !(e.isUnsized || e.dim2) } }
  | _ => { name := e.name, annotations := [], staticSampler := false, shape := { len := none, peelable := true } }

/-- `U` counts only where the generator can write it (`normalise` of e2e.rs): a declaration with ONE declarator
    (judged on the raw `j` flag of the next entry) whose own shape is one sized array layer of an object type -/
def fixTypedefArr : List Entry → List Entry
  | [] => []
  | e :: rest =>
    let nextJoined := match rest with | n :: _ => n.joined | [] => false
    let arr := match e.decl with | .global _ false (some _) (some _) => true | _ => false
    { e with typedefArr := e.typedefArr && arr && !e.joined && !e.isUnsized && !e.dim2 && !nextJoined } :: fixTypedefArr rest

/-- the object kind the annotation loop finds on the declaration's base type: none behind an array typedef. Only
    asked when the declarator carries an annotation -- then `annotate` rejects the declaration at its first
    annotation (see `Thm.C06.array_typedef_annotation_rejected`) and the kind is never used for anything else;
    without annotations the typed declaration is the one of `T name[n]` -/
def Entry.annBase (e : Entry) (k : ObjKind) : Option ObjKind :=
  if e.typedefArr && !(ownAnns e false).isEmpty then none else some k

/-- the members of a cbuffer the generator writes: `<name>_v` first (with the `M<n>` annotation if any), the padding
    members carry no annotation -/
def Entry.members (e : Entry) : List (String × List Annotation) :=
  match e.decl, e.memberAnn with
  | .cbuffer _, some 0 => [(e.name ++ "_v", [.register { slot := some (.B, 0), space := none }])]
  | .cbuffer _, some _ => [(e.name ++ "_v", [.semantic])]
  | _, _ => [(e.name ++ "_v", [])]

/-- the storage-class keywords in front of the type of the declaration whose first declarator is `h` -/
def Entry.mods (h : Entry) : List StorageMod :=
  let ms := (if h.isStatic then [if h.groupShared then StorageMod.groupShared else StorageMod.static] else []) ++
    (if h.externKw then [StorageMod.extern] else [])
  match h.dupKw, ms with
  | true, m :: rest => m :: m :: rest
  | _, ms => ms

/-- entries in source order → root definitions; `cur` = the global-variable declaration being collected (its
    attributes, base type, storage keywords, declarators so far, base key) -/
def groupEntries : List Entry →
    Option (List Attr × Option ObjKind × List StorageMod × List (Declarator Shape) × (ObjKind × Bool)) → List RootItem
  | [], none => []
  | [], some (as, b, ms, ds, _) => [.globals as b ms ds]
  | e :: es, cur =>
    let flush : List RootItem := match cur with
      | some (as, b, ms, ds, _) => [.globals as b ms ds]
      | none => []
    match cur, e.joined, e.base? with
    | some (as, b, ms, ds, key), true, some key' =>
      if key == key' then groupEntries es (some (as, b, ms, ds ++ [e.declarator true], key))
      else flush ++ groupEntries es (some (declAttrs e, e.annBase key'.1, e.mods, [e.declarator false], key'))
    | _, _, some key' => flush ++ groupEntries es (some (declAttrs e, e.annBase key'.1, e.mods, [e.declarator false], key'))
    | _, _, none =>
      flush ++ (match e.decl with
        | .other => [RootItem.other e.name]
        | .cbuffer _ => [RootItem.cbuffer e.name (declAttrs e) e.members (ownAnns e false)]
        -- a global that is not an object (`static const int x`)
        | .global _ _ _ _ => [RootItem.globals (declAttrs e) none [.static] [e.declarator false]]) ++ groupEntries es none

def regLetter : RegT → String | .T => "t" | .U => "u" | .S => "s" | .B => "b"

def showFrontErr : FrontErr → String
  | .invalidRegisterType u x n => "err:decl:register-type-" ++ regLetter u ++ "-" ++ regLetter x ++ ":" ++ n
  | .invalidRegisterAnnotation n => "err:decl:register:" ++ n
  | .unexpectedRegisterAnnotation n => "err:decl:register-here:" ++ n
  | .unexpectedSemantic n => "err:decl:semantic:" ++ n
  | .staticSamplerUnexpectedBindingIndex n => "err:decl:static-sampler-index:" ++ n
  | .unexpectedPackOffset n => "err:other:packoffset:" ++ n
  | .staticSamplerUnexpectedStorageClass n => "err:decl:static-sampler-storage:" ++ n
  | .attributeArgumentCount l => "err:decl:attribute-count:" ++ l
  | .attributeUnknown n => "err:decl:attribute-unknown:" ++ n
  | .attributeNotConstant w => "err:decl:attribute-not-constant:" ++ w
  | .modifierConflict new _ => "err:decl:modifier-conflict:" ++ new

def showMetaBinding (b : MetaBinding) : String :=
  b.name ++ "," ++ (match b.loc with | .index i => "i" ++ toString i | .inline o => "n" ++ toString o) ++ "," ++ toString b.count

def showGroup (g : MetaGroup) : String :=
  ";".intercalate (g.bindings.map showMetaBinding) ++ "|" ++
  (match g.inlineBlock with | none => "-" | some (l, z) => toString l ++ "," ++ toString z)

def showErr : Err → String
  | .invalidArgs => "err:invalid-args"
  | .noPipeline => "err:none"
  | .unknownPipeline n => "err:unknown:" ++ n
  | .bindGroup n => "err:bind-group:" ++ toString n
  | .panic m => "panic:" ++ m

def handleCompile (tgt mode pipes decls : String) : String :=
  match parseTarget tgt, parseMode mode,
        sequenceOpt ((if pipes == "-" then [] else pipes.splitOn ";").map parsePipe),
        sequenceOpt ((if decls.isEmpty then [] else decls.splitOn ";").map parseEntry) with
  | some (t, sba), some m, some ps, some es =>
    -- the argument check of `compile` comes before anything is read (the same test `compile` of the model starts with)
    if sba && t != .HlslForVulkan then showErr .invalidArgs else
    -- then the type checker: every declarator gets its language-level binding (or the file is rejected)
    match frontItems (groupEntries (fixTypedefArr es) none) with
    | .error e => showFrontErr e
    | .ok nds =>
      if isMetal t && es.any (·.isUnsized) then "unsupported: unsized resource arrays are not implemented by the Metal exporter"
      else
        let ir := Module.fresh (nds.map (·.1)) (nds.map (·.2)) ps
        match compile { target := t, supportBufferAddress := sba, mode := m } ir with
        | .error e => showErr e
        | .ok bs => "ok:" ++ " ## ".intercalate (bs.map fun b => "{" ++ " / ".intercalate (b.groups.map showGroup) ++ "}")
  | _, _, _, _ => "bad-request"

def handle (op : String) (args : List String) : String :=
  match op, args with
  | "C06.compile", [tgt, mode, pipes, decls] => handleCompile tgt mode pipes decls
  | "C06.assign", [ps, dflt, decls] =>
    match parseParams ps, dflt.toNat?,
          sequenceOpt ((if decls.isEmpty then [] else decls.splitOn ";").map parseDecl) with
    | some p, some d, some ds =>
      match assign p d ds with
      | .error e => "panic:" ++ e
      | .ok r => ";".intercalate (r.bindings.map showBinding) ++ " || " ++
                 ";".intercalate (r.inlineBufs.map showBuf)
    | _, _, _ => "bad-request"
  | _, _ => "unsupported-op"

end RsslVerif.Driver.C06

import RsslVerif.Model.ConstEvalWf
import RsslVerif.Gen.PosTable
/-!
# What the positions that demand a constant do with the evaluated constant (C13)

`evaluate_constexpr` returns a `Constant` of the kind the expression has (untyped literal, `int`, `uint`, `bool`,
a float, an enum); each position then *uses* it: an array size goes through `Constant::to_uint64`, `numthreads`
additionally requires 32 bits, a case label and a template argument keep the constant as it is, a static sampler
LOD goes through `Constant::to_f32`, an enumerator starts a sequence.  The conversions and guards are not written
here: they are looked up in `Gen.PosTable`, re-extracted from the Rust source on every run.

The second half models `parse_rootdefinition_enum` (typer/src/typer/enums.rs) and `Context::end_enum`
(typer/src/typer/scopes.rs): the enumerator sequence and the deduction of the underlying type.
-/
namespace RsslVerif.Model.ConstPos
open RsslVerif.Gen.EvalTable RsslVerif.Gen.PosTable RsslVerif.Model.ConstEval

def lookup {β : Type} (k : Kind) : List (Kind × β) → Option β
  | [] => none
  | (k', b) :: r => if k' = k then some b else lookup k r

/-- `Constant::to_uint64` (payloads are in the range of their Rust type, so `*v as u64` of a non-negative value is
the value) -/
def toUint64 (c : Constant) : Option Int :=
  match lookup c.kind toUint64Table with
  | none => none
  | some arm =>
    match arm, c with
    | .fromBool, .bool b => some (if b then 1 else 0)
    | .fromBool, _ => none
    | .always, c => c.intVal?
    | .nonNeg, c => (match c.intVal? with | some v => if 0 ≤ v then some v else none | none => none)
    | .litU64, c => (match c.intVal? with | some v => if 0 ≤ v ∧ v ≤ 2 ^ 64 - 1 then some v else none | none => none)

/-- `Constant::to_f32`: the binary32 bit pattern -/
def toF32 (c : Constant) : Option Nat :=
  match lookup c.kind toF32Table with
  | none => none
  | some arm =>
    match arm, c with
    | .fromBool, .bool b => some (if b then F.one F.f32 else 0)
    | .fromBool, _ => none
    | .same, c => c.floatBits?
    | .always, c =>
      (match c.intVal?, floatFmtOf c.kind, c.floatBits? with
       | some v, _, _ => some (F.ofInt F.f32 v)
       | _, some f, some bits => some (if f = F.f32 then bits else F.convert f F.f32 bits)
       | _, _, _ => none)
    | .nonNeg, c => (match c.intVal? with | some v => if 0 ≤ v then some (F.ofInt F.f32 v) else none | none => none)
    | .litMax, c =>
      -- `f32::MAX as i128` = 340282346638528859811704183484516925440
      (match c.intVal? with
       | some v => if v ≤ 340282346638528859811704183484516925440 then some (F.ofInt F.f32 v) else none
       | none => none)

/-- outcome of a position -/
inductive Out where
  | count (n : Int)                 -- an accepted size / count / index
  | stored (c : Constant)           -- the constant recorded as it is
  | lod (bits : Nat)                -- an accepted float property (binary32)
  | notConstant                     -- rejected: the expression has no (usable) constant value
  | zeroSize                        -- rejected: array dimension 0
  | outOfRange                      -- rejected: does not fit the place (32 bits / 8 bits)
  | panic (msg : String)
  | stuck
  deriving DecidableEq, Repr, Inhabited

/-- a position that needs an unsigned count -/
def sizeSite (r : SizeRule) (res : Res) : Out :=
  match res with
  | .error .notConst => .notConstant
  | .error (.panic m) => .panic m
  | .error .stuck => .stuck
  | .ok c =>
    let v := match c with
      | .enum _ inner => if r.unwrapEnum then toUint64 inner else toUint64 c
      | c => toUint64 c
    match v with
    | none => .notConstant
    | some n =>
      if r.rejectZero && n == 0 then .zeroSize
      else if r.max32 && decide (2 ^ 32 - 1 < n) then .outOfRange
      else .count n

/-- `WriteMask`: `extract_uint32` then `u8::try_from` -/
def writeMaskSite (res : Res) : Out :=
  match sizeSite pipelineUint res with
  | .count n => if n ≤ writeMaskMax then .count n else .outOfRange
  | o => o

/-- a case label -/
def caseSite (res : Res) : Out :=
  match res with
  | .ok c => if caseLabelAsIs then .stored c else .stuck
  | .error .notConst => .notConstant
  | .error (.panic m) => .panic m
  | .error .stuck => .stuck

/-- a template value argument (`parse_and_evaluate_constant_expression`) -/
def templateSite (res : Res) : Out :=
  match res with
  | .ok c => if templateKinds.contains c.kind then .stored c else .notConstant
  | .error .notConst => .notConstant
  | .error (.panic m) => .panic m
  | .error .stuck => .stuck

/-- a float-valued property (`extract_float`) -/
def lodSite (res : Res) : Out :=
  match res with
  | .ok c => (match toF32 c with | some b => .lod b | none => .notConstant)
  | .error .notConst => .notConstant
  | .error (.panic m) => .panic m
  | .error .stuck => .stuck

/-- the initialiser of a variable: folded only for a `const` declaration; `e` is the initialiser *after* the implicit
conversion to the declared type -/
def constInitSite (isConst : Bool) (res : Res) : Out :=
  if constInitNeedsConst && !isConst then .notConstant
  else match res with
    | .ok c => .stored c
    | .error .notConst => .notConstant
    | .error (.panic m) => .panic m
    | .error .stuck => .stuck

/-! ## enum definitions -/

/-- static type of an enumerator's initialiser (modifiers removed) -/
inductive Cls where
  | scalar (s : Scalar)
  | enum (id : Nat) (underlying : Scalar)
  | other
  deriving DecidableEq, Repr, Inhabited

/-- one enumerator: no initialiser, or the static type of the initialiser and its IR -/
abbrev Member := Option (Cls × Expr)

inductive EnumErr where
  | mustBeInteger (i : Nat)         -- EnumValueMustBeInteger
  | notConstant (i : Nat)           -- ExpressionIsNotConstantExpression
  | overflow (i : Nat)              -- EnumValueOverflow
  | cannotDeduce (lo hi : Int)      -- EnumTypeCanNotBeDeduced
  | panic (msg : String)
  | stuck
  deriving DecidableEq, Repr, Inhabited

instance : DecidableEq (Except EnumErr (Scalar × List Constant)) := fun a b =>
  match a, b with
  | .ok x, .ok y => if h : x = y then isTrue (by rw [h]) else isFalse (by intro e; cases e; exact h rfl)
  | .error x, .error y => if h : x = y then isTrue (by rw [h]) else isFalse (by intro e; cases e; exact h rfl)
  | .ok _, .error _ => isFalse (by intro e; cases e)
  | .error _, .ok _ => isFalse (by intro e; cases e)

def rangeOfKind : Kind → Option (Int × Int)
  | .IntLiteral => some (i128.lo, i128.hi)
  | .Int32 => some (i32.lo, i32.hi)
  | .UInt32 => some (u32.lo, u32.hi)
  | .Int64 => some (i64.lo, i64.hi)
  | .UInt64 => some (u64.lo, u64.hi)
  | _ => none

/-- the enumerator after `last` -/
def nextValue (i : Nat) (last : Constant) : Except EnumErr Constant :=
  match lookup last.kind enumNext with
  | none => .error (.panic enumNextPanic)
  | some .boolSucc =>
    (match last with
     | .bool b => .ok (.int32 ((if b then 1 else 0) + 1))
     | _ => .error .stuck)
  | some .checkedSucc =>
    match last.intVal?, rangeOfKind last.kind with
    | some v, some (_, hi) =>
      if v + 1 ≤ hi then (match mkInt last.kind (v + 1) with | some c => .ok c | none => .error .stuck)
      else .error (.overflow i)
    | _, _ => .error .stuck

/-- value of enumerator `i` given the previous one -/
def memberValue (i : Nat) (last : Option Constant) (m : Member) : Except EnumErr Constant :=
  match m with
  | none =>
    (match last with
     | none => (match mkInt enumFirst.1 enumFirst.2 with | some c => .ok c | none => .error .stuck)
     | some l => nextValue i l)
  | some (cls, e) =>
    let e' : Option Expr := match cls with
      | .scalar s => if enumAllowed.contains s then some e else none
      | .enum _ u => if enumCastsEnumTyped then some (.cast (.scalar u) e) else some e
      | .other => none
    match e' with
    | none => .error (.mustBeInteger i)
    | some e' =>
      match eval e' with
      | .ok c => .ok c
      | .error .notConst => .error (.notConstant i)
      | .error (.panic msg) => .error (.panic msg)
      | .error .stuck => .error .stuck

/-- the loop over the members -/
def collect : Nat → Option Constant → List Member → Except EnumErr (List Constant)
  | _, _, [] => .ok []
  | i, last, m :: rest =>
    match memberValue i last m with
    | .error e => .error e
    | .ok c =>
      match collect (i + 1) (some c) rest with
      | .error e => .error e
      | .ok cs => .ok (c :: cs)

/-- widening of one enumerator value to `i128` in `end_enum` -/
def widen (c : Constant) : Except EnumErr Int :=
  if enumRangeKinds.contains c.kind then
    match c with
    | .bool b => .ok (if b then 1 else 0)
    | c => (match c.intVal? with | some v => .ok v | none => .error .stuck)
  else .error (.panic enumRangePanic)

def widenAll : List Constant → Except EnumErr (List Int)
  | [] => .ok []
  | c :: r =>
    match widen c with
    | .error e => .error e
    | .ok v => match widenAll r with | .error e => .error e | .ok vs => .ok (v :: vs)

def minOf (vs : List Int) : Int := vs.foldl (fun a v => if v < a then v else a) 0
def maxOf (vs : List Int) : Int := vs.foldl (fun a v => if a < v then v else a) 0

def tyRange : String → Option (Int × Int)
  | "i32" => some (i32.lo, i32.hi)
  | "u32" => some (u32.lo, u32.hi)
  | _ => none

/-- the first candidate type whose range contains `[lo, hi]` -/
def pickUnderlying (lo hi : Int) : List (String × Scalar) → Except EnumErr Scalar
  | [] => .error (.cannotDeduce lo hi)
  | (t, s) :: rest =>
    match tyRange t with
    | none => .error .stuck
    | some (tlo, thi) => if tlo ≤ lo ∧ hi ≤ thi then .ok s else pickUnderlying lo hi rest

/-- `value as i32` / `value as u32` -/
def convertTo (s : Scalar) (v : Int) : Except EnumErr Constant :=
  match s with
  | .Int32 => .ok (.int32 (i32.wrap v))
  | .UInt32 => .ok (.uint32 (u32.wrap v))
  | _ => .error (.panic "internal error: entered unreachable code")

def convertAll (s : Scalar) : List Int → Except EnumErr (List Constant)
  | [] => .ok []
  | v :: r =>
    match convertTo s v with
    | .error e => .error e
    | .ok c => match convertAll s r with | .error e => .error e | .ok cs => .ok (c :: cs)

/-- a whole enum definition: underlying type and final enumerator values -/
def defineEnum (ms : List Member) : Except EnumErr (Scalar × List Constant) :=
  match collect 0 none ms with
  | .error e => .error e
  | .ok cs =>
    match widenAll cs with
    | .error e => .error e
    | .ok vs =>
      match pickUnderlying (minOf vs) (maxOf vs) enumCandidates with
      | .error e => .error e
      | .ok s =>
        match convertAll s vs with
        | .error e => .error e
        | .ok out => .ok (s, out)

/-! ## hypotheses of the enum theorems, executable (the driver evaluates them on every definition of the correspondence run) -/

/-- the IR the initialiser of an enumerator is evaluated as (`none`: not an integer type, rejected) -/
def memberExpr (cls : Cls) (e : Expr) : Option Expr :=
  match cls with
  | .scalar s => if s = .Bool ∨ s = .IntLiteral ∨ s = .Int32 ∨ s = .UInt32 then some e else none
  | .enum _ u => some (.cast (.scalar u) e)
  | .other => none

/-- every initialiser is a well-formed tree -/
def membersWf : List Member → Bool
  | [] => true
  | none :: r => membersWf r
  | some (_, e) :: r => wfE e && membersWf r

/-- integer-like: what can be an enumerator while the enum is being defined -/
def intLike (c : Constant) : Bool :=
  c.kind == .Bool || c.kind == .IntLiteral || c.kind == .Int32 || c.kind == .UInt32

/-- hypotheses of `defineEnum_noPanic`, executable: every initialiser is a well-formed tree with admissible operand
kinds (the hypotheses of `consteval_no_panic`), and — type soundness of the front end — an initialiser of integer
or enum type evaluates, if at all, to an integer-like constant -/
def membersOk : List Member → Bool
  | [] => true
  | none :: r => membersOk r
  | some (cls, e) :: r =>
    wfE e && kindsOk e &&
    (match memberExpr cls e with
     | some e' => (match eval e' with | .ok c => intLike c | .error _ => true)
     | none => true) && membersOk r

end RsslVerif.Model.ConstPos

import RsslVerif.Lemmas.FmtParseTables
import RsslVerif.Model.ParseFull
/-! Round trip for the full expression model (`Model/FormatFull`, `Model/ParseFull`): fuel-free relations, lifting
between levels, inert tokens.  Same structure as `Lemmas/Roundtrip.lean`; level 2 now also has the cast and `sizeof`
alternatives and level 1 the template-argument attempt of `expr_p1_call`. -/
set_option linter.unusedSimpArgs false
set_option linter.unusedVariables false
namespace RsslVerif.Lemmas.RoundtripFull
open RsslVerif.Gen.FmtTables RsslVerif.Gen.ParseTables RsslVerif.Gen.SyntaxTables RsslVerif.Model.Format
open RsslVerif.Model.FormatFull RsslVerif.Model.ParseFull RsslVerif.Lemmas.FmtParseTables

variable (W : List String)

/-- with enough fuel, level `k` reads `ts` as `out` -/
def Parses (k : Nat) (term : Terminator) (ts : List Tok) (out : XExpr × List Tok) : Prop :=
  ∃ N, ∀ f, N ≤ f → xparseLvl W f k term ts = some out
/-- with enough fuel, level `k` continues from the operand `acc` to `out` -/
def Conts (k : Nat) (term : Terminator) (acc : XExpr) (ts : List Tok) (out : XExpr × List Tok) : Prop :=
  ∃ N, ∀ f, N ≤ f → xcont W f k term acc ts = some out

/-- level `k` does nothing in front of `ts` -/
def Inert (k : Nat) (term : Terminator) (ts : List Tok) : Prop := ∀ acc, Conts W k term acc ts (acc, ts)
/-- no level below `k` does anything in front of `ts` -/
def NoLow (k : Nat) (term : Terminator) (ts : List Tok) : Prop := ∀ i, 1 ≤ i → i < k → Inert W i term ts

/-- the cast alternative of `expr_p2` fails on the tokens after `(` -/
def CastDead (ts : List Tok) : Prop := ∀ f term, castAlt W f term ts = none

/-- entry condition of level 2 for an operand that is read by `expr_p1`: no prefix operator, no `sizeof`, and after
a `(` the cast alternative fails -/
def P2Ok : List Tok → Prop
  | [] => True
  | t :: rest => prefixOp t = none ∧ t ≠ .p .SizeOf ∧ (t = .p .LeftParen → CastDead W rest)

theorem NoLow.mono {k j term ts} (h : NoLow W k term ts) (hj : j ≤ k) : NoLow W j term ts :=
  fun i h1 h2 => h i h1 (Nat.lt_of_lt_of_le h2 hj)

theorem succ_of_pos {f N : Nat} (h : N + 1 ≤ f) : ∃ f', f = f' + 1 ∧ N ≤ f' := ⟨f - 1, by omega, by omega⟩

theorem cont2 (f : Nat) (term : Terminator) (acc : XExpr) (ts : List Tok) :
    xcont W (f + 1) 2 term acc ts = some (acc, ts) := by
  simp [xcont]

theorem conts2_eq {term acc ts out} (h : Conts W 2 term acc ts out) : out = (acc, ts) := by
  obtain ⟨N, h⟩ := h
  have := h (N + 1) (by omega)
  rw [cont2] at this
  exact (Option.some.inj this).symm

theorem inert2 (term : Terminator) (ts : List Tok) : Inert W 2 term ts :=
  fun acc => ⟨1, fun f hf => by obtain ⟨f', rfl, _⟩ := succ_of_pos hf; exact cont2 W f' term acc ts⟩

theorem xparseLvl_nil (f k : Nat) (term : Terminator) : xparseLvl W f k term [] = none := by
  induction k generalizing f with
  | zero => cases f <;> simp [xparseLvl]
  | succ k ih =>
    cases f with
    | zero => simp [xparseLvl]
    | succ f =>
      unfold xparseLvl
      by_cases hk : k + 1 = 2
      · simp [hk]
      · simp [hk, ih]

/-- one level up: `xparseLvl (k+1)` is `xparseLvl k` followed by `xcont (k+1)` (at level 2: when the operand is one
that `expr_p1` reads) -/
theorem lift {k term ts a r out} (hp : Parses W k term ts (a, r)) (hc : Conts W (k + 1) term a r out)
    (h2 : k + 1 = 2 → P2Ok W ts) : Parses W (k + 1) term ts out := by
  obtain ⟨N1, h1⟩ := hp
  obtain ⟨N2, hc⟩ := hc
  refine ⟨max N1 N2 + 1, fun f hf => ?_⟩
  obtain ⟨f', rfl, hf'⟩ := succ_of_pos hf
  unfold xparseLvl
  by_cases hk : k + 1 = 2
  · have hok := h2 hk
    obtain rfl : k = 1 := by omega
    cases ts with
    | nil =>
      have := h1 f' (by omega)
      rw [xparseLvl_nil] at this
      cases this
    | cons t rest =>
      simp only [P2Ok] at hok
      obtain ⟨hnp, hns, hcd⟩ := hok
      simp only [hk, if_true, hnp, hns, if_false]
      by_cases hlp : t = .p .LeftParen
      · simp [hlp, hcd hlp f' term]
        rw [← hlp, h1 f' (by omega)]
        simp [hc f' (by omega)]
      · simp [hlp, h1 f' (by omega), hc f' (by omega)]
  · simp [hk, h1 f' (by omega), hc f' (by omega)]

/-- several levels up through levels that do nothing in front of `rest` -/
theorem raise {j term ts e rest} (hp : Parses W j term ts (e, rest)) (hnp : j < 2 → P2Ok W ts) :
    ∀ d out, (∀ i, j < i → i < j + d + 1 → Inert W i term rest) → Conts W (j + d + 1) term e rest out →
      Parses W (j + d + 1) term ts out := by
  intro d
  induction d with
  | zero =>
    intro out _ hc
    exact lift W hp hc (fun h => hnp (by omega))
  | succ d ih =>
    intro out hin hc
    have hmid : Parses W (j + d + 1) term ts (e, rest) :=
      ih (e, rest) (fun i h1 h2 => hin i h1 (by omega)) (hin (j + d + 1) (by omega) (by omega) e)
    exact lift W hmid hc (fun h => hnp (by omega))

/-! ## Inert tokens -/

theorem parseOpAt_comma_typelist (rest : List Tok) (k : Nat) : parseOpAt k .TypeList (.p .Comma :: rest) = none := by
  unfold parseOpAt
  split <;> (try rfl) <;>
    simp [parseOp3, parseOp4, parseOp5, parseOp6, parseOp7, parseOp8, parseOp9, parseOp10,
        parseOp11, parseOp12, parseOp14, parseOp15, firstArm, matchPrefix, Tok.isLt, Tok.isGt]

/-- `>=` directly after a `>` that closes a template argument list would make `>>=` -/
def shiftAssignHead : List Tok → Bool
  | .gt true :: .p .Equals :: _ => true
  | _ => false

theorem parseOpAt_gt_typelist (b : Bool) (rest : List Tok) (k : Nat) (h : shiftAssignHead rest = false) :
    parseOpAt k .TypeList (.gt b :: rest) = none := by
  unfold parseOpAt
  split <;> (try rfl) <;>
  · cases b <;>
    (match rest, h with
     | [], _ => simp [parseOp3, parseOp4, parseOp5, parseOp6, parseOp7, parseOp8, parseOp9, parseOp10,
        parseOp11, parseOp12, parseOp14, parseOp15, firstArm, matchPrefix, Tok.isLt, Tok.isGt]
     | [t], _ => cases t <;> simp [parseOp3, parseOp4, parseOp5, parseOp6, parseOp7, parseOp8, parseOp9, parseOp10,
        parseOp11, parseOp12, parseOp14, parseOp15, firstArm, matchPrefix, Tok.isLt, Tok.isGt] <;>
        (try (split <;> simp_all [firstArm]))
     | t :: u :: r, h =>
        cases t <;> cases u <;> simp_all [shiftAssignHead, parseOp3, parseOp4, parseOp5, parseOp6, parseOp7, parseOp8, parseOp9, parseOp10,
        parseOp11, parseOp12, parseOp14, parseOp15, firstArm, matchPrefix, Tok.isLt, Tok.isGt] <;>
        (try (split <;> simp_all [firstArm])))

/-- `expr_p1_call`'s attempt to read `<…>(` fails on `ts` -/
def TmplDead (ts : List Tok) : Prop :=
  ∀ f, match parseTArgsReq W f ts with
    | some (_, .p .LeftParen :: _) => False
    | _ => True

/-- the head token does not continue a postfix chain -/
def NoPostfix : List Tok → Prop
  | [] => True
  | t :: r => t ≠ .p .PlusPlus ∧ t ≠ .p .MinusMinus ∧ t ≠ .p .Period ∧ t ≠ .p .LeftSquareBracket ∧ t ≠ .p .LeftParen ∧
      (t.isLt = true → TmplDead W (t :: r))

def NoQuestion : List Tok → Prop
  | [] => True
  | t :: _ => t ≠ .p .QuestionMark

/-- a level does nothing when its trigger is absent -/
theorem inert_of (k : Nat) (term : Terminator) (ts : List Tok)
    (h1 : k = 1 → NoPostfix W ts) (h13 : k = 13 → NoQuestion ts)
    (hop : k ≠ 1 → k ≠ 2 → k ≠ 13 → parseOpAt k term ts = none) : Inert W k term ts := by
  intro acc
  refine ⟨1, fun f hf => ?_⟩
  obtain ⟨f', rfl, _⟩ := succ_of_pos hf
  unfold xcont
  by_cases k1 : k = 1
  · subst k1
    have := h1 rfl
    cases ts with
    | nil => simp
    | cons t rest =>
      obtain ⟨a, b, c, d, e, g⟩ := this
      simp only [if_true]
      cases t with
      | lt b' =>
        have hd := g rfl f'
        simp only []
        split
        · rename_i heq; rw [heq] at hd; exact absurd hd id
        · rfl
      | p q => split <;> simp_all
      | _ => rfl
  · by_cases k2 : k = 2
    · simp [k2]
    · by_cases k13 : k = 13
      · subst k13
        have := h13 rfl
        cases ts with
        | nil => simp
        | cons t rest =>
          simp only [NoQuestion] at this
          simp only [k1, k2, if_false, if_true]
          split <;> simp_all
      · have := hop k1 k2 k13
        by_cases k14 : k = 14
        · subst k14; simp [this]
        · simp [k1, k2, k13, k14, this]

theorem inert_nil (k : Nat) (term : Terminator) : Inert W k term [] :=
  inert_of W k term [] (fun _ => trivial) (fun _ => trivial) (fun _ _ _ => parseOpAt_nil term k)

/-- closing tokens: nothing continues in front of `)`, `]`, `:`, `;`, of `,` under `Sequence` / `TypeList`, and of a `>`
under `TypeList` (unless `>=` follows it) -/
def Closes (term : Terminator) (t : Tok) (rest : List Tok) : Prop :=
  t = .p .RightParen ∨ t = .p .RightSquareBracket ∨ t = .p .Colon ∨ t = .p .Semicolon ∨
  (t = .p .Comma ∧ term = .Sequence) ∨ (t = .p .Comma ∧ term = .TypeList) ∨
  (t.isGt = true ∧ term = .TypeList ∧ shiftAssignHead rest = false)

theorem inert_closes (k : Nat) (term : Terminator) (t : Tok) (rest : List Tok) (h : Closes term t rest) :
    Inert W k term (t :: rest) := by
  apply inert_of
  · intro _; rcases h with rfl | rfl | rfl | rfl | ⟨rfl, _⟩ | ⟨rfl, _⟩ | ⟨h, _⟩ <;> simp [NoPostfix, Tok.isLt]
    cases t <;> simp_all [Tok.isGt, Tok.isLt]
  · intro _; rcases h with rfl | rfl | rfl | rfl | ⟨rfl, _⟩ | ⟨rfl, _⟩ | ⟨h, _⟩ <;> simp [NoQuestion]
    cases t <;> simp_all [Tok.isGt]
  · intro _ _ _
    rcases h with rfl | rfl | rfl | rfl | ⟨rfl, h'⟩ | ⟨rfl, h'⟩ | ⟨h1, h2, h3⟩
    · exact parseOpAt_closer term _ rest k (by simp [Closer])
    · exact parseOpAt_closer term _ rest k (by simp [Closer])
    · exact parseOpAt_closer term _ rest k (by simp [Closer])
    · exact parseOpAt_closer term _ rest k (by simp [Closer])
    · exact parseOpAt_closer term _ rest k (by simp [Closer, h'])
    · subst h'; exact parseOpAt_comma_typelist rest k
    · subst h2
      cases t <;> simp [Tok.isGt] at h1
      exact parseOpAt_gt_typelist _ rest k h3

theorem noLow_closes (k : Nat) (term : Terminator) (t : Tok) (rest : List Tok) (h : Closes term t rest) :
    NoLow W k term (t :: rest) := fun i _ _ => inert_closes W i term t rest h

theorem noLow_nil (k : Nat) (term : Terminator) : NoLow W k term [] := fun i _ _ => inert_nil W i term

/-- `?` is seen by level 13 only -/
theorem inert_question (k : Nat) (term : Terminator) (rest : List Tok) (hk : k ≠ 13) :
    Inert W k term (.p .QuestionMark :: rest) := by
  apply inert_of
  · intro _; simp [NoPostfix, Tok.isLt]
  · intro h; exact absurd h hk
  · intro _ _ _; exact parseOpAt_closer term _ rest k (by simp [Closer])


end RsslVerif.Lemmas.RoundtripFull

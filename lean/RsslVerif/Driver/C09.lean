import RsslVerif.Model.Parse
import RsslVerif.Driver.Util
/-! Line-protocol front end of the C09 model: `C09.rt <ctx> <tree>` ↦ `<printed text> ==> <re-read tree | ERR:parse>`. -/
namespace RsslVerif.Driver.C09
open RsslVerif.Gen.FmtTables RsslVerif.Gen.ParseTables RsslVerif.Model.Format RsslVerif.Model.Parse

inductive SExp where
  | atom (s : String)
  | list (l : List SExp)
  deriving Inhabited

/-- tokens of the request syntax: `(`, `)`, atoms -/
def sexpTokens (s : String) : List String :=
  let rec go (cs : List Char) (cur : List Char) (acc : List String) : List String :=
    let flush := if cur.isEmpty then acc else String.ofList cur.reverse :: acc
    match cs with
    | [] => flush.reverse
    | c :: r =>
      if c == '(' then go r [] ("(" :: flush)
      else if c == ')' then go r [] (")" :: flush)
      else if c == ' ' then go r [] flush
      else go r (c :: cur) acc
  go s.toList [] []

/-- stack-based reader; `none` on unbalanced input -/
def readSExp (toks : List String) : Option SExp :=
  let rec go (ts : List String) (stack : List (List SExp)) : Option SExp :=
    match ts with
    | [] => match stack with
      | [[x]] => some x
      | _ => none
    | t :: r =>
      if t == "(" then go r ([] :: stack)
      else if t == ")" then
        match stack with
        | top :: parent :: rest => go r ((SExp.list top.reverse :: parent) :: rest)
        | _ => none
      else
        match stack with
        | top :: rest => go r ((SExp.atom t :: top) :: rest)
        | [] => none
  go toks [[]]

def scopedName : List SExp → Option String
  | .atom "::" :: rest =>
    (sequenceOpt (rest.map fun | .atom a => some a | _ => none)).bind fun parts =>
      if parts.isEmpty then none else some ("::" ++ "::".intercalate parts)
  | parts =>
    (sequenceOpt (parts.map fun | .atom a => some a | _ => none)).bind fun parts =>
      if parts.isEmpty then none else some ("::".intercalate parts)

def hexNat? (s : String) : Option Nat :=
  if s.startsWith "0x" then
    (s.drop 2).toString.toList.foldl (fun acc c => match acc, hexDigit? c with
      | some a, some d => some (a * 16 + d)
      | _, _ => none) (some 0)
  else none

def hexFixed (width n : Nat) : String :=
  String.ofList ((List.range width).reverse.map fun i => hexNibble ((n / 16 ^ i) % 16))

/-- `(lit k v)` of the request syntax -/
def toLit (k v : String) : Option Lit :=
  let int (kind : LitKind) : Option Lit := (if v.isEmpty then none else v.toNat?).map fun n => ⟨kind, false, n⟩
  let flt (kind : LitKind) (width : Nat) : Option Lit :=
    (hexNat? v).map fun b => ⟨kind, b / 2 ^ (width - 1) % 2 == 1, b % 2 ^ (width - 1)⟩
  match k with
  | "b" => int .Bool
  | "i" => int .IntUntyped
  | "u" => int .IntUnsigned32
  | "ul" => int .IntUnsigned64
  | "l" =>
    if v.startsWith "-" then ((v.drop 1).toString.toNat?).map fun n => ⟨.IntSigned64, true, n⟩ else int .IntSigned64
  | "f" => flt .FloatUntyped 64
  | "h" => flt .Float16 32
  | "f32" => flt .Float32 32
  | "f64" => flt .Float64 64
  | "s" => some ⟨.String, false, 0⟩
  | _ => none

def showLit (l : Lit) : String :=
  let flt (k : String) (width : Nat) := k ++ " 0x" ++ hexFixed (width / 4) (l.mag + (if l.neg then 2 ^ (width - 1) else 0))
  match l.kind with
  | .Bool => "b " ++ toString l.mag
  | .IntUntyped => "i " ++ toString l.mag
  | .IntUnsigned32 => "u " ++ toString l.mag
  | .IntUnsigned64 => "ul " ++ toString l.mag
  | .IntSigned64 => "l " ++ (if l.neg then "-" else "") ++ toString l.mag
  | .FloatUntyped => flt "f" 64
  | .Float16 => flt "h" 32
  | .Float32 => flt "f32" 32
  | .Float64 => flt "f64" 64
  | .String => "s ?"

mutual
/-- `none` = malformed; `some none` = a node kind outside the model -/
partial def toExpr : SExp → Option (Option Expr)
  | .list (.atom "lit" :: [.atom k, .atom v]) => (toLit k v).map fun l => some (.lit l)
  | .list (.atom "id" :: parts) => (scopedName parts).map fun n => some (.id n)
  | .list [.atom "un", .atom op, x] =>
    match UnOp.ofName? op, toExpr x with
    | some op, some (some x) => some (some (.un op x))
    | some _, some none => some none
    | _, _ => none
  | .list [.atom "bin", .atom op, l, r] =>
    match BinOp.ofName? op, toExpr l, toExpr r with
    | some op, some (some l), some (some r) => some (some (.bin op l r))
    | some _, some _, some _ => some none
    | _, _, _ => none
  | .list [.atom "tern", c, a, b] =>
    match toExpr c, toExpr a, toExpr b with
    | some (some c), some (some a), some (some b) => some (some (.tern c a b))
    | some _, some _, some _ => some none
    | _, _, _ => none
  | .list [.atom "sub", o, i] =>
    match toExpr o, toExpr i with
    | some (some o), some (some i) => some (some (.sub o i))
    | some _, some _ => some none
    | _, _ => none
  | .list (.atom "mem" :: o :: parts) =>
    match toExpr o, scopedName parts with
    | some (some o), some n => some (some (.mem o n))
    | some none, some _ => some none
    | _, _ => none
  | .list [.atom "call", f, .list targs, .list args] =>
    match toExpr f, toArgs args with
    | some (some f), some (some a) => if targs.isEmpty then some (some (.call f a)) else some none
    | some _, some _ => some none
    | _, _ => none
  | .list (.atom "cast" :: _) => some none
  | .list (.atom "sizeof" :: _) => some none
  | .list (.atom "binit" :: _) => some none
  | _ => none
partial def toArgs : List SExp → Option (Option Args)
  | [] => some (some .nil)
  | x :: r =>
    match toExpr x, toArgs r with
    | some (some e), some (some a) => some (some (.cons e a))
    | some _, some _ => some none
    | _, _ => none
end

def showName (n : String) : String := " ".intercalate ((if n.startsWith "::" then ["::"] else []) ++
  ((if n.startsWith "::" then (n.drop 2).toString else n).splitOn "::"))

mutual
def showExpr : Expr → String
  | .lit l => "(lit " ++ showLit l ++ ")"
  | .id n => "(id " ++ showName n ++ ")"
  | .un op x => "(un " ++ op.name ++ " " ++ showExpr x ++ ")"
  | .bin op l r => "(bin " ++ op.name ++ " " ++ showExpr l ++ " " ++ showExpr r ++ ")"
  | .tern c a b => "(tern " ++ showExpr c ++ " " ++ showExpr a ++ " " ++ showExpr b ++ ")"
  | .sub o i => "(sub " ++ showExpr o ++ " " ++ showExpr i ++ ")"
  | .mem o n => "(mem " ++ showExpr o ++ " " ++ showName n ++ ")"
  | .call f args => "(call " ++ showExpr f ++ " () (" ++ " ".intercalate (showArgs args) ++ "))"
def showArgs : Args → List String
  | .nil => []
  | .cons e r => showExpr e :: showArgs r
end

/-- could `expr_p1_call`'s template-argument attempt fire somewhere? (`<` … `>` directly followed by `(`) -/
def templateShape : List Tok → Bool
  | [] => false
  | .lt _ :: rest =>
    let rec closes : List Tok → Bool
      | .gt _ :: .p .LeftParen :: _ => true
      | _ :: r => closes r
      | [] => false
    closes rest || templateShape rest
  | _ :: rest => templateShape rest

/-- adjacent pieces the lexer reads differently from the printed tokens: an untyped integer literal directly
followed by `.` starts a float literal (`3.m` is rejected by the lexer) -/
def gluedIntPeriod : List Piece → Bool
  | .t (.lit l) _ :: .t (.p .Period) _ :: .t (.id m) s :: rest =>
    -- `literal_float` gives the characters back when the "suffix" starts with `x` (a swizzle on an integer)
    (l.kind == .IntUntyped && !m.startsWith "x") || gluedIntPeriod (.t (.id m) s :: rest)
  | _ :: rest => gluedIntPeriod rest
  | [] => false

def handle (op : String) (args : List String) : String :=
  match op, args with
  | "C09.rt", [ctx, tree] =>
    match (readSExp (sexpTokens tree)).bind toExpr with
    | none => "bad-request"
    | some none => "unsupported node kind"
    | some (some e) =>
      if !e.supported then "unsupported literal" else
      let pieces? : Option (List Piece × Terminator) :=
        if ctx == "ret" || ctx == "stmt" then some (fmtExpr e, .Standard)
        else if ctx == "init" then some (fmtInit e, .Sequence)
        else if ctx == "arg" then some (fmtSub e callArgPrec callArgSide, callArgTerminator)
        else if ctx == "idx" then some (fmtSub e precArraySubscript subIndexSide, subscriptTerminator)
        else none
      match pieces? with
      | none => "bad-request"
      | some (pieces, term) =>
        let ts := toks pieces
        if templateShape ts then "unsupported template-argument attempt" else
        if gluedIntPeriod pieces || ts.any (fun t => match t with | .lit l => litTooLarge l | _ => false)
        then render pieces ++ " ==> ERR:lex" else
        let back := match parseAll term ts with
          | some (e', []) => showExpr e'
          | _ => "ERR:parse"
        render pieces ++ " ==> " ++ back
  | _, _ => "unsupported-op"

end RsslVerif.Driver.C09

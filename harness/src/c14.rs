//! C14: layout trivia never changes results and diagnostics track source positions.
//!
//! requests
//!   C14.locate \t <files> \t <raw location>
//!       observe: `<file index>:<offset> <name>:<line>:<col>` | `none <unknown>`   (real SourceManager)
//!   C14.srcloc \t <files> \t <file index> \t <offset>
//!       observe: `ok:<raw>` | `panic`                      (get_source_location_from_file_offset)
//!   C14.render \t <files> \t <raw location> \t <error|note> \t <hex message>
//!       observe: `ok:<hex of the rendered text>` | `panic`  (MessagePrinter::write_message)
//!   C14.meta \t <tgt> \t <all|nopipeline> \t <files> \t <edited file index> \t <edits> \t <base> \t <track> \t <tag>
//!       files : `hexname:hexcontents,...` (first = entry file);  edits: `off:hextext;...` insertions in
//!               original coordinates, ascending;  base: verdict of the unedited program
//!               (`ok` | `err:-` | `err:<file>:<offset>` | `err:?` | `panic`), recomputed on every run;
//!               track: `y` when the property's oracle held (the model predicts the position then);
//!               tag: free text describing where the case came from (ignored)
//!       observe: `ok` | `err -` | `err <name>:<line>:<col>` | `err ?` | `panic <site>` for the edited program
//!   C14.disk \t <tgt> \t <root>|<entry> \t <file name> \t <edits> \t <base> \t <track> \t <tag>
//!       the same on one of the repository's own multi-file inputs (files are read from disk)
//! oracle (property's own words, independent of the Lean model):
//!   accepted program: the edited program is accepted with byte-identical source, stages, metadata;
//!   rejected program: the edited program is rejected and its rendered diagnostic is the original one
//!   with every position replaced by the position of the same byte in the edited text (for k inserted
//!   lines: line + k, same column, same message, same file name; other files untouched); every
//!   diagnostic names a loaded file and shows that file's own line.
use crate::compile_util::*;
use crate::progen::*;
use crate::util::*;
use rssl::text::tokens::Token;

/// the C07 worker's families of rejected programs (every TyperError / ParseError / PreprocessError / LexerError
/// variant they could reach); compiled into this module a second time, nothing in c07.rs is touched
#[path = "c07_diag.rs"]
#[allow(dead_code)]
mod diag;
use rssl::text::{Locate, LocateEnd, SourceLocation, SourceManager, StreamLocation};

// ------------------------------------------------------------------------------------------------
// encodings
// ------------------------------------------------------------------------------------------------

type Files = Vec<(String, String)>;
type Edits = Vec<(usize, String)>;

fn enc_files(files: &Files) -> String {
    if files.is_empty() {
        return "-".into();
    }
    files.iter().map(|(n, c)| format!("{}:{}", hex(n.as_bytes()), hex(c.as_bytes()))).collect::<Vec<_>>().join(",")
}

fn dec_files(s: &str) -> Option<Files> {
    if s == "-" {
        return Some(Vec::new());
    }
    let mut out = Vec::new();
    for item in s.split(',') {
        let (n, c) = item.split_once(':')?;
        out.push((String::from_utf8(unhex(n)?).ok()?, String::from_utf8(unhex(c)?).ok()?));
    }
    Some(out)
}

fn enc_edits(e: &Edits) -> String {
    if e.is_empty() {
        return "-".into();
    }
    e.iter().map(|(p, t)| format!("{}:{}", p, hex(t.as_bytes()))).collect::<Vec<_>>().join(";")
}

fn dec_edits(s: &str) -> Option<Edits> {
    if s == "-" {
        return Some(Vec::new());
    }
    let mut out = Vec::new();
    for item in s.split(';') {
        let (p, t) = item.split_once(':')?;
        out.push((p.parse().ok()?, String::from_utf8(unhex(t)?).ok()?));
    }
    Some(out)
}

/// insertions in original coordinates (ascending); equal offsets keep list order
fn apply_edits(text: &str, edits: &Edits) -> String {
    let mut out = String::with_capacity(text.len() + 64);
    let mut at = 0usize;
    for (p, t) in edits {
        let p = (*p).min(text.len());
        out.push_str(&text[at..p]);
        out.push_str(t);
        at = p;
    }
    out.push_str(&text[at..]);
    out
}

/// where byte `q` of the old text is after the insertions (text at an insertion point moves right)
fn move_through(edits: &Edits, q: usize) -> usize {
    q + edits.iter().filter(|(p, _)| *p <= q).map(|(_, t)| t.len()).sum::<usize>()
}

// ------------------------------------------------------------------------------------------------
// independent position arithmetic (the oracle's own)
// ------------------------------------------------------------------------------------------------

/// 1-based line and column of a byte offset: lines end at '\n', columns count bytes
fn line_col(text: &str, off: usize) -> (usize, usize) {
    let b = text.as_bytes();
    let mut line = 1;
    let mut last_nl: Option<usize> = None;
    for (i, c) in b.iter().enumerate().take(off) {
        if *c == b'\n' {
            line += 1;
            last_nl = Some(i);
        }
    }
    let col = match last_nl {
        Some(i) => off - i,
        None => off + 1,
    };
    (line, col)
}

fn offset_of(text: &str, line: usize, col: usize) -> Option<usize> {
    if line == 0 || col == 0 {
        return None;
    }
    let b = text.as_bytes();
    let mut start = 0usize;
    let mut cur = 1usize;
    while cur < line {
        let nl = b[start..].iter().position(|c| *c == b'\n')?;
        start += nl + 1;
        cur += 1;
    }
    let off = start + col - 1;
    // the position must lie on that line (or be its end)
    let line_end = b[start..].iter().position(|c| *c == b'\n').map(|n| start + n).unwrap_or(b.len());
    if off <= line_end { Some(off) } else { None }
}

fn line_text(text: &str, off: usize) -> String {
    let b = text.as_bytes();
    let off = off.min(b.len());
    let start = b[..off].iter().rposition(|c| *c == b'\n').map(|i| i + 1).unwrap_or(0);
    let end = b[off..].iter().position(|c| *c == b'\n').map(|n| off + n).unwrap_or(b.len());
    String::from_utf8_lossy(&b[start..end]).into_owned()
}

// ------------------------------------------------------------------------------------------------
// rendered diagnostics
// ------------------------------------------------------------------------------------------------

#[derive(Clone, Debug, PartialEq)]
struct Block {
    loc: Option<(String, usize, usize)>,
    sev: String,
    msg: String,
    /// source line and caret line
    src: Option<(String, String)>,
}

fn split_header(line: &str) -> Option<(Option<(String, usize, usize)>, String, String)> {
    let mut best: Option<(usize, &str)> = None;
    for sev in ["error", "note"] {
        let pat = format!(": {}: ", sev);
        if let Some(pos) = line.find(&pat) {
            if best.map(|(p, _)| pos < p).unwrap_or(true) {
                best = Some((pos, sev));
            }
        }
    }
    if let Some((pos, sev)) = best {
        let prefix = &line[..pos];
        let msg = line[pos + sev.len() + 4..].to_string();
        let mut it = prefix.rsplitn(3, ':');
        let (c, l, f) = (it.next(), it.next(), it.next());
        if let (Some(c), Some(l), Some(f)) = (c, l, f) {
            if let (Ok(c), Ok(l)) = (c.parse::<usize>(), l.parse::<usize>()) {
                return Some((Some((f.to_string(), l, c)), sev.to_string(), msg));
            }
        }
    }
    for sev in ["error", "note"] {
        if let Some(m) = line.strip_prefix(&format!("{}: ", sev)) {
            return Some((None, sev.to_string(), m.to_string()));
        }
    }
    None
}

/// Parse the text produced by `CompileErrorPrinter`; `None` when it is not a sequence of messages
fn parse_diag(s: &str) -> Option<Vec<Block>> {
    let mut lines: Vec<&str> = s.split('\n').collect();
    if lines.last() == Some(&"") {
        lines.pop();
    } else {
        return None;
    }
    let mut out = Vec::new();
    let mut i = 0;
    while i < lines.len() {
        let (loc, sev, msg) = split_header(lines[i])?;
        i += 1;
        let src = if loc.is_some() {
            if i + 1 < lines.len() {
                let r = (lines[i].to_string(), lines[i + 1].to_string());
                i += 2;
                Some(r)
            } else {
                return None;
            }
        } else {
            None
        };
        out.push(Block { loc, sev, msg, src });
    }
    if out.is_empty() { None } else { Some(out) }
}

fn render_block(b: &Block) -> String {
    let mut s = String::new();
    if let Some((f, l, c)) = &b.loc {
        s.push_str(&format!("{}:{}:{}: ", f, l, c));
    }
    s.push_str(&format!("{}: {}\n", b.sev, b.msg));
    if let Some((a, c)) = &b.src {
        s.push_str(a);
        s.push('\n');
        s.push_str(c);
        s.push('\n');
    }
    s
}

fn file_index(files: &Files, name: &str) -> Option<usize> {
    files.iter().position(|(n, _)| n == name)
}

/// the file a located message is in: the first file of that name in which the position exists and whose line is the
/// one the message shows (command-line defines are all called `<define>`); otherwise the first file of that name
fn find_file(files: &Files, name: &str, l: usize, c: usize, src: Option<&str>) -> Option<usize> {
    let fits = |fi: usize| match offset_of(&files[fi].1, l, c) {
        Some(off) => src.map_or(true, |s| line_text(&files[fi].1, off) == s),
        None => false,
    };
    (0..files.len()).find(|fi| files[*fi].0 == name && fits(*fi)).or_else(|| file_index(files, name))
}

/// Check that a diagnostic is consistent with the files it names, and give the (file, offset) of each block
fn diag_positions(blocks: &[Block], files: &Files) -> Result<Vec<Option<(usize, usize)>>, String> {
    let mut out = Vec::new();
    for b in blocks {
        match &b.loc {
            None => out.push(None),
            Some((f, l, c)) => {
                let Some(fi) = find_file(files, f, *l, *c, b.src.as_ref().map(|s| s.0.as_str())) else {
                    return Err(format!("[diagnostic names a file that was never loaded] '{}' ({}: {})", f, b.sev, b.msg));
                };
                let Some(off) = offset_of(&files[fi].1, *l, *c) else {
                    return Err(format!("[diagnostic position outside its file] {}:{}:{} ({})", f, l, c, b.msg));
                };
                if let Some((src, caret)) = &b.src {
                    let want = line_text(&files[fi].1, off);
                    if *src != want {
                        return Err(format!("[diagnostic shows a different source line] {}:{}:{} shows {:?}, the file has {:?}", f, l, c, src, want));
                    }
                    let want_caret = format!("{}^", " ".repeat(c - 1));
                    if *caret != want_caret {
                        return Err(format!("[caret not under the column] {}:{}:{} caret {:?}", f, l, c, caret));
                    }
                }
                out.push(Some((fi, off)));
            }
        }
    }
    Ok(out)
}

/// The diagnostic the edited program must produce: same messages, every position replaced by the
/// position of the same byte of the edited text
fn expected_diag(blocks: &[Block], pos: &[Option<(usize, usize)>], new_files: &Files, edited: usize, edits: &Edits) -> String {
    let mut s = String::new();
    for (b, p) in blocks.iter().zip(pos) {
        match p {
            None => s.push_str(&render_block(b)),
            Some((fi, off)) => {
                let noff = if *fi == edited { move_through(edits, *off) } else { *off };
                let text = &new_files[*fi].1;
                let (l, c) = line_col(text, noff);
                let nb = Block {
                    loc: Some((new_files[*fi].0.clone(), l, c)),
                    sev: b.sev.clone(),
                    msg: b.msg.clone(),
                    src: b.src.as_ref().map(|_| (line_text(text, noff), format!("{}^", " ".repeat(c - 1)))),
                };
                s.push_str(&render_block(&nb));
            }
        }
    }
    s
}

// ------------------------------------------------------------------------------------------------
// tokens and insertion points (from the real lexer)
// ------------------------------------------------------------------------------------------------

#[derive(Clone, Debug, PartialEq)]
enum K {
    Ws,
    Endline,
    Splice,
    LineComment,
    BlockComment,
    Hash,
    Id(String),
    LAngle,
    RAngle,
    LParen,
    RParen,
    Slash,
    Str,
    Other(String),
}

impl K {
    fn is_ws(&self) -> bool {
        matches!(self, K::Ws | K::Endline | K::Splice | K::LineComment | K::BlockComment)
    }
    fn name(&self) -> String {
        match self {
            K::Ws => "ws".into(),
            K::Endline => "endline".into(),
            K::Splice => "splice".into(),
            K::LineComment => "linecomment".into(),
            K::BlockComment => "blockcomment".into(),
            K::Hash => "hash".into(),
            K::Id(_) => "id".into(),
            K::LAngle => "langle".into(),
            K::RAngle => "rangle".into(),
            K::LParen => "lparen".into(),
            K::RParen => "rparen".into(),
            K::Slash => "slash".into(),
            K::Str => "string".into(),
            K::Other(s) => s.clone(),
        }
    }
}

#[derive(Clone, Debug)]
struct Tok {
    k: K,
    start: usize,
    end: usize,
}

fn short_token_name(t: &Token) -> String {
    let d = format!("{:?}", t);
    let head: String = d.chars().take_while(|c| c.is_ascii_alphanumeric()).collect();
    if head.starts_with("Literal") { "literal".into() } else { head.to_lowercase() }
}

fn kind_of(t: &Token, text: &str, start: usize) -> K {
    match t {
        Token::Whitespace => K::Ws,
        Token::Endline => K::Endline,
        Token::PhysicalEndline => K::Splice,
        Token::Comment => {
            if text[start..].starts_with("//") { K::LineComment } else { K::BlockComment }
        }
        Token::Hash => K::Hash,
        Token::Id(id) => K::Id(id.0.clone()),
        Token::LeftAngleBracket(_) => K::LAngle,
        Token::RightAngleBracket(_) => K::RAngle,
        Token::LeftParen => K::LParen,
        Token::RightParen => K::RParen,
        Token::ForwardSlash => K::Slash,
        Token::LiteralString(_) => K::Str,
        other => K::Other(short_token_name(other)),
    }
}

/// The real `TokenStream` run token by token (no directive handling): the tokens lexed before the end or
/// the first lexer error, and that error (reason, offset). A panic counts as an error at the point reached.
fn lex_raw(text: &str, trailing: bool) -> (Vec<(Token, usize, usize)>, Option<(String, usize)>) {
    use rssl_preprocess::verif::TokenStream;
    let mut ts = TokenStream::new(text, SourceLocation::first());
    if !trailing {
        ts = ts.suppress_trailing_endline();
    }
    let mut out = Vec::new();
    let mut err = None;
    while !ts.end_of_stream() {
        match guard(|| ts.next(false)) {
            Ok(Ok(t)) => out.push((t.0.clone(), t.get_location().get_raw() as usize, t.get_end_location().get_raw() as usize)),
            Ok(Err(e)) => {
                err = Some((format!("{:?}", e.reason), e.location.get_raw() as usize));
                break;
            }
            Err(p) => {
                err = Some((format!("panic {}", p), out.last().map(|t: &(Token, usize, usize)| t.2).unwrap_or(0)));
                break;
            }
        }
        if out.len() > text.len() + 2 {
            err = Some(("no-progress".into(), 0));
            break;
        }
    }
    (out, err)
}

/// Token spans of the part of a file that lexes, and whether that is the whole file. Lexed the way
/// `preprocess_included_file` drives the `TokenStream`: after `# include` the rest of the line is lexed in
/// header-name mode (`<a/b.h>` is one token, an unterminated `<abc` is a lexer error that ends the lexing).
fn lex_prefix(text: &str) -> (Vec<Tok>, bool) {
    use rssl_preprocess::verif::TokenStream;
    #[derive(PartialEq)]
    enum S {
        StartOfLine,
        CommandStart,
        CommandContents,
        Normal,
    }
    let mut ts = TokenStream::new(text, SourceLocation::first()).suppress_trailing_endline();
    let mut st = S::StartOfLine;
    let mut inside_include = false;
    let mut toks = Vec::new();
    let mut complete = true;
    while !ts.end_of_stream() {
        let t = match guard(|| ts.next(inside_include)) {
            Ok(Ok(t)) => t,
            _ => {
                complete = false;
                break;
            }
        };
        let (s, e) = (t.get_location().get_raw() as usize, t.get_end_location().get_raw() as usize);
        match (&t.0, &st) {
            (Token::Endline, _) => {
                st = S::StartOfLine;
                inside_include = false;
            }
            (Token::Hash, S::StartOfLine) => st = S::CommandStart,
            (tok, S::CommandStart) if !tok.is_whitespace() => {
                st = S::CommandContents;
                if let Token::Id(id) = tok {
                    if id.0 == "include" {
                        inside_include = true;
                    }
                }
            }
            (tok, S::StartOfLine) => {
                if !tok.is_whitespace() {
                    st = S::Normal;
                }
            }
            _ => {}
        }
        toks.push(Tok { k: kind_of(&t.0, text, s), start: s, end: e });
        if toks.len() > text.len() + 2 {
            complete = false;
            break;
        }
    }
    (toks, complete)
}

/// Token spans of a file from the real lexer (no directive handling); None when the file does not lex
fn lex_file(text: &str) -> Option<Vec<Tok>> {
    let (toks, complete) = lex_prefix(text);
    if complete { Some(toks) } else { None }
}

/// names of the function-like macros a file defines (`#define NAME(`)
fn fn_macro_names(toks: &[Tok]) -> Vec<String> {
    let mut out = Vec::new();
    for i in 0..toks.len() {
        if toks[i].k == K::Id("define".into()) && i >= 1 {
            // # [ws] define ws NAME (
            let mut j = i + 1;
            while j < toks.len() && matches!(toks[j].k, K::Ws | K::BlockComment | K::Splice) {
                j += 1;
            }
            if let (Some(Tok { k: K::Id(name), .. }), Some(next)) = (toks.get(j), toks.get(j + 1)) {
                if next.k == K::LParen {
                    out.push(name.clone());
                }
            }
        }
    }
    out
}

fn all_fn_macros(files: &Files) -> Vec<String> {
    let mut out = Vec::new();
    for (_, text) in files {
        if let Some(t) = lex_file(text) {
            out.extend(fn_macro_names(&t));
        }
    }
    out.sort();
    out.dedup();
    out
}

#[derive(Clone, Debug)]
struct Boundary {
    off: usize,
    /// trivia containing a logical line break may be inserted here
    newline_ok: bool,
    /// a comment must be separated from the preceding `/`
    after_slash: bool,
    /// the previous token is a real end of line (or this is offset 0): a place to insert whole lines
    line_start: bool,
    /// `prev>next` kinds plus flags, for the statistics and the finding keys
    ctx: String,
}

/// Insertion points of a file under the rules of the property: every token boundary except directly
/// after `<` / `>`, between a macro name and `(` in a `#define`, after a line comment (the text would
/// join the comment) and inside the argument of `#include`; directive lines take no line breaks.
fn boundaries(text: &str, toks: &[Tok], known_fn_macros: &[String]) -> Vec<Boundary> {
    let n = toks.len();
    // directive membership, `#define` name positions and function-like macro names
    let mut in_dir = vec![false; n];
    let mut dir_name: Vec<Option<String>> = vec![None; n];
    let mut fn_macros: Vec<String> = known_fn_macros.to_vec();
    let mut define_name_tok: Vec<bool> = vec![false; n];
    let mut include_arg: Vec<bool> = vec![false; n];
    let mut header_close: Vec<bool> = vec![false; n];
    {
        #[derive(PartialEq)]
        enum S {
            StartOfLine,
            CommandStart,
            CommandContents,
            Normal,
        }
        let mut st = S::StartOfLine;
        let mut cur_dir: Option<String> = None;
        let mut seen_after_name = 0usize;
        let mut header_open = false;
        for i in 0..n {
            let k = &toks[i].k;
            match (k, &st) {
                (K::Endline, S::CommandContents) | (K::Endline, S::CommandStart) => {
                    header_open = false;
                    in_dir[i] = true;
                    dir_name[i] = cur_dir.clone();
                    st = S::StartOfLine;
                    cur_dir = None;
                }
                (K::Endline, _) => st = S::StartOfLine,
                (K::Hash, S::StartOfLine) => {
                    st = S::CommandStart;
                    in_dir[i] = true;
                    cur_dir = Some(String::new());
                    seen_after_name = 0;
                }
                (k, S::CommandStart) => {
                    in_dir[i] = true;
                    if !k.is_ws() {
                        st = S::CommandContents;
                        cur_dir = Some(match k {
                            K::Id(s) => s.clone(),
                            K::Other(s) => s.clone(),
                            k => k.name(),
                        });
                    }
                    dir_name[i] = cur_dir.clone();
                }
                (k, S::CommandContents) => {
                    in_dir[i] = true;
                    dir_name[i] = cur_dir.clone();
                    if !k.is_ws() {
                        seen_after_name += 1;
                        if cur_dir.as_deref() == Some("define") && seen_after_name == 1 {
                            define_name_tok[i] = true;
                            if let (K::Id(name), Some(next)) = (k, toks.get(i + 1)) {
                                if next.k == K::LParen {
                                    fn_macros.push(name.clone());
                                }
                            }
                        }
                    }
                    // `#include <a/b.h>`: the preprocessor lexes `<a/b.h>` as one HeaderName token (our plain
                    // lexing splits it): its inner boundaries are not token boundaries, the one after `>` is
                    if cur_dir.as_deref() == Some("include") && seen_after_name >= 1 {
                        if seen_after_name == 1 && *k == K::LAngle {
                            header_open = true;
                        }
                        if header_open {
                            if *k == K::RAngle {
                                header_close[i] = true;
                                header_open = false;
                            } else {
                                include_arg[i] = true;
                            }
                        }
                    }
                }
                (k, S::StartOfLine) => {
                    if !k.is_ws() {
                        st = S::Normal;
                    }
                }
                _ => {}
            }
        }
    }
    // gaps between a function-like macro name and the `(` of an invocation; argument lists
    let mut call_gap = vec![false; n + 1]; // indexed by boundary = index of the next token
    let mut in_args = vec![false; n + 1];
    let mut empty_args = vec![false; n + 1];
    for i in 0..n {
        if in_dir[i] {
            continue;
        }
        if let K::Id(name) = &toks[i].k {
            if fn_macros.contains(name) {
                let mut j = i + 1;
                while j < n && toks[j].k.is_ws() {
                    j += 1;
                }
                if j < n && toks[j].k == K::LParen {
                    for b in (i + 1)..=j {
                        call_gap[b] = true;
                    }
                    let mut depth = 0i32;
                    let mut m = j;
                    while m < n {
                        match toks[m].k {
                            K::LParen => depth += 1,
                            K::RParen => {
                                depth -= 1;
                                if depth == 0 {
                                    break;
                                }
                            }
                            _ => {}
                        }
                        m += 1;
                    }
                    let empty = m < n && toks[j + 1..m].iter().all(|t| t.k.is_ws());
                    for b in (j + 1)..=m.min(n) {
                        in_args[b] = true;
                        if empty {
                            empty_args[b] = true;
                        }
                    }
                }
            }
        }
    }
    // `1.xxx`: the float part of a swizzled numeric literal; an insertion inside it (after the `.`) is at a token
    // boundary of the lexer (`1` `.` `xxx`) but turns `1.` into a floating literal
    let mut in_swizzled = vec![false; n + 1];
    for i in 0..n {
        if toks[i].k == K::Other("literal".into()) {
            if let Some(len) = swizzled_literal(&text.as_bytes()[toks[i].start..]) {
                let (lo, hi) = (toks[i].start, toks[i].start + len);
                for b in (i + 1)..=n {
                    let off = if b < n { toks[b].start } else { toks[n - 1].end };
                    if off > lo && off <= hi {
                        in_swizzled[b] = true;
                    }
                }
            }
        }
    }
    // a `#` that is the first token of a line starts a directive (by design, as in C): a line break may not be put
    // in front of a stray `#` in the middle of a line (such a `#` only occurs in rejected programs)
    let mut before_stray_hash = vec![false; n + 1];
    for h in 0..n {
        if toks[h].k == K::Hash && !in_dir[h] {
            let mut b = h;
            loop {
                before_stray_hash[b] = true;
                if b == 0 || !matches!(toks[b - 1].k, K::Ws | K::BlockComment | K::Splice) {
                    break;
                }
                b -= 1;
            }
        }
    }
    let mut out = Vec::new();
    for b in 0..=n {
        let prev = if b > 0 { Some(&toks[b - 1]) } else { None };
        let next = toks.get(b);
        let off = match (prev, next) {
            (_, Some(t)) => t.start,
            (Some(p), None) => p.end,
            (None, None) => 0,
        };
        if let Some(p) = prev {
            if matches!(p.k, K::LAngle | K::RAngle | K::LineComment) && !header_close[b - 1] {
                continue;
            }
            // zero-width tokens do not occur, but never insert inside a token
            if p.end != off {
                continue;
            }
            if define_name_tok[b - 1] && next.map(|t| t.k == K::LParen).unwrap_or(false) {
                continue;
            }
            if include_arg[b - 1] {
                continue;
            }
        }
        let dir = prev.map(|p| in_dir[b - 1] && p.k != K::Endline).unwrap_or(false);
        let line_start = prev.map(|p| p.k == K::Endline).unwrap_or(true);
        let mut ctx = format!(
            "{}>{}",
            prev.map(|p| p.k.name()).unwrap_or_else(|| "start".into()),
            next.map(|t| t.k.name()).unwrap_or_else(|| "end".into())
        );
        if dir {
            let d = dir_name[b - 1].clone().unwrap_or_default();
            ctx.push_str(&format!(" dir:{}", if d.is_empty() { "(before-name)" } else { d.as_str() }));
        }
        if in_swizzled[b] {
            ctx.push_str(" swizzled-literal");
        }
        if call_gap[b] {
            ctx.push_str(" macro-call-gap");
        } else if empty_args[b] {
            ctx.push_str(" macro-args-empty");
        } else if in_args[b] {
            ctx.push_str(" macro-args");
        }
        out.push(Boundary {
            off,
            newline_ok: !dir && !before_stray_hash[b],
            after_slash: prev.map(|p| p.k == K::Slash).unwrap_or(false),
            line_start,
            ctx,
        });
    }
    out
}

const TRIVIA_INLINE: &[(&str, &[&str])] = &[
    ("space", &[" ", "  ", "    "]),
    ("tab", &["\t", "\t\t"]),
    ("block-comment", &["/* c */", "/**/", "/* a * b / c // d */"]),
    ("splice", &["\\\n", "\\\r\n", " \\\n "]),
    ("mixed-inline", &[" /* c */\t", "\t/**/ "]),
    // a comment that spans lines is still one whitespace token: no logical line break, allowed inside directives
    ("block-comment-multiline", &["/* l1\n   l2 */", "/*\n*/", "/* a\r\n b */"]),
];
const TRIVIA_NEWLINE: &[(&str, &[&str])] = &[
    ("newline", &["\n", "\n\n", "\r\n"]),
    ("line-comment", &["// note\n", "//\n", " // a /* b\n", "// crlf\r\n"]),
    // a line comment continued over a spliced line break is still one comment
    ("line-comment-spliced", &["// first \\\n second\n", "// a \\\r\n b \\\n c\r\n"]),
    ("mixed-newline", &[" // c\n\t/* d */ \n"]),
];

/// the kinds of the invocation sweep (one representative each)
const SWEEP_TRIVIA: &[(&str, &str)] = &[
    ("space", " "),
    ("tab", "\t"),
    ("block-comment", "/* c */"),
    ("line-comment", "// c\n"),
    ("newline", "\n"),
    ("crlf", "\r\n"),
    ("splice", "\\\n"),
    ("multi-line-comment", "/* a\n b */"),
];

fn pick_trivia(rng: &mut Rng, b: &Boundary) -> (String, String) {
    let use_nl = b.newline_ok && rng.chance(1, 2);
    let table = if use_nl { TRIVIA_NEWLINE } else { TRIVIA_INLINE };
    let (class, texts) = rng.pick(table);
    let mut t = rng.pick(texts).to_string();
    let mut class = *class;
    // one insertion in four is a comment with a random body over an alphabet of characters that matter to the lexer
    // (`/*/ x */`, `/***/`, `/* " ' \\ # */`, `// /* "`): a comment is one token whatever it contains
    if rng.chance(1, 4) {
        const ALPHA: &[&str] = &["/", "*", " ", "a", "\"", "'", "\\", "#", "<", ">", "(", "//", "/*", "0", "\t", "\r", "\u{c}", "\u{a0}", "\u{feff}"];
        let mut body = String::new();
        for _ in 0..rng.below(6) {
            body.push_str(*rng.pick(ALPHA));
        }
        if use_nl && rng.chance(1, 2) {
            // line comment: must not end in a backslash (that would splice the next line into the comment)
            // (nor in backslash + CR: with the newline that is a spliced CRLF)
            while body.ends_with('\\') || body.ends_with("\\\r") {
                body.pop();
            }
            class = "random-line-comment";
            t = format!("//{}\n", body);
        } else {
            // a line break inside a block comment is not a logical line break (allowed on directive lines too)
            if rng.chance(1, 3) {
                body.push('\n');
            }
            let body = body.replace("*/", "* /");
            class = "random-block-comment";
            // `/*` + body + `*/`: a body ending in `*` is fine (`/***/`), a body starting with `/` gives `/*/ .. */`
            t = format!("/*{}*/", body);
            if use_nl {
                t.push('\n');
            }
        }
    }
    if b.after_slash && t.starts_with('/') {
        t.insert(0, ' ');
    }
    (class.to_string(), t)
}

fn pad_lines(rng: &mut Rng, k: usize) -> String {
    let mut s = String::new();
    for i in 0..k {
        match rng.below(5) {
            0 => s.push_str(&format!("// padding line {}", i)),
            1 => s.push_str("   "),
            2 => s.push_str("/* pad */"),
            3 => s.push_str("\t// x"),
            _ => {}
        }
        s.push('\n');
    }
    s
}

// ------------------------------------------------------------------------------------------------
// the metamorphic case
// ------------------------------------------------------------------------------------------------

/// compile options of a case: pipeline mode, validate_layout_consistency, and how many of the leading entries of
/// the file list are command-line defines (`CompileArgs::defines`): the compiler loads each as a file named
/// `<define>` with the contents `NAME VALUE` *before* the entry file, so that is how the request carries them
#[derive(Clone)]
struct Opts {
    mode: Mode,
    layout: bool,
    ndefs: usize,
}

const DEFINE_FILE: &str = "<define>";

/// `all` | `nopipeline`, optionally followed by `+layout` (validate_layout_consistency) and `+defs<n>`
fn parse_mode(s: &str) -> Option<Opts> {
    let mut parts = s.split('+');
    let mode = match parts.next()? {
        "all" => Mode::All,
        "nopipeline" => Mode::NoPipeline,
        _ => return None,
    };
    let mut o = Opts { mode, layout: false, ndefs: 0 };
    for p in parts {
        if p == "layout" {
            o.layout = true;
        } else if let Some(n) = p.strip_prefix("defs") {
            o.ndefs = n.parse().ok()?;
        } else {
            return None;
        }
    }
    Some(o)
}

fn show_mode(o: &Opts) -> String {
    format!("{}{}{}", o.mode.show(), if o.layout { "+layout" } else { "" }, if o.ndefs > 0 { format!("+defs{}", o.ndefs) } else { String::new() })
}

fn compile_files(files: &Files, tgt: Tgt, o: &Opts) -> CompileOutcome {
    let nd = o.ndefs.min(files.len().saturating_sub(1));
    let defs: Vec<(&str, &str)> = files[..nd].iter().map(|(_, t)| t.split_once(' ').unwrap_or((t.as_str(), ""))).collect();
    let real: Files = files[nd..].to_vec();
    compile(&Job { entry: &real[0].0, files: &real, defines: &defs, target: tgt, mode: o.mode.clone(), validate_layout: o.layout })
}

struct Verdict {
    /// value of the `base` request field
    base: String,
    /// observation string for an outcome
    obs: String,
}

fn first_header(e: &str, files: &Files) -> (String, String) {
    match parse_diag(e) {
        None => ("err:?".into(), "err ?".into()),
        Some(blocks) => match &blocks[0].loc {
            None => ("err:-".into(), "err -".into()),
            Some((f, l, c)) => {
                let obs = format!("err {}:{}:{}", f, l, c);
                match find_file(files, f, *l, *c, blocks[0].src.as_ref().map(|s| s.0.as_str())).and_then(|fi| offset_of(&files[fi].1, *l, *c).map(|o| (fi, o))) {
                    Some((fi, o)) => (format!("err:{}:{}", fi, o), obs),
                    None => ("err:?".into(), obs),
                }
            }
        },
    }
}

fn verdict(o: &CompileOutcome, files: &Files) -> Verdict {
    match o {
        CompileOutcome::Ok(_) => Verdict { base: "ok".into(), obs: "ok".into() },
        CompileOutcome::Err(e) => {
            let (base, obs) = first_header(e, files);
            Verdict { base, obs }
        }
        CompileOutcome::Panic(p) => Verdict { base: "panic".into(), obs: format!("panic {}", p) },
    }
}

fn clip(s: &str, n: usize) -> String {
    let t: String = s.chars().take(n).collect();
    one_line(&t)
}

/// The property's oracle for one edit of one file. `ctxs` describes the insertion points (for the
/// failure text). Returns Ok(()) or the failure detail.
fn judge(
    files: &Files,
    new_files: &Files,
    edited: usize,
    edits: &Edits,
    base: &CompileOutcome,
    after: &CompileOutcome,
    lines_mode: Option<(usize, usize)>,
) -> Result<(), String> {
    match (base, after) {
        (CompileOutcome::Ok(a), CompileOutcome::Ok(b)) => {
            if a == b {
                Ok(())
            } else if a.len() != b.len() {
                Err(format!("output-changed: accepted program: {} pipelines became {}", a.len(), b.len()))
            } else {
                let i = (0..a.len()).find(|i| a[*i] != b[*i]).unwrap();
                let what = if a[i].data != b[i].data {
                    "emitted source"
                } else if a[i].stages != b[i].stages {
                    "stages"
                } else if a[i].metadata != b[i].metadata {
                    "metadata"
                } else {
                    "pipeline state"
                };
                Err(format!("output-changed: accepted program: {} of pipeline {} changed", what, i))
            }
        }
        (CompileOutcome::Ok(_), CompileOutcome::Err(e)) => Err(format!("accepted-now-rejected: {}", clip(e, 160))),
        (CompileOutcome::Err(e), CompileOutcome::Ok(_)) => Err(format!("rejected-now-accepted: was {}", clip(e, 160))),
        (CompileOutcome::Panic(a), CompileOutcome::Panic(b)) => {
            if a == b { Ok(()) } else { Err(format!("panic-changed: {} -> {}", a, b)) }
        }
        (CompileOutcome::Panic(a), _) => Err(format!("panic-changed: program that panicked ({}) no longer does", a)),
        (_, CompileOutcome::Panic(b)) => Err(format!("panic {}", b)),
        (CompileOutcome::Err(e0), CompileOutcome::Err(e1)) => {
            let Some(blocks) = parse_diag(e0) else {
                // not a positioned diagnostic (e.g. "Shader does not contain a single pipeline")
                return if e0 == e1 { Ok(()) } else { Err(format!("diagnostic-changed: error text changed: {} -> {}", clip(e0, 100), clip(e1, 100))) };
            };
            let pos = diag_positions(&blocks, files)?;
            let want = expected_diag(&blocks, &pos, new_files, edited, edits);
            if *e1 != want {
                let got_blocks = parse_diag(e1);
                let what = match &got_blocks {
                    Some(g) if g.len() == blocks.len() => {
                        let mut w = String::from("diagnostic text");
                        for (a, b) in blocks.iter().zip(g) {
                            if a.msg != b.msg || a.sev != b.sev {
                                w = "message".into();
                                break;
                            }
                            if a.loc.as_ref().map(|l| &l.0) != b.loc.as_ref().map(|l| &l.0) {
                                w = "file name".into();
                                break;
                            }
                        }
                        if w == "diagnostic text" { "position".into() } else { w }
                    }
                    _ => "structure".to_string(),
                };
                return Err(format!("diagnostic-{}-wrong: got {} expected {}", what.replace(' ', "-"), clip(e1, 200), clip(&want, 200)));
            }
            // the property's own wording for inserted lines: line + k, same column, message and file
            if let Some((p, k)) = lines_mode {
                let got = parse_diag(e1).ok_or_else(|| "diagnostic of the edited program does not parse".to_string())?;
                if got.len() != blocks.len() {
                    return Err("diagnostic-structure-wrong: number of messages changed".into());
                }
                for ((a, b), q) in blocks.iter().zip(&got).zip(&pos) {
                    if a.msg != b.msg || a.sev != b.sev {
                        return Err(format!("diagnostic-message-wrong: {} -> {}", a.msg, b.msg));
                    }
                    match (&a.loc, &b.loc, q) {
                        (Some((f0, l0, c0)), Some((f1, l1, c1)), Some((fi, off))) => {
                            let shift = if *fi == edited && *off >= p { k } else { 0 };
                            if f0 != f1 || c0 != c1 || *l1 != *l0 + shift {
                                return Err(format!("diagnostic-position-wrong: inserted {} lines: {}:{}:{} became {}:{}:{}", k, f0, l0, c0, f1, l1, c1));
                            }
                        }
                        (None, None, _) => {}
                        _ => return Err("diagnostic-structure-wrong: a message gained or lost its position".into()),
                    }
                }
            }
            Ok(())
        }
    }
}

struct MetaResult {
    request: String,
    obs: String,
    oracle: String,
    failed: bool,
}

/// Run one metamorphic case. `describe` maps an edit list to the description of its insertion points.
fn run_meta_files(
    op_prefix: &str,
    files: &Files,
    edited: usize,
    edits: &Edits,
    tag: &str,
    compile_fn: &dyn Fn(&Files) -> CompileOutcome,
    base: &CompileOutcome,
    lines_mode: Option<(usize, usize)>,
    ctx_of: &dyn Fn(&Edits) -> String,
) -> MetaResult {
    let mut new_files = files.clone();
    new_files[edited].1 = apply_edits(&files[edited].1, edits);
    let after = compile_fn(&new_files);
    let v0 = verdict(base, files);
    let v1 = verdict(&after, &new_files);
    let mut judged = judge(files, &new_files, edited, edits, base, &after, lines_mode);
    let mut culprit = edits.clone();
    if judged.is_err() && edits.len() > 1 {
        // find a single insertion that is enough to break the property (keys and reports name one place)
        for e in edits {
            let one = vec![e.clone()];
            let mut nf = files.clone();
            nf[edited].1 = apply_edits(&files[edited].1, &one);
            let a = compile_fn(&nf);
            if let Err(d) = judge(files, &nf, edited, &one, base, &a, None) {
                judged = Err(d);
                culprit = one;
                break;
            }
        }
    }
    let (oracle, failed) = match &judged {
        Ok(()) => ("ok".to_string(), false),
        Err(d) => {
            let d = if d.starts_with('[') { d.clone() } else { format!("[{}] {}", ctx_of(&culprit), d) };
            (format!("FAIL:{}", d), true)
        }
    };
    let request = format!(
        "{}\t{}\t{}\t{}\t{}\t{}",
        op_prefix,
        edited_field(op_prefix, files, edited),
        enc_edits(edits),
        v0.base,
        if failed { "n" } else { "y" },
        tag
    );
    MetaResult { request, obs: v1.obs, oracle, failed }
}

/// a case without an edit: the diagnostic of the program itself must be at the given place
fn run_anchor(prefix: &str, files: &Files, base: &CompileOutcome, anchor: (usize, usize, usize), tag: &str) -> MetaResult {
    run_anchor_block(prefix, files, base, 0, anchor, tag)
}

fn run_anchor_block(prefix: &str, files: &Files, base: &CompileOutcome, block: usize, anchor: (usize, usize, usize), tag: &str) -> MetaResult {
    let v = verdict(base, files);
    let judged = anchor_check_block(files, base, block, anchor);
    let (oracle, failed) = match &judged {
        Ok(()) => ("ok".to_string(), false),
        Err(d) => (format!("FAIL:{}", d), true),
    };
    let request = format!("{}\t{}\t-\t{}\t{}\t{}", prefix, anchor.0, v.base, if failed { "n" } else { "y" }, tag);
    MetaResult { request, obs: v.obs, oracle, failed }
}

fn edited_field(op_prefix: &str, files: &Files, edited: usize) -> String {
    if op_prefix.starts_with("C14.disk") { files[edited].0.clone() } else { format!("{}", edited) }
}

/// description of the insertion points of an edit list: class of the inserted text and token context
fn describe_edits(text: &str, edits: &Edits, macros: &[String]) -> String {
    let (toks, _) = lex_prefix(text);
    let bs = boundaries(text, &toks, macros);
    let mut parts = Vec::new();
    for (p, t) in edits.iter().take(3) {
        let ctx = bs.iter().find(|b| b.off == *p).map(|b| b.ctx.clone()).unwrap_or_else(|| "not-a-boundary".into());
        parts.push(format!("{} at {}", trivia_class(t), ctx));
    }
    if edits.len() > 3 {
        parts.push(format!("+{} more", edits.len() - 3));
    }
    parts.join("; ")
}

fn trivia_class(t: &str) -> &'static str {
    let has_nl = {
        // a line break that is not spliced and not inside a block comment
        let mut i = 0;
        let b = t.as_bytes();
        let mut found = false;
        let mut in_block = false;
        while i < b.len() {
            if in_block {
                if b[i..].starts_with(b"*/") {
                    in_block = false;
                    i += 2;
                    continue;
                }
            } else if b[i..].starts_with(b"/*") {
                in_block = true;
                i += 2;
                continue;
            } else if b[i..].starts_with(b"//") {
                // up to the line break
                while i < b.len() && b[i] != b'\n' {
                    i += 1;
                }
                continue;
            } else if b[i..].starts_with(b"\\\n") {
                i += 2;
                continue;
            } else if b[i..].starts_with(b"\\\r\n") {
                i += 3;
                continue;
            } else if b[i] == b'\n' {
                found = true;
            }
            i += 1;
        }
        found
    };
    if has_nl {
        "line-break"
    } else if t.contains("\\\n") || t.contains("\\\r\n") {
        "splice"
    } else if t.contains("/*") && t.contains('\n') {
        "multi-line-comment"
    } else if t.contains("/*") {
        "comment"
    } else {
        "blank"
    }
}

// ------------------------------------------------------------------------------------------------
// program sources
// ------------------------------------------------------------------------------------------------

const INJECT_KINDS: &[&str] = &[
    "none", "none", "none", "none", "none", "none", "none", "none", "none", "undefined-identifier", "type-mismatch", "missing-semicolon", "unknown-directive",
    "unknown-type", "bad-call", "missing-include", "unknown-pragma", "macro-body-error", "stray-else",
    "macro-arity", "concat-undefined", "lexer-error", "unclosed-brace",
];

/// line starts inside function bodies (after a line ending with `) {`) and at top level (before a
/// line starting a declaration), as byte offsets
fn injection_points(text: &str) -> (Vec<usize>, Vec<usize>) {
    let mut body = Vec::new();
    let mut top = Vec::new();
    let mut off = 0usize;
    let mut depth = 0i32;
    for line in text.split_inclusive('\n') {
        let t = line.trim_end();
        if depth == 0 && !t.is_empty() && !line.starts_with(' ') && !line.starts_with('{') && !line.starts_with('}') && !line.starts_with('#') && !line.starts_with(')') {
            top.push(off);
        }
        for c in line.chars() {
            match c {
                '{' => depth += 1,
                '}' => depth -= 1,
                _ => {}
            }
        }
        if t.ends_with(") {") && depth == 1 {
            body.push(off + line.len());
        }
        off += line.len();
    }
    (body, top)
}

/// Insert one erroneous construct; returns false when the file has no suitable place
fn inject(rng: &mut Rng, files: &mut Files, fi: usize, kind: &str) -> bool {
    let (body, top) = injection_points(&files[fi].1);
    let n = rng.below(1000);
    let (at, text): (Option<usize>, String) = match kind {
        "undefined-identifier" => (pick_opt(rng, &body), format!("    int q{} = not_declared_{} + 1;\n", n, n)),
        "type-mismatch" => (pick_opt(rng, &body), format!("    float4x4 m{} = float3(1, 2, 3);\n", n)),
        "missing-semicolon" => (pick_opt(rng, &body), format!("    int q{} = {}\n", n, n)),
        "unknown-directive" => (pick_opt(rng, &[body.clone(), top.clone()].concat()), format!("#frobnicate {}\n", n)),
        "unknown-type" => (pick_opt(rng, &top), format!("NoSuchType{} g_bad{};\n", n, n)),
        "bad-call" => (pick_opt(rng, &body), format!("    float f{} = dot(1.0, 2.0, 3.0, {});\n", n, n)),
        "missing-include" => (pick_opt(rng, &top), format!("#include \"missing{}.rssl\"\n", n)),
        "unknown-pragma" => (pick_opt(rng, &top), "#pragma frobnicate all\n".to_string()),
        "macro-body-error" => {
            // definition at top level, use inside a function: the diagnostic points into the #define line
            let Some(t) = pick_opt(rng, &top) else { return false };
            let Some(b) = pick_opt(rng, &body) else { return false };
            let (first, second) = if t <= b { (t, b) } else { return false };
            let s = &mut files[fi].1;
            s.insert_str(second, &format!("    int q{} = BAD_BODY_{};\n", n, n));
            s.insert_str(first, &format!("#define BAD_BODY_{} (1 + not_declared_in_macro)\n", n));
            return true;
        }
        "stray-else" => (pick_opt(rng, &top), "#else\n".to_string()),
        "macro-arity" => {
            let Some(t) = pick_opt(rng, &top) else { return false };
            let Some(b) = pick_opt(rng, &body) else { return false };
            if t > b {
                return false;
            }
            let s = &mut files[fi].1;
            s.insert_str(b, &format!("    int q{} = TWO_ARGS_{}(1);\n", n, n));
            s.insert_str(t, &format!("#define TWO_ARGS_{}(a, b) ((a) + (b))\n", n));
            return true;
        }
        "concat-undefined" => {
            let Some(t) = pick_opt(rng, &top) else { return false };
            let Some(b) = pick_opt(rng, &body) else { return false };
            if t > b {
                return false;
            }
            let s = &mut files[fi].1;
            s.insert_str(b, &format!("    int q{} = GLUE_{}(not_decl, ared_{});\n", n, n, n));
            s.insert_str(t, &format!("#define GLUE_{}(a, b) a##b\n", n));
            return true;
        }
        "lexer-error" => (pick_opt(rng, &body), format!("    int q{} = 1 $ 2;\n", n)),
        "unclosed-brace" => (pick_opt(rng, &top), format!("struct Open{} {{ float x;\n", n)),
        _ => return true,
    };
    match at {
        Some(at) => {
            files[fi].1.insert_str(at, &text);
            true
        }
        None => false,
    }
}

fn pick_opt(rng: &mut Rng, xs: &[usize]) -> Option<usize> {
    if xs.is_empty() { None } else { Some(*rng.pick(xs)) }
}

/// hand-written small programs that put the sensitive constructs next to each other
const SNIPPETS: &[&str] = &[
    "#define F(x) ((x) + 1)\nint f(int a) {\n    return F(a) + F (a) + F\t(a);\n}\n",
    "#define Z() 7\n#define PAIR(a, b) a, b\nint g2(int a, int b) { return a + b; }\nint f() {\n    return Z() + g2(PAIR(1, 2));\n}\n",
    "#define CAT(a, b) a##b\nint f(int xy) {\n    int CAT(v, 1) = xy;\n    return CAT(x, y) + v1;\n}\n",
    "template<typename T> T ident(T v) { return v; }\nint f(int a) {\n    vector<int, 2> v = int2(a, a);\n    return ident<int>(a) >> 1 << 2 > 3 ? v.x : a >= 2 ? 1 : 0;\n}\n",
    "#if defined(A) || !defined(B)\nstatic const int k = 1;\n#elif 0\nstatic const int k = 2;\n#else\nstatic const int k = 3;\n#endif\nint f() { return k; }\n",
    "struct S { float4 a; float b[2]; };\nStructuredBuffer<S> g_s;\nRWTexture2D<float4> g_o;\n[numthreads(8, 8, 1)]\nvoid cs(uint3 id : SV_DispatchThreadID) {\n    S s = g_s[id.x];\n    g_o[id.xy] = s.a * s.b[1] + float4(1.0f, 2., .5, 1e3);\n}\n",
    "int f(int a) {\n    // line comment ending in a backslash would splice \\ here\n    int b = a /* inline */ + 1;\n    /* multi\n       line */\n    return b--- -a;\n}\n",
    "#define STR_JOIN(a) a\nstatic const int k = STR_JOIN(\n    1 +\n    2\n);\nint f() { return k; }\n",
    "#define OBJ (1 + 2)\n#define FN(a) (a * OBJ)\nint f(int x) {\n    int FN = 3;\n    return FN + FN(x);\n}\n",
    "enum E { A = 1, B = A << 2, C = B >> 1 };\nint f() { return (int)B < (int)C ? 1 : 2; }\n",
    // swizzles of numeric literals: `1.xxx` is the integer 1, `.`, `xxx`
    "float3 f(float a) {\n    float3 v = 1.xxx;\n    float2 w = 2.xx + 3.xx;\n    return v * a + w.xyx + 4.0.xxx;\n}\n",
    "static const uint k = 0x1Fu + 017 + 1ul + 2LU;\nstatic const float h = 1.5h + 2.0f + 1e3 + 1.e+2 + 0.5e-1f + 1.#INF;\nstatic const double d = 3.0L;\nint f(int x) { return x+++x - -x + (x<x?x:x) % 2 / 2; }\n",
];


// ------------------------------------------------------------------------------------------------
// hand-written families: diagnostics inside macro expansions, notes across files, file shapes
// ------------------------------------------------------------------------------------------------

/// families of this module: `mx_*` errors that surface inside a macro expansion, `nt_*` diagnostics with a
/// second location (notes) across files, `lt_*` file shapes (no final newline, empty files, CRLF, include on
/// the last line, bytes the lexer does not accept as white space)
const OWN_FAMILIES: &[&str] = &[
    "mx_obj_body", "mx_fn_body", "mx_fn_arg", "mx_nested", "mx_def_in_include", "mx_use_in_include", "mx_type_error", "mx_multiline_call",
    "mx_redef", "mx_parse", "mx_condition", "mx_arity", "mx_unterminated_args", "mx_concat_bad",
    "nt_redef_across_files", "nt_redef_in_include", "nt_overload_across_files", "nt_same_file",
    "lt_no_final_newline", "lt_include_last_line", "lt_empty_files", "lt_error_at_eof", "lt_crlf", "lt_tabs_utf8", "lt_splice",
    "lt_not_whitespace", "lt_comment_ends_file", "lt_directive_trivia", "lt_angle_include", "lt_tokens", "lt_ok_shapes",
    "lt_defined_forms", "lt_directive_shapes", "lt_macro_shapes", "lt_cmdline_defines", "lt_higher_order",
];

/// one rejected program per diagnostic that C07's families (which report only the first of their offenders) rarely
/// reach first: `ty_single#<i>`
const TY_SINGLE: &[&str] = &[
    "Missing<int> g_a;\n",
    "namespace N { }\nstatic N::T g_a;\n",
    "struct A { int x; };\nstruct B { int y; };\nint f() { A a; return a.B::y; }\n",
    "int f() { float arr[2]; return arr[1.5]; }\n",
    "int f() { return ~1.5; }\n",
    "int f() { float a = 1; return a << 1; }\n",
    "struct P { float a; };\nfloat f() { P p; return true ? p : 1; }\n",
    "struct P { float a; };\nstruct O { float a; };\nfloat f() { P p; O o = (O)p; return o.a; }\n",
    "struct P { float a; int b; };\nstatic P g = { 1, 2, 3 };\n",
    "void f() { float2 v = { 1, 2, 3 }; }\n",
    "void f() { float g[]; }\n",
    "static int n = 3;\nstatic float g[n];\n",
    "static int n = 3;\nenum E { A = n };\n",
    "static int g : register(t0);\n",
    "struct S { int m : packoffset(c0); };\n",
    "void f() { int local : SEMANTIC; }\n",
    "static int g : SEMANTIC;\n",
    "void f() { [unroll(1, 2)] for (int i = 0; i < 2; ++i) { } }\n",
    "void f() { [branch(3)] if (true) { } }\n",
    "[[rssl::bind_group]]\nBuffer<float> g;\n",
    "[[rssl::bind_group(1, 2)]]\nBuffer<float> g;\n",
    "row_major float4 g;\n",
    "unorm int g;\n",
    "struct V { float4 p : SV_Position; };\n[outputtopology(\"triangle\")]\n[numthreads(1,1,1)]\nvoid ms(out vertices V v[3], out indices float3 t[1]) { }\n",
    "void f(int a = 1, int b) { }\n",
    "template<typename T = int, typename U>\nstruct TS { int m; };\n",
    "template<typename T>\nstruct TS { T m; };\nstatic TS<float, 2, 3> g;\n",
    "[outputtopology(\"square\")]\n[numthreads(1, 1, 1)]\nvoid ms() { }\n",
    "void f() { SamplerState s = StaticSampler { }; }\n",
    "SamplerState g = StaticSampler { Unknown = 1; };\n",
    "float4 vs() : SV_Position { return float4(0,0,0,1); }\nfloat4 ps() : SV_Target0 { return float4(0,0,0,1); }\nPipeline Q { VertexShader = vs; PixelShader = ps; DepthBias = vs; }\n",
    "float4 vs() : SV_Position { return float4(0,0,0,1); }\nfloat4 ps() : SV_Target0 { return float4(0,0,0,1); }\nPipeline Q { VertexShader = vs; PixelShader = ps; CullMode = Sideways; }\n",
    "Buffer<float> g : register(t0, spaceX);\n",
    "Buffer<float> g : packoffset(c0);\n",
    "int f() { return 1; } }\n",
];

/// the same for lexer and preprocessor diagnostics: `lx_single#<i>`
const LX_SINGLE: &[&str] = &[
    "#include 1\n", "#include\n", "#include M\n", "#define M(a) a\nstatic int v = M;\n", "#if 1\n#else junk\n#endif\n", "#if 1\n#endif junk\n",
    "#endif\n", "#else\n", "#elif 1\n", "static int v = 99999999999999999999;\n", "static int v = 0xfffffffffffffffff;\n",
    "static int v = 0777777777777777777777777;\n", "static uint v = 4294967296u;\n", "static int v = 9223372036854775808l;\n",
    "static uint v = 0x100000000u;\n", "static int v = 0x8000000000000000l;\n", "static uint v = 040000000000u;\n",
    "static int v = 01000000000000000000000l;\n", "#include <abc\n", "#include \"abc\n", "static float v = 1e5#INF;\n", "static float v = 0.0#INF;\n",
    "static float v = 1.5#INF + 0xABD + 0456 + 0xabd;\nstatic int w = not_there;\n", "static float v = 1.0q;\n", "#define M(a \n", "#define M(\n",
    "#define 1 2\n", "#undef\n", "#undef 1\n", "#ifdef\n#endif\n", "#ifndef 1\n#endif\n", "#pragma\n", "#line 5\n", "#error stop\n", "#warning w\n",
    "#if\n#endif\n", "#if (\n#endif\n", "#if 1 +\n#endif\n", "#define F(x) x\nstatic int v = F(1;\n", "#define F(x) x\nstatic int v = F(1, 2);\n",
    "#define F() 1\nstatic int v = F(2);\n", "#define C a ##\nstatic int v = C;\n", "#define C ## a\nstatic int v = C;\n", "#if 1\n", "#ifdef X\n#else\n#else\n#endif\n",
    "static int v = \"abc;\n", "static int v = \"abc\ndef\";\n", "static int v = 1; /* open\n", "static int v = 1 $ 2;\n", "static int v = 1.5e;\n", "static int v = 0x;\n",
    "#if defined\n#endif\n", "#if defined(A, B)\n#endif\n", "#if defined(1)\n#endif\n", "#1 2\n", "Buffer<float> g : register(x0);\n",
    "struct S { int m = 1; };\n", "static SamplerState g = StaticSampler { Filter = MIN_MAG_MIP_LINEAR; };\n",
    "struct H { float x; };\nfloat hm() { H h; return h.missing; }\n", "void g1(int p) { }\nvoid g2() { }\nvoid g3() { g1(g2); }\n",
    "void g4() { int l : register(t0); }\n",
    "#define M(a b) a\n", "#define M(a,) a\n", "#define M(1) a\n", "#include <abc\ndef>\n", "#if defined A B\n#endif\n", "#if defined 1\n#endif\n",
    "#define G(x) x\n#define F(x) x\nstatic int v = F(G(1, 2));\n", "#define F(x) x\nstatic int v = F(1;\n#define Q 1\n", "#define C(a, b) a ## b\nstatic int v = C(+, -);\n",
];

fn own_family_names() -> Vec<String> {
    let mut v: Vec<String> = OWN_FAMILIES.iter().map(|s| s.to_string()).collect();
    for i in 0..TY_SINGLE.len() {
        v.push(format!("ty_single#{}", i));
    }
    for i in 0..LX_SINGLE.len() {
        v.push(format!("lx_single#{}", i));
    }
    v
}

struct OwnProg {
    files: Files,
    mode: Mode,
    /// text whose first occurrence (file index, marker) is where the first diagnostic has to point; several = any of them
    anchors: Vec<(usize, String)>,
    /// (message index, file index, marker): where a note has to point
    note: Option<(usize, usize, String)>,
    /// the first `ndefs` files are command-line defines (`<define>`, `NAME VALUE`)
    ndefs: usize,
}

fn own_program(family: &str, rng: &mut Rng) -> Option<OwnProg> {
    let n = rng.below(1000);
    let mut head = String::new();
    for i in 0..rng.below(4) {
        head.push_str(&match rng.below(3) {
            0 => format!("// header line {}\n", i),
            1 => "\n".to_string(),
            _ => format!("/* block {} */\n", i),
        });
    }
    let one = |src: String, anchors: Vec<(usize, String)>| Some(OwnProg { files: vec![("main.rssl".to_string(), src)], mode: Mode::NoPipeline, anchors, note: None, ndefs: 0 });
    let bad = format!("undeclared_{}", n);
    if let Some(i) = family.strip_prefix("ty_single#") {
        let src = TY_SINGLE.get(i.parse::<usize>().ok()?)?;
        return Some(OwnProg {
            files: vec![("main.rssl".to_string(), format!("{}{}[numthreads(1, 1, 1)]\nvoid entry()\n{{\n}}\nPipeline P\n{{\n    ComputeShader = entry;\n}}\n", head, src))],
            mode: Mode::All,
            anchors: vec![],
            note: None,
            ndefs: 0,
        });
    }
    if let Some(i) = family.strip_prefix("lx_single#") {
        let src = LX_SINGLE.get(i.parse::<usize>().ok()?)?;
        let before = if rng.chance(1, 2) { "int before_it() { return 0; }\n" } else { "" };
        return Some(OwnProg { files: vec![("main.rssl".to_string(), format!("{}{}{}int f() {{ return 1; }}\n", head, before, src))], mode: Mode::NoPipeline, anchors: vec![], note: None, ndefs: 0 });
    }
    match family {
        "mx_obj_body" => one(format!("{}#define BAD_{} (1 + {})\nint f()\n{{\n    int a = 2;\n    return a + BAD_{};\n}}\n", head, n, bad, n), vec![(0, bad.clone())]),
        "mx_fn_body" => one(
            format!("{}#define ADDU_{}(a) ((a) + {})\nint f(int x)\n{{\n    return ADDU_{}(x) + ADDU_{}(1);\n}}\n", head, n, bad, n, n),
            vec![(0, bad.clone())],
        ),
        "mx_fn_arg" => one(format!("{}#define ID_{}(a) (a)\nint f(int x)\n{{\n    return ID_{}(x) + ID_{}( {} );\n}}\n", head, n, n, n, bad), vec![(0, bad.clone())]),
        "mx_nested" => one(
            format!("{}#define INNER_{}(a) ((a) * {})\n#define OUTER_{}(b) (INNER_{}(b) + 1)\nint f(int x)\n{{\n    return OUTER_{}(x);\n}}\n", head, n, bad, n, n, n),
            vec![(0, bad.clone())],
        ),
        "mx_def_in_include" => Some(OwnProg {
            files: vec![
                ("main.rssl".to_string(), format!("{}#include \"defs.h\"\nint f(int x)\n{{\n    return TWICE_{}(x);\n}}\n", head, n)),
                ("defs.h".to_string(), format!("#pragma once\n// macros\n#define TWICE_{}(a) ((a) + {})\n", n, bad)),
            ],
            mode: Mode::NoPipeline,
            anchors: vec![(1, bad.clone())],
            note: None,
            ndefs: 0,
        }),
        "mx_use_in_include" => Some(OwnProg {
            files: vec![
                ("main.rssl".to_string(), format!("{}#define LIMIT_{} (4 + {})\n#include \"body.h\"\nint g() {{ return f(1); }}\n", head, n, bad)),
                ("body.h".to_string(), format!("int f(int x)\n{{\n    return x + LIMIT_{};\n}}\n", n)),
            ],
            mode: Mode::NoPipeline,
            anchors: vec![(0, bad.clone())],
            note: None,
            ndefs: 0,
        }),
        "mx_type_error" => one(
            format!("{}#define MUL_{}(a, b) ((a) * (b))\nstruct S {{ int m; }};\nint f()\n{{\n    S s;\n    return MUL_{}(s, 2);\n}}\n", head, n, n),
            vec![],
        ),
        "mx_multiline_call" => one(
            format!("{}#define SUM3_{}(a, b, c) ((a) + (b) + (c))\nint f(int x)\n{{\n    return SUM3_{}(x,\n        x + 1,\n        {});\n}}\n", head, n, n, bad),
            vec![(0, bad.clone())],
        ),
        "mx_redef" => one(format!("{}#define DECL_{}(name) static int name = 0;\nDECL_{}(twice)\nint f() {{ return twice; }}\nDECL_{}(twice)\n", head, n, n, n), vec![]),
        "mx_parse" => one(format!("{}#define OPEN_{} (1 +\nint f()\n{{\n    return OPEN_{} 2;\n}}\n", head, n, n), vec![]),
        "mx_condition" => one(format!("{}#define LEVEL_{} 2 +\n#if LEVEL_{} > 1\nint f() {{ return 1; }}\n#endif\n", head, n, n), vec![]),
        "mx_arity" => one(
            format!("{}#define PAIR_{}(a, b) ((a) + (b))\nint f(int x)\n{{\n    return PAIR_{}(x{});\n}}\n", head, n, n, if rng.chance(1, 2) { "" } else { ", 1, 2" }),
            vec![],
        ),
        "mx_unterminated_args" => one(format!("{}#define PAIR_{}(a, b) ((a) + (b))\nint f(int x)\n{{\n    return PAIR_{}(x, 1;\n}}\n", head, n, n), vec![]),
        "mx_concat_bad" => one(
            format!("{}#define GLUE_{}(a, b) a ## b\nint f(int x)\n{{\n    return GLUE_{}({}, {});\n}}\n", head, n, n, if rng.chance(1, 2) { "x" } else { "+" }, if rng.chance(1, 2) { "-" } else { ")" }),
            vec![],
        ),
        "nt_redef_across_files" => Some(OwnProg {
            files: vec![
                ("main.rssl".to_string(), format!("{}#include \"types.h\"\nstruct Shared_{}\n{{\n    float b;\n}};\n", head, n)),
                ("types.h".to_string(), format!("// shared types\n\nstruct Shared_{}\n{{\n    int a;\n}};\n", n)),
            ],
            mode: Mode::NoPipeline,
            anchors: vec![(0, format!("Shared_{}", n))],
            note: Some((1, 1, format!("Shared_{}", n))),
            ndefs: 0,
        }),
        "nt_redef_in_include" => Some(OwnProg {
            files: vec![
                ("main.rssl".to_string(), format!("{}static int g_value_{} = 1;\n#include \"more.h\"\n", head, n)),
                ("more.h".to_string(), format!("\n\nstatic float g_value_{} = 2.0;\n", n)),
            ],
            mode: Mode::NoPipeline,
            anchors: vec![(1, format!("g_value_{}", n))],
            note: None,
            ndefs: 0,
        }),
        "nt_overload_across_files" => Some(OwnProg {
            files: vec![
                ("main.rssl".to_string(), format!("{}#include \"a.h\"\n#include \"b.h\"\nvoid caller()\n{{\n    int4 v = int4(0, 0, 0, 0);\n    pick_{}(v, v);\n}}\n", head, n)),
                ("a.h".to_string(), format!("void pick_{}(int2 p, int3 q)\n{{\n}}\n", n)),
                ("b.h".to_string(), format!("\nvoid pick_{}(int3 p, int2 q)\n{{\n}}\n", n)),
            ],
            mode: Mode::NoPipeline,
            anchors: vec![(0, format!("pick_{}(v", n))],
            note: Some((2, 2, format!("pick_{}", n))),
            ndefs: 0,
        }),
        "nt_same_file" => one(format!("{}int twice_{}(int p)\n{{\n    return p;\n}}\n\n\nint twice_{}(int p)\n{{\n    return p + 1;\n}}\n", head, n, n), vec![]),
        "lt_no_final_newline" => {
            let body = *rng.pick(&[
                "int f() { return 1; }",
                "int f() { return 1; } // trailing comment",
                "int f() { return 1; } /* trailing */",
                "int f() { return 1; }\n#define LAST 1",
                "int f() { return 1; }\n#if 1\n#endif",
                "int f() { return 1; }\n   ",
                "int f() { return 1; }\n\\",
                "int f() { return 1; } \\\n",
            ]);
            one(format!("{}{}", head, body), vec![])
        }
        "lt_include_last_line" => {
            let inc = *rng.pick(&["int g() { return 1; }\n", "int g() { return 1; }", "", "// nothing", "#pragma once", "#pragma once\nint g() { return 1; }"]);
            let last = *rng.pick(&["#include \"tail.h\"", "#include \"tail.h\"\n", "#include \"tail.h\" // last", "#  include \"tail.h\"  "]);
            Some(OwnProg {
                files: vec![("main.rssl".to_string(), format!("{}int f() {{ return 2; }}\n{}", head, last)), ("tail.h".to_string(), inc.to_string())],
                mode: Mode::NoPipeline,
                anchors: vec![],
                note: None,
                ndefs: 0,
            })
        }
        "lt_empty_files" => {
            let main = *rng.pick(&["", "\n", "// only a comment", "/* only a comment */\n", "   \t\n\n", "#include \"empty.h\"", "#include \"empty.h\"\n#include \"empty.h\"\n"]);
            let inc = *rng.pick(&["", "\n", "\\\n", "// c"]);
            Some(OwnProg {
                files: vec![("main.rssl".to_string(), main.to_string()), ("empty.h".to_string(), inc.to_string())],
                mode: if rng.chance(1, 2) { Mode::NoPipeline } else { Mode::All },
                anchors: vec![],
                note: None,
                ndefs: 0,
            })
        }
        "lt_error_at_eof" => {
            let tail = match rng.below(6) {
                0 => format!("int f() {{ return {}; }}", bad),
                1 => format!("int f() {{ return 1; }}\nint g = {}", bad),
                2 => "int f() {".to_string(),
                3 => format!("int f() {{ return 1; }}\n{}", bad),
                4 => "int f() { return 1; }\n#if 1".to_string(),
                _ => "int f() { return 1; }\n@".to_string(),
            };
            let a = if tail.starts_with("int f() { return undeclared") { vec![(0, bad.clone())] } else { vec![] };
            one(format!("{}{}", head, tail), a)
        }
        "lt_crlf" => {
            let src = format!("{}struct S\n{{\n    int m;\n}};\nint f(int x)\n{{\n    S s;\n    return x + {};\n}}\n", head, bad);
            one(src.replace('\n', "\r\n"), vec![(0, bad.clone())])
        }
        "lt_tabs_utf8" => one(
            format!("{}int f(int x)\n{{\n\t\tint y = x; /* \u{e9}\u{4e2d}\u{1f600} */ \tint z = {};\n\treturn y;\n}}\n", head, bad),
            vec![(0, bad.clone())],
        ),
        "lt_splice" => one(format!("{}int f(int x) \\\n{{ \\\n    int y = x; \\\r\n    return y + \\\n {}; \\\n}}\n", head, bad), vec![(0, bad.clone())]),
        "lt_not_whitespace" => {
            // bytes other languages treat as white space: rssl's lexer rejects all of them outside comments and strings
            let b = *rng.pick(&["\u{c}", "\u{b}", "\u{a0}", "\u{feff}", "\r", "\u{2028}", "\u{0}", "\u{1a}"]);
            let at_start = rng.chance(1, 3);
            let src = if at_start { format!("{}int f() {{ return 1; }}\n", b) } else { format!("{}int f()\n{{\n    return 1;{} \n}}\n", head, b) };
            one(src, vec![(0, b.to_string())])
        }
        "lt_comment_ends_file" => {
            let tail = *rng.pick(&["// ends here", "// ends with a backslash \\", "// spliced \\\n still the comment", "/* closed */", "/* never closed", "/* never closed *", "/*/", "//"]);
            one(format!("{}int f() {{ return 1; }}\n{}", head, tail), vec![])
        }
        "lt_directive_trivia" => one(
            format!(
                "{}/* before */ # /* after hash */ define /* after define */ K_{} /* before body */ 3 /* end */ // line\n  #\tif /* c */ K_{} /* c */ > /* c */ 2 /* c */\nint f() {{ return K_{}; }}\n\t# /* c */ else /* c */\nint f() {{ return @; }}\n# endif /* K */\n#define CAT_{}(a, b) a /* l */ ## /* r */ b\nint CAT_{}(g, h)() {{ return CAT_{}(f, )(); }}\n",
                head, n, n, n, n, n, n
            ),
            vec![],
        ),
        "lt_angle_include" => Some(OwnProg {
            files: vec![
                ("main.rssl".to_string(), format!("{}#include <sub/inc.h>\n#include < spaced.h >\nint f() {{ return g() + h(); }}\n", head)),
                ("sub/inc.h".to_string(), "int g() { return 1; }\n".to_string()),
                (" spaced.h ".to_string(), "int h() { return 2; }\n".to_string()),
            ],
            mode: Mode::NoPipeline,
            anchors: vec![],
            note: None,
            ndefs: 0,
        }),
        "lt_tokens" => {
            // every token shape next to every other: numbers with suffixes, strings, operators that could merge
            let items = [
                "0x1Fu", "017", "017u", "07UL", "08", "1ul", "2LU", "3l", "1.5h", "2.0f", "3.0L", "1e3", "1.e+2", "0.5e-1f", "1.#INF", "true", "false", "x", "x1", "\"s t\"", "(x)", "x.y",
                "x ++", "++ x", "x --", "- - x", "+ + x", "x + + 1", "x - - 1", "x < < 1", "x > > 1", "x < = 1", "x & & 1", "x | | 1", "x = = 1", "! = x", "x / / 2", "x / * 2 * / 3",
                "a ? b : c", "a :: b", "a : : b", "x <<= 1", "x >>= 1", "x->y", "~x", "x % = 2", "x ^ = 2", "# #", "@",
            ];
            let mut body = String::new();
            for _ in 0..rng.range(4, 10) {
                body.push_str(&format!("    v = {};\n", rng.pick(&items)));
            }
            one(format!("{}int f(int x, int a, int b, int c, int v)\n{{\n{}    return v;\n}}\n", head, body), vec![])
        }
        "lt_ok_shapes" => {
            let src = *rng.pick(&[
                "template<typename T> T ident(T v) { return v; }\nint f(int a) { return ident<int>(a) >> 1 << 2 > 3 ? 1 : a >= 2 ? 1 : 0; }\n",
                "Texture2D<float4> g_t;\nRWTexture2D<vector<float, 4> > g_u;\nvoid f() { g_u[uint2(0, 0)] = g_t.Load(int3(0, 0, 0)); }\n",
                "static const float k[3] = { 1.0f, 2.0h, 3. };\nfloat f(uint i) { return k[i] / 2 /* half */ / 2; }\n",
                "int f(int a, int b) { return a+++b + a---b + (a<b?a:b) + (a>b?a:b); }\n",
                "#define EMPTY\n#define F() 7\n#define G(x) x\nint f() { return EMPTY F() + G(EMPTY 1) + G((1, 2)); }\n",
            ]);
            one(format!("{}{}", head, src), vec![])
        }
        "lt_defined_forms" => {
            // every spelling of the `defined` operator (with and without parentheses: the form without needs white space,
            // and a comment or a spliced line end is white space), in accepted and rejected conditions
            let name = format!("DEF_{}", n);
            let cond = match rng.below(16) {
                0 => format!("defined {}", name),
                1 => format!("defined/* c */{}", name),
                2 => format!("defined\\\n{}", name),
                3 => format!("defined\t{} /* c */", name),
                4 => format!("defined({})", name),
                5 => format!("defined /* c */ ( /* d */ {} /* e */ ) /* f */", name),
                6 => format!("defined {} && defined {}", name, name),
                7 => format!("(defined {})", name),
                8 => format!("!defined {} || defined NOT_{}", name, name),
                9 => format!("!defined NOT_{} && defined({}) && {} > 2", name, name, name),
                10 => format!("defined {} junk", name),
                11 => "defined".to_string(),
                12 => "defined 1".to_string(),
                13 => format!("defined({}", name),
                14 => format!("defined({}, {})", name, name),
                _ => format!("defined {} + 1 == 2", name),
            };
            let kw = *rng.pick(&["#if", "#if 0\n#elif", "  #\tif"]);
            // "#if condition parser failed" is reported at the first token of the condition
            let a = if cond.ends_with("junk") || cond.ends_with("== 2") { vec![(0, "defined".to_string())] } else { vec![] };
            one(format!("{}#define {} 3\n{} {}\nint f() {{ return 1; }}\n#else\nint f() {{ return 2; }}\n#endif\nint g() {{ return f(); }}\n", head, name, kw, cond), a)
        }
        "lt_directive_shapes" => {
            // directive lines the other families do not write: commands that do nothing, commands inside a skipped
            // block that are not even names, an error of the text in front of a directive
            let v = rng.below(12);
            // an invalid parameter list is reported at the macro name, a header name that wraps at its `<`
            let a = match v {
                8..=10 => vec![(0, format!("M_{}", n))],
                11 => vec![(0, "<abc".to_string())],
                _ => vec![],
            };
            let src = match v {
                0 => format!("#undef NEVER_DEFINED_{}\nint f() {{ return 1; }}\n", n),
                1 => "#pragma warning(disable: 3557)\nint f() { return 1; }\n#pragma warning ( default : 3557 ) // c\n".to_string(),
                2 => "#if 0\n# 12 junk\n#\"str\"\n#+\n# /* c */ 7\n#endif\nint f() { return 1; }\n".to_string(),
                3 => "#ifdef NOPE\n#pragma unknown_in_skipped\n#include \"missing_in_skipped.h\"\n#define BROKEN(\n#undef 1\n#else\nint f() { return 1; }\n#endif\n".to_string(),
                4 => format!("#define F_{}(x) x\nstatic int v = F_{}(1;\n#define Q 1\nstatic int w = 2;\n", n, n),
                5 => format!("#define F_{}(x) x\nstatic int v = F_{}(1, 2);\n#undef F_{}\nstatic int w = 2;\n", n, n, n),
                6 => format!("#define G_{}(x) x\n#define F_{}(x) x\nstatic int v = F_{}(G_{}(1, 2));\n", n, n, n, n),
                7 => format!("#define G_{}(x) x\n#define F_{}(x) x\nstatic int v = F_{}(G_{}(1);\n", n, n, n, n),
                8 => format!("#define M_{}(a b) a\nint f() {{ return 1; }}\n", n),
                9 => format!("#define M_{}(a,) a\nint f() {{ return 1; }}\n", n),
                10 => format!("#define M_{}(1) a\nint f() {{ return 1; }}\n", n),
                _ => "#include <abc\ndef>\nint f() { return 1; }\n".to_string(),
            };
            one(format!("{}{}", head, src), a)
        }
        "lt_macro_shapes" => {
            // macro uses the generator does not write: a function-like macro name that is not called, mutually recursive
            // macros, a call produced by another macro, an argument that is a call of the same macro, octal literals with a suffix
            let src = match rng.below(6) {
                0 => format!("#define FN_{0}(a) (a * 2)\nint f(int x) {{\n    int FN_{0} = 3;\n    return FN_{0} + FN_{0}(x) + FN_{0} ;\n}}\n", n),
                1 => format!("#define F_{0}(x) G_{0}(x)\n#define G_{0}(x) F_{0}(x) + 1\nint F_{0}(int a) {{ return a; }}\nint f() {{ return G_{0}(2) + F_{0}(3); }}\n", n),
                2 => format!("#define OBJ_{0} FN_{0}\n#define FN_{0}(a) (a + 1)\nint f(int x) {{ return OBJ_{0}(x) + OBJ_{0} (x) + FN_{0}(FN_{0}(x)); }}\n", n),
                3 => format!("#define ID_{0}(x) x\n#define CALL_{0}(m, a) m(a)\nint f(int x) {{ return CALL_{0}(ID_{0}, x) + ID_{0}(ID_{0})(x); }}\n", n),
                4 => "static uint v = 017u + 0u + 07U + 0x7u + 017UL + 01lu;\nint f() { return (int)v; }\n".to_string(),
                _ => format!("#define E_{0}\n#define S_{0}(x) x\nint f() {{ return S_{0}(E_{0}) 1 + S_{0}() 2 + S_{0}( ) 3; }}\n", n),
            };
            one(format!("{}{}", head, src), vec![])
        }
        "lt_higher_order" => {
            // higher-order macro programs: the NAME of a function-like macro is passed as an argument and is invoked by
            // the text that follows the outer invocation (`SELECT(INC)(b)`), by the replacement list (`APPLY(INC, b)`),
            // through several levels, nested, through an object-like alias; some already written over several lines.
            // All accepted: the invocation sweep of `run_source` puts every kind of trivia at every boundary inside.
            let defs = format!(
                "#define SELECT_{0}(f) f\n#define SELECT2_{0}(f) SELECT_{0}(f)\n#define PICK_{0}(a, f) f\n#define FIRST_{0}(f, a) f\n#define INC_{0}(v) ((v)+1)\n#define ADD_{0}(a, b) ((a)+(b))\n#define APPLY_{0}(f, x) f(x)\n#define TWICE_{0}(f, x) f(f(x))\n#define NAME_{0} INC_{0}\n#define WRAP_{0}(f) (f)\n",
                n
            );
            let exprs: Vec<String> = match rng.below(10) {
                0 => vec![format!("SELECT_{0}(INC_{0})(b)", n)],
                1 => vec![format!("SELECT2_{0}(INC_{0})(b)", n), format!("SELECT_{0}(SELECT2_{0})(INC_{0})(b)", n)],
                2 => vec![format!("PICK_{0}(1, INC_{0})(b)", n), format!("FIRST_{0}(INC_{0}, 1)(b)", n)],
                3 => vec![format!("SELECT_{0}(SELECT_{0}(INC_{0}))(b)", n), format!("SELECT_{0}(INC_{0})(SELECT_{0}(INC_{0})(b))", n)],
                4 => vec![format!("APPLY_{0}(INC_{0}, b)", n), format!("TWICE_{0}(INC_{0}, b)", n), format!("APPLY_{0}(SELECT_{0}(INC_{0}), b)", n)],
                5 => vec![format!("NAME_{0}(b)", n), format!("SELECT_{0}(NAME_{0})(b)", n), format!("PICK_{0}(b, NAME_{0})(b)", n)],
                6 => vec![format!("SELECT_{0}(ADD_{0})(b, 2)", n), format!("PICK_{0}((1, 2), ADD_{0})(SELECT_{0}(INC_{0})(b), 2)", n)],
                7 => vec![format!("SELECT_{0}(INC_{0}\n)(b)", n), format!("SELECT_{0}(INC_{0} // name\n    )(b)", n), format!("SELECT_{0}(\n    INC_{0}\n)\n(\n    b\n)", n)],
                8 => vec![format!("SELECT_{0} ( INC_{0} ) ( b )", n), format!("SELECT_{0}/* a */(/* b */INC_{0}/* c */)/* d */(/* e */b/* f */)", n), format!("PICK_{0}(1 ,\\\n INC_{0}\\\n)(b)", n)],
                _ => vec![format!("SELECT_{0}(b)", n), format!("WRAP_{0}(INC_{0})(b)", n), format!("SELECT_{0}(INC_{0})(INC_{0}(b))", n), format!("SELECT_{0}(SELECT_{0})", n) + &format!(" + SELECT2_{0}(INC_{0})(b)", n)],
            };
            let mut body = String::new();
            for (i, e) in exprs.iter().enumerate() {
                body.push_str(&format!("    int r{} = {};\n", i, e));
            }
            let sum = (0..exprs.len()).map(|i| format!("r{}", i)).collect::<Vec<_>>().join(" + ");
            one(format!("{}{}int f(int b)\n{{\n{}    return {};\n}}\n", head, defs, body, sum), vec![])
        }
        "lt_cmdline_defines" => {
            // CompileArgs::defines: each define is loaded as a file `<define>` holding `NAME VALUE` in front of the entry
            // file, so every position of the program lies behind them and a diagnostic inside a define's text names that file
            let mut files: Files = Vec::new();
            let pads = ["CLD_PAD_A 11", "CLD_PAD_B(p, q) ((p) + (q) + 100)", "CLD_PAD_C ", "CLD_ONE 0", "CLD_PAD_D \"a fairly long string literal that makes this define larger than the entry file\""];
            for _ in 0..rng.below(4) {
                files.push((DEFINE_FILE.to_string(), rng.pick(&pads).to_string()));
            }
            let variant = rng.below(12);
            let (def, main, inc, anchor): (Vec<String>, String, Option<String>, Option<(i32, String)>) = match variant {
                // anchor file: -1 = the last define, 0 = the entry file, 1 = the included file
                0 => (vec!["CLD_ONE 1".into(), "CLD_FN(x) ((x) + 1)".into(), "CLD_EMPTY ".into(), "CLD_T int".into()],
                      "#include \"inc.h\"\n#ifdef CLD_ONE\nstatic CLD_T v = CLD_EMPTY CLD_FN(CLD_ONE) + w;\n#endif\n#if CLD_ONE > 0 && defined CLD_EMPTY\nint f() { return v; }\n#endif\n".into(),
                      Some("static CLD_T w = CLD_FN (2);\n".into()), None),
                1 => (vec![format!("CLD_BAD (1 + {})", bad)], "static int v = 2;\nstatic int w = CLD_BAD;\n".into(), None, Some((-1, bad.clone()))),
                2 => (vec![format!("CLD_FN(x) ((x) + {})", bad)], "static int v = 2;\nstatic int w = CLD_FN(v);\n".into(), None, Some((-1, bad.clone()))),
                3 => (vec!["CLD_FN(x) ((x) + 1)".into()], format!("static int v = 2;\nstatic int w = CLD_FN({});\n", bad), None, Some((0, bad.clone()))),
                4 => (vec!["CLD_ONE 1".into()], "#include \"inc.h\"\nstatic int v = CLD_ONE + w;\n".into(), Some(format!("// inc\nstatic int w = CLD_ONE + {};\n", bad)), Some((1, bad.clone()))),
                5 => (vec!["CLD_DECL static int cld_v = 1;".into()], "CLD_DECL\n\nCLD_DECL\n".into(), None, Some((-1, "cld_v".into()))),
                6 => (vec!["CLD_ONE 1".into()], format!("int f()\n{{\n    return CLD_ONE + {};\n}}\n", bad), None, Some((0, bad.clone()))),
                7 => (vec![rng.pick(&["CLD_X(a 1", "1 1", "CLD_X 1 $", "CLD_X 1\n2", "CLD_X(a,) a", " "]).to_string()], "int f() { return 1; }\n".into(), None, None),
                8 => (vec!["CLD_ONE 1".into()], format!("#undef CLD_ONE\nstatic int v = CLD_ONE;\n#define CLD_ONE {}\nstatic int w = CLD_ONE;\n", if rng.chance(1, 2) { "2" } else { bad.as_str() }), None, None),
                9 => (vec!["CLD_CAT(a, b) a ## b".into()], "static int CLD_CAT(v, 1) = 1;\nstatic int w = CLD_CAT(v, 1) + CLD_CAT(1, 2);\n".into(), None, None),
                10 => (vec!["CLD_T int".into()], "static CLD_T v = 1;\nstatic CLD_T v = 2;\n".into(), None, None),
                _ => (vec!["CLD_ONE 1 // c".into(), "CLD_TWO /* c */ 2 /* d */".into(), "CLD_THREE\t3\\".into()], "static int v = CLD_ONE + CLD_TWO;\n".into(), None, None),
            };
            for d in def {
                files.push((DEFINE_FILE.to_string(), d));
            }
            let ndefs = files.len();
            files.push(("main.rssl".to_string(), format!("{}{}", head, main)));
            if let Some(i) = inc {
                files.push(("inc.h".to_string(), i));
            }
            let anchors = match anchor {
                Some((-1, m)) => vec![(ndefs - 1, m)],
                Some((k, m)) => vec![(ndefs + k as usize, m)],
                None => vec![],
            };
            Some(OwnProg { files, mode: Mode::NoPipeline, anchors, note: None, ndefs })
        }
        _ => None,
    }
}

/// a source of the diagnostics stream: `diag:<family>:<seed>` (C07's families) or `own:<family>:<seed>`
fn family_source(kind: &str, family: &str, seed: u64) -> Option<Source> {
    let mut r = Rng::new(seed);
    if kind == "diag" {
        let p = diag::diag_program(family, &mut r)?;
        Some(Source { files: p.files, mode: Mode::All, layout: p.layout, ndefs: 0, tag: format!("diag:{}:{}", family, seed), clean: None, anchor: None, note_anchor: None })
    } else {
        let p = own_program(family, &mut r)?;
        // where the first diagnostic has to point: the first marker that exists (exact position)
        let anchor = p.anchors.iter().find_map(|(fi, m)| p.files[*fi].1.find(m.as_str()).map(|o| (*fi, o, o)));
        let note_anchor = p.note.as_ref().and_then(|(b, fi, m)| p.files[*fi].1.find(m.as_str()).map(|o| (*b, *fi, o, o)));
        Some(Source { files: p.files, mode: p.mode, layout: false, ndefs: p.ndefs, tag: format!("own:{}:{}", family, seed), clean: None, anchor, note_anchor })
    }
}

struct Source {
    files: Files,
    mode: Mode,
    /// compile with validate_layout_consistency(true)
    layout: bool,
    /// the first `ndefs` files are command-line defines
    ndefs: usize,
    tag: String,
    /// the files before the error was injected, and where the diagnostic has to point:
    /// (file index, lowest and highest admissible offset)
    clean: Option<Files>,
    anchor: Option<(usize, usize, usize)>,
    /// where a further message (note) of the diagnostic has to point: (message index, file, lo, hi)
    note_anchor: Option<(usize, usize, usize, usize)>,
}

/// where the diagnostic of an injected error belongs: the offending token when it is known exactly,
/// otherwise the injected line (for a missing semicolon the parser stops at the next token)
fn anchor_of(kind: &str, text: &str) -> Option<(usize, usize)> {
    let line_of = |m: usize, extra_lines: usize| {
        let b = text.as_bytes();
        let lo = b[..m].iter().rposition(|c| *c == b'\n').map(|i| i + 1).unwrap_or(0);
        let mut hi = m;
        let mut left = extra_lines + 1;
        while hi < b.len() {
            if b[hi] == b'\n' {
                left -= 1;
                if left == 0 {
                    break;
                }
            }
            hi += 1;
        }
        (lo, hi)
    };
    let (marker, exact, extra) = match kind {
        "undefined-identifier" => ("not_declared_", true, 0),
        "unknown-type" => ("NoSuchType", true, 0),
        "lexer-error" => ("$", true, 0),
        "macro-body-error" => ("not_declared_in_macro", true, 0),
        "unknown-directive" => ("#frobnicate", false, 0),
        "missing-include" => ("#include \"missing", false, 0),
        "unknown-pragma" => ("#pragma frobnicate", false, 0),
        "type-mismatch" => ("float4x4 m", false, 0),
        "bad-call" => ("= dot(1.0, 2.0, 3.0,", false, 0),
        "missing-semicolon" => ("    int q", false, 1),
        _ => return None,
    };
    let m = text.find(marker)?;
    if kind == "missing-semicolon" {
        // the parser stops at the first token after the incomplete statement, wherever that is
        let (lo, line_end) = line_of(m, 0);
        let next = lex_file(text)?.iter().find(|t| !t.k.is_ws() && t.start >= line_end).map(|t| t.start)?;
        return Some((lo, next));
    }
    Some(if exact { (m, m) } else { line_of(m, extra) })
}

fn anchor_message_matches(tag: &str, base: &CompileOutcome) -> bool {
    let expect = [
        ("inject:undefined-identifier", "'not_declared_"),
        ("inject:unknown-type", "'NoSuchType"),
        ("inject:macro-body-error", "'not_declared_in_macro'"),
        ("inject:lexer-error", "unexpected characters"),
        ("inject:unknown-directive", "unknown preprocessing directive"),
        ("inject:missing-include", "failed to load file: 'missing"),
        ("inject:unknown-pragma", "unknown pragma"),
        ("inject:type-mismatch", "float4x4"),
        ("inject:bad-call", "dot("),
        ("inject:missing-semicolon", "failed to parse source"),
    ];
    let CompileOutcome::Err(e) = base else { return false };
    let Some(blocks) = parse_diag(e) else { return false };
    expect.iter().any(|(k, m)| tag.contains(k) && blocks[0].msg.contains(m))
}

fn anchor_check(files: &Files, base: &CompileOutcome, anchor: (usize, usize, usize)) -> Result<(), String> {
    anchor_check_block(files, base, 0, anchor)
}

/// message number `block` of the diagnostic (0 = the error, 1.. = its notes) has to point into `anchor`
fn anchor_check_block(files: &Files, base: &CompileOutcome, block: usize, anchor: (usize, usize, usize)) -> Result<(), String> {
    let (fi, lo, hi) = anchor;
    let what = format!("{} offsets {}..{}", files[fi].0, lo, hi);
    match base {
        CompileOutcome::Err(e) => {
            let blocks = parse_diag(e).ok_or_else(|| format!("[diagnostic not at the injected construct] unpositioned text {}", clip(e, 80)))?;
            if block >= blocks.len() {
                return Err(format!("[diagnostic not at the injected construct] message {} is missing ({} messages)", block, blocks.len()));
            }
            match &blocks[block].loc {
                Some((f, l, c)) => {
                    if *f != files[fi].0 {
                        return Err(format!("[diagnostic names the wrong file] {}:{}:{} for an error in {}", f, l, c, what));
                    }
                    match offset_of(&files[fi].1, *l, *c) {
                        Some(off) if lo <= off && off <= hi => match &blocks[block].src {
                            Some((shown, _)) if *shown != line_text(&files[fi].1, off) => {
                                Err(format!("[diagnostic shows a different source line] {}:{}:{} shows {:?} for an error at {}", f, l, c, shown, what))
                            }
                            _ => Ok(()),
                        },
                        _ => Err(format!("[diagnostic not at the injected construct] {}:{}:{} for an error at {}", f, l, c, what)),
                    }
                }
                None => Err(format!("[diagnostic not at the injected construct] no position for an error at {} ({})", what, blocks[block].msg)),
            }
        }
        CompileOutcome::Ok(_) => Err("[diagnostic not at the injected construct] the erroneous program is accepted".into()),
        CompileOutcome::Panic(p) => Err(format!("panic {}", p)),
    }
}

fn gen_source(rng: &mut Rng, hist: &mut Hist) -> Source {
    let seed = rng.next() >> 16;
    let mut r = Rng::new(seed);
    let snippet = r.chance(1, 5);
    let (mut files, mode, mut tag) = if snippet {
        let i = r.below(SNIPPETS.len() as u64) as usize;
        (vec![("main.rssl".to_string(), SNIPPETS[i].to_string())], Mode::NoPipeline, format!("snippet:{}", i))
    } else {
        let prog = gen_program(&mut r, &GenOpts { max_resources: 4, max_helpers: 3, max_pipes: 2, allow_mesh: true, share_entries: true });
        let o = LayoutOpts { include: r.chance(2, 3), macros: r.chance(3, 4), conditionals: r.chance(1, 2) };
        let files = render_layout_files(&prog, &mut r, &o);
        let mode = if prog.pipes.is_empty() || r.chance(1, 4) { Mode::NoPipeline } else { Mode::All };
        (files, mode, format!("gen:{}", seed))
    };
    let kind = *r.pick(INJECT_KINDS);
    let fi = r.below(files.len() as u64) as usize;
    let mut clean = None;
    let mut anchor = None;
    if kind != "none" {
        let before = files.clone();
        if inject(&mut r, &mut files, fi, kind) {
            if let Some((lo, hi)) = anchor_of(kind, &files[fi].1) {
                clean = Some(before);
                anchor = Some((fi, lo, hi));
            }
            tag.push_str(&format!(",inject:{}@{}", kind, files[fi].0));
            hist.add(&format!("inject={}", kind));
            hist.add(if fi == 0 { "inject-in=entry-file" } else { "inject-in=included-file" });
        } else {
            hist.add("inject=none(no place)");
        }
    } else {
        hist.add("inject=none");
    }
    // command-line defines in front of a generated program: every position of the program lies behind their pseudo-files
    let mut ndefs = 0;
    if r.chance(1, 6) {
        let pads = ["CLD_GEN_A 11", "CLD_GEN_B(p, q) ((p) + (q) + 100)", "CLD_GEN_C ", "CLD_GEN_D \"a string literal that makes this define larger than most lines\""];
        let mut defs: Files = Vec::new();
        for _ in 0..r.range(1, 4) {
            defs.push((DEFINE_FILE.to_string(), r.pick(&pads).to_string()));
        }
        ndefs = defs.len();
        files = defs.iter().cloned().chain(files.into_iter()).collect();
        clean = clean.map(|c| defs.iter().cloned().chain(c.into_iter()).collect());
        anchor = anchor.map(|(fi, lo, hi)| (fi + ndefs, lo, hi));
        tag.push_str(&format!(",defines:{}", ndefs));
        hist.add(&format!("command-line-defines={}", ndefs));
    } else {
        hist.add("command-line-defines=0");
    }
    Source { files, mode, layout: false, ndefs, tag, clean, anchor, note_anchor: None }
}

// ------------------------------------------------------------------------------------------------
// running
// ------------------------------------------------------------------------------------------------

/// line starts of a file that does not lex: not after a spliced line, not inside a block comment
fn physical_line_starts(text: &str) -> Vec<usize> {
    let b = text.as_bytes();
    let mut out = vec![0usize];
    let mut in_block = false;
    let mut in_line = false;
    let mut i = 0;
    while i < b.len() {
        if in_block {
            if b[i..].starts_with(b"*/") {
                in_block = false;
                i += 2;
                continue;
            }
        } else if in_line {
            if b[i] == b'\n' {
                let spliced = (i >= 1 && b[i - 1] == b'\\') || (i >= 2 && b[i - 1] == b'\r' && b[i - 2] == b'\\');
                if !spliced {
                    in_line = false;
                    continue;
                }
            }
        } else if b[i..].starts_with(b"/*") {
            in_block = true;
            i += 2;
            continue;
        } else if b[i..].starts_with(b"//") {
            in_line = true;
            i += 2;
            continue;
        } else if b[i] == b'\n' {
            let spliced = (i >= 1 && b[i - 1] == b'\\') || (i >= 2 && b[i - 1] == b'\r' && b[i - 2] == b'\\');
            if !spliced {
                out.push(i + 1);
            }
        }
        i += 1;
    }
    out
}

struct FileInfo {
    bounds: Vec<Boundary>,
    /// the whole file lexes (otherwise `bounds` covers the part before the lexer error)
    complete: bool,
}

fn analyse(files: &Files, macros: &[String]) -> Vec<FileInfo> {
    files
        .iter()
        .map(|(_, text)| {
            let (toks, complete) = lex_prefix(text);
            FileInfo { bounds: boundaries(text, &toks, macros), complete }
        })
        .collect()
}

/// places where whole lines may be inserted
fn line_starts_of(text: &str, inf: &FileInfo) -> Vec<usize> {
    if inf.complete { inf.bounds.iter().filter(|b| b.line_start).map(|b| b.off).collect() } else { physical_line_starts(text) }
}

fn random_k(rng: &mut Rng) -> usize {
    match rng.below(8) {
        0 => 0,
        1 => 1,
        2 => 50,
        _ => rng.range(1, 50) as usize,
    }
}

fn k_bucket(k: usize) -> &'static str {
    if k == 0 { "0" } else if k == 1 { "1" } else if k < 10 { "2-9" } else if k < 50 { "10-49" } else { "50" }
}

/// trivia without any line break (the column of everything later on the line moves by its length)
fn pick_inline(rng: &mut Rng, b: &Boundary) -> String {
    let mut t = rng.pick(&[" ", "  ", "\t", "/* c */", "/**/", " /* x */ ", "/*/ y */", "/***/"]).to_string();
    if b.after_slash && t.starts_with('/') {
        t.insert(0, ' ');
    }
    t
}

/// One edit aimed at the construct a diagnostic points to. `targets` = (file, offset) of the located messages.
/// Returns (edited file, edits, whole-line mode, label).
fn targeted_edit(
    rng: &mut Rng,
    files: &Files,
    info: &[FileInfo],
    targets: &[(usize, usize)],
    which: usize,
) -> Option<(usize, Edits, Option<(usize, usize)>, &'static str)> {
    let (fi, off) = *rng.pick(targets);
    let text = &files[fi].1;
    let inf = &info[fi];
    let starts = line_starts_of(text, inf);
    let bidx_at_or_before = |o: usize| inf.bounds.iter().rposition(|b| b.off <= o);
    match which {
        0 => {
            // k lines somewhere before the construct
            let c: Vec<usize> = starts.iter().copied().filter(|p| *p <= off).collect();
            if c.is_empty() {
                return None;
            }
            let p = *rng.pick(&c);
            let k = random_k(rng);
            Some((fi, vec![(p, pad_lines(rng, k))], Some((p, k)), "lines-before"))
        }
        1 => {
            // k lines directly before the line of the construct
            let p = starts.iter().copied().filter(|p| *p <= off).max()?;
            let k = random_k(rng);
            Some((fi, vec![(p, pad_lines(rng, k))], Some((p, k)), "lines-directly-before"))
        }
        2 => {
            // k lines after the construct: nothing moves
            let p = starts.iter().copied().filter(|p| *p > off).min()?;
            let k = random_k(rng);
            Some((fi, vec![(p, pad_lines(rng, k))], Some((p, k)), "lines-after"))
        }
        3 => {
            // k lines between two located messages of the same file: one moves, the other does not
            let same: Vec<usize> = targets.iter().filter(|t| t.0 == fi).map(|t| t.1).collect();
            let lo = *same.iter().min()?;
            let hi = *same.iter().max()?;
            let c: Vec<usize> = starts.iter().copied().filter(|p| *p > lo && *p <= hi).collect();
            if c.is_empty() {
                return None;
            }
            let p = *rng.pick(&c);
            let k = random_k(rng);
            Some((fi, vec![(p, pad_lines(rng, k))], Some((p, k)), "lines-between-locations"))
        }
        4 => {
            // trivia without a line break earlier on the line of the construct: same line, column + length
            let line_begin = text.as_bytes()[..off.min(text.len())].iter().rposition(|c| *c == b'\n').map(|i| i + 1).unwrap_or(0);
            let c: Vec<&Boundary> = inf.bounds.iter().filter(|b| b.off >= line_begin && b.off <= off).collect();
            if c.is_empty() {
                return None;
            }
            let b = *rng.pick(&c);
            Some((fi, vec![(b.off, pick_inline(rng, b))], None, "inline-before-on-line"))
        }
        5 => {
            // any trivia directly before the construct
            let i = bidx_at_or_before(off)?;
            let b = &inf.bounds[i];
            let (_, t) = pick_trivia(rng, b);
            Some((fi, vec![(b.off, t)], None, if b.off == off { "trivia-at-construct" } else { "trivia-nearest-before" }))
        }
        6 => {
            // trivia inside the construct: some of the next boundaries after its first token
            let c: Vec<&Boundary> = inf.bounds.iter().filter(|b| b.off > off).take(6).collect();
            if c.is_empty() {
                return None;
            }
            let n = 1 + rng.below(3) as usize;
            let mut picked: Vec<&Boundary> = (0..n).map(|_| *rng.pick(&c)).collect();
            picked.sort_by_key(|b| b.off);
            picked.dedup_by_key(|b| b.off);
            let edits = picked.iter().map(|b| (b.off, pick_trivia(rng, b).1)).collect();
            Some((fi, edits, None, "trivia-inside"))
        }
        7 => {
            // many insertions around the construct
            let i = bidx_at_or_before(off).unwrap_or(0);
            let lo = i.saturating_sub(10);
            let hi = (i + 10).min(inf.bounds.len());
            let mut edits: Edits = Vec::new();
            for b in &inf.bounds[lo..hi] {
                if rng.chance(1, 2) {
                    edits.push((b.off, pick_trivia(rng, b).1));
                }
            }
            if edits.is_empty() {
                return None;
            }
            Some((fi, edits, None, "trivia-around"))
        }
        _ => {
            // k lines in a file none of the messages is in: nothing moves
            let others: Vec<usize> = (0..files.len()).filter(|i| targets.iter().all(|t| t.0 != *i)).collect();
            if others.is_empty() {
                return None;
            }
            let ofi = *rng.pick(&others);
            let st = line_starts_of(&files[ofi].1, &info[ofi]);
            if st.is_empty() {
                return None;
            }
            let p = *rng.pick(&st);
            let k = random_k(rng);
            Some((ofi, vec![(p, pad_lines(rng, k))], Some((p, k)), "lines-in-another-file"))
        }
    }
}

fn emit(out: &mut Out, hist: &mut Hist, r: MetaResult) {
    hist.add(&format!("after={}", r.obs.split(' ').next().unwrap_or("")));
    if r.failed {
        hist.add("oracle=FAIL");
    }
    out.case(&r.request, &r.obs, &r.oracle);
}

fn run_source(src: &Source, tgt: Tgt, rng: &mut Rng, out: &mut Out, hist: &mut Hist, per_source: usize, targeted: usize) {
    let files = &src.files;
    let opts = Opts { mode: src.mode.clone(), layout: src.layout, ndefs: src.ndefs };
    let ndefs = src.ndefs;
    let compile_fn = |f: &Files| compile_files(f, tgt, &opts);
    let base = compile_fn(files);
    let v0 = verdict(&base, files);
    hist.add(&format!("base={}", v0.base.split(':').take(if v0.base.starts_with("err:") { 1 } else { 2 }).collect::<Vec<_>>().join(":")));
    let mut targets: Vec<(usize, usize)> = Vec::new();
    if let CompileOutcome::Err(e) = &base {
        if let Some(b) = parse_diag(e) {
            hist.add(&format!("message={}", clip(&b[0].msg, 40).chars().filter(|c| !c.is_ascii_digit()).collect::<String>()));
            hist.add(&format!("messages-per-diagnostic={}", b.len()));
            if let Some((f, _, _)) = &b[0].loc {
                hist.add(&format!("diagnostic-in={}", if f == DEFINE_FILE && ndefs > 0 { "command-line-define" } else if *f == files[ndefs].0 { "entry-file" } else if file_index(files, f).is_some() { "included-file" } else { "other" }));
            } else {
                hist.add("diagnostic-in=nowhere");
            }
            for blk in b.iter().skip(1) {
                hist.add(&format!("further-message={}: {}", blk.sev, clip(&blk.msg, 30).chars().filter(|c| !c.is_ascii_digit()).collect::<String>()));
            }
            if let Ok(pos) = diag_positions(&b, files) {
                for p in pos.into_iter().flatten() {
                    if !targets.contains(&p) {
                        targets.push(p);
                    }
                }
                let nfiles: std::collections::BTreeSet<usize> = targets.iter().map(|t| t.0).collect();
                hist.add(&format!("located-messages={} in {} file(s)", targets.len().min(4), nfiles.len()));
            }
        } else {
            hist.add(&format!("message(unpositioned text)={}", clip(e, 40)));
        }
    }
    let macros = all_fn_macros(files);
    let info = analyse(files, &macros);
    let prefix = format!("C14.meta\t{}\t{}\t{}", tgt.name(), show_mode(&opts), enc_files(files));
    // the diagnostic of an injected error names the file it was injected into and the injected construct
    if let (Some(clean), Some(anchor)) = (&src.clean, src.anchor) {
        if matches!(base, CompileOutcome::Ok(_)) {
            // injected into a region that conditional compilation skips
            hist.add("anchor-skipped=inactive-region");
        } else if !anchor_message_matches(&src.tag, &base) {
            // the first diagnostic is about something else (e.g. the injected #define sits in a skipped region)
            hist.add("anchor-skipped=other-diagnostic-first");
        } else if matches!(compile_fn(clean), CompileOutcome::Ok(_)) {
            hist.add("anchor-case");
            let tag = format!("{},anchor:{}:{}:{}", src.tag, anchor.0, anchor.1, anchor.2);
            let r = run_anchor(&prefix, files, &base, anchor, &tag);
            emit(out, hist, r);
        }
    } else if let (None, Some(anchor)) = (&src.clean, src.anchor) {
        // hand-written family that says where its diagnostic belongs
        hist.add("anchor-case");
        let tag = format!("{},anchor:{}:{}:{}", src.tag, anchor.0, anchor.1, anchor.2);
        let r = run_anchor(&prefix, files, &base, anchor, &tag);
        emit(out, hist, r);
    }
    if let Some((block, fi, lo, hi)) = src.note_anchor {
        hist.add("anchor-case(note)");
        let tag = format!("{},anchorb:{}:{}:{}:{}", src.tag, block, fi, lo, hi);
        let r = run_anchor_block(&prefix, files, &base, block, (fi, lo, hi), &tag);
        emit(out, hist, r);
    }
    if info.iter().any(|i| !i.complete) {
        hist.add("source=has-unlexable-file");
    }
    // edits aimed at the construct the diagnostic points to
    if !targets.is_empty() {
        for case in 0..targeted {
            let which = if targeted >= 9 { case % 9 } else { rng.below(9) as usize };
            let Some((fi, edits, lines_mode, label)) = targeted_edit(rng, files, &info, &targets, which) else {
                hist.add("targeted-edit=none(no such place)");
                continue;
            };
            if fi < ndefs {
                // the construct is the text of a command-line define: not a file whose layout can be edited
                hist.add("targeted-edit=none(in a command-line define)");
                continue;
            }
            hist.add(&format!("targeted-edit={}", label));
            if let Some((_, k)) = lines_mode {
                hist.add(&format!("edit=lines k={}", k_bucket(k)));
            }
            hist.add(if fi == ndefs { "edited=entry-file" } else { "edited=included-file" });
            let text = &files[fi].1;
            let ctx_of = |e: &Edits| describe_edits(text, e, &macros);
            let tag = match lines_mode {
                Some((p, k)) => format!("{},{},lines:{}@{}", src.tag, label, k, p),
                None => format!("{},{},trivia:{}", src.tag, label, edits.len()),
            };
            let r = run_meta_files(&prefix, files, fi, &edits, &tag, &compile_fn, &base, lines_mode, &ctx_of);
            emit(out, hist, r);
        }
    }
    // the invocation sweep: for the macro-shape families, EVERY boundary inside a macro invocation (between the name and
    // `(`, after `(`, around each comma, before `)`) and the few boundaries behind it (the text a higher-order result
    // goes on to invoke), each with every kind of trivia on its own
    if src.tag.starts_with("own:lt_higher_order") || src.tag.starts_with("own:lt_macro_shapes") {
        for fi in ndefs..files.len() {
            let text = &files[fi].1;
            let inf = &info[fi];
            let flagged: Vec<bool> = inf.bounds.iter().map(|b| b.ctx.contains("macro-args") || b.ctx.contains("macro-call-gap")).collect();
            let ctx_of = |e: &Edits| describe_edits(text, e, &macros);
            for (bi, b) in inf.bounds.iter().enumerate() {
                if !(bi.saturating_sub(4)..=bi).any(|j| flagged[j]) || b.ctx.contains(" dir:") {
                    continue;
                }
                for (kind, t) in SWEEP_TRIVIA {
                    if !b.newline_ok && trivia_class(t) == "line-break" {
                        continue;
                    }
                    let mut t = t.to_string();
                    if b.after_slash && t.starts_with('/') {
                        t.insert(0, ' ');
                    }
                    hist.add(&format!("sweep={} {}", kind, if flagged[bi] { b.ctx.rsplit(' ').next().unwrap_or("") } else { "behind-invocation" }));
                    let edits: Edits = vec![(b.off, t)];
                    let tag = format!("{},invocation-sweep:{},trivia:1", src.tag, kind);
                    let r = run_meta_files(&prefix, files, fi, &edits, &tag, &compile_fn, &base, None, &ctx_of);
                    emit(out, hist, r);
                }
            }
        }
    }
    // programs with command-line defines get more random edits: aimed ones that land in a define are dropped
    let per_source = if ndefs > 0 { per_source + 4 } else { per_source };
    for case in 0..per_source {
        let fi = ndefs + rng.below((files.len() - ndefs) as u64) as usize;
        let text = &files[fi].1;
        let inf = &info[fi];
        let lines_case = case % 3 == 0 || inf.bounds.is_empty() || (!inf.complete && rng.chance(1, 2));
        let ctx_of = |e: &Edits| describe_edits(text, e, &macros);
        if lines_case {
            let starts = line_starts_of(text, inf);
            let p = *rng.pick(&starts);
            let k = random_k(rng);
            let edits: Edits = vec![(p, pad_lines(rng, k))];
            hist.add(&format!("edit=lines k={}", k_bucket(k)));
            hist.add(if fi == ndefs { "edited=entry-file" } else { "edited=included-file" });
            let tag = format!("{},lines:{}@{}", src.tag, k, p);
            let r = run_meta_files(&prefix, files, fi, &edits, &tag, &compile_fn, &base, Some((p, k)), &ctx_of);
            emit(out, hist, r);
        } else {
            let many = rng.chance(1, 6);
            let count = if many { (inf.bounds.len() / 3).max(2) } else if rng.chance(1, 4) { 3 } else { 1 };
            let mut idx: Vec<usize> = (0..count).map(|_| rng.below(inf.bounds.len() as u64) as usize).collect();
            idx.sort();
            idx.dedup();
            let mut edits: Edits = Vec::new();
            for i in &idx {
                let b = &inf.bounds[*i];
                let (class, t) = pick_trivia(rng, b);
                hist.add(&format!("trivia={}", class));
                hist.add(&format!("at={}", b.ctx));
                edits.push((b.off, t));
            }
            hist.add(&format!("edit=trivia n={}", if edits.len() == 1 { "1".to_string() } else if edits.len() <= 3 { "2-3".into() } else { "many".into() }));
            hist.add(if fi == ndefs { "edited=entry-file" } else { "edited=included-file" });
            let tag = format!("{},trivia:{}", src.tag, edits.len());
            let r = run_meta_files(&prefix, files, fi, &edits, &tag, &compile_fn, &base, None, &ctx_of);
            emit(out, hist, r);
        }
    }
}


// ------------------------------------------------------------------------------------------------
// C14.lex: the lexer alone (the part of the property the Lean theorem `trivia_insensitive_lexer` covers)
// ------------------------------------------------------------------------------------------------

fn show_token(t: &Token) -> String {
    use rssl::text::tokens::FollowedBy;
    let fb = |f: &FollowedBy| match f {
        FollowedBy::Token => "T",
        FollowedBy::Whitespace => "W",
    };
    match t {
        Token::Id(id) => format!("Id:{}", hex(id.0.as_bytes())),
        Token::LiteralInt(v) => format!("Int:{}", v),
        Token::LiteralIntUnsigned32(v) => format!("IntU32:{}", v),
        Token::LiteralIntUnsigned64(v) => format!("IntU64:{}", v),
        Token::LiteralIntSigned64(v) => format!("IntS64:{}", v),
        Token::LiteralFloat(v) => format!("Float:{:016x}", v.to_bits()),
        Token::LiteralFloat16(v) => format!("Float16:{:08x}", v.to_bits()),
        Token::LiteralFloat32(v) => format!("Float32:{:08x}", v.to_bits()),
        Token::LiteralFloat64(v) => format!("Float64:{:016x}", v.to_bits()),
        Token::LiteralString(s) => format!("String:{}", hex(s.as_bytes())),
        Token::HeaderName(s) => format!("HeaderName:{}", hex(s.as_bytes())),
        Token::ReservedWord(s) => format!("ReservedWord:{}", hex(s.as_bytes())),
        Token::LeftAngleBracket(f) => format!("LeftAngleBracket:{}", fb(f)),
        Token::RightAngleBracket(f) => format!("RightAngleBracket:{}", fb(f)),
        other => format!("{:?}", other),
    }
}

type RawLex = (Vec<(Token, usize, usize)>, Option<(String, usize)>);

fn show_lex(r: &RawLex) -> String {
    let mut obs = r.0.iter().map(|(t, s, e)| format!("{} {} {}", show_token(t), s, e)).collect::<Vec<_>>().join(";");
    if let Some((reason, off)) = &r.1 {
        obs.push_str(&format!(" !err {} {}", reason, off));
    }
    obs
}

/// Is `w` a trivia text: on its own it lexes completely into whitespace tokens, and it ends every comment it
/// opens (a line comment must bring its line break) — so it lexes the same whatever follows
fn is_trivia_text(w: &str) -> bool {
    let (toks, err) = lex_raw(w, false);
    if err.is_some() || !toks.iter().all(|(t, _, _)| t.is_whitespace()) {
        return false;
    }
    match toks.last() {
        Some((Token::Comment, s, _)) => !w[*s..].starts_with("//"),
        _ => true,
    }
}

/// May `w` be inserted at offset `p` of a text whose real tokens are `orig` under the property (and under the
/// side conditions of the Lean theorem): `p` is 0 or the end of a token that is not `<`, `>`, a line comment,
/// and not `/` when `w` starts with `/`
fn lex_insertion_allowed(text: &str, orig: &RawLex, p: usize, w: &str) -> Result<(), &'static str> {
    if !is_trivia_text(w) {
        return Err("not-trivia");
    }
    if p == 0 {
        return Ok(());
    }
    let Some((t, s, _)) = orig.0.iter().find(|(_, s, e)| *e == p && e > s) else { return Err("not-a-boundary") };
    match t {
        Token::LeftAngleBracket(_) | Token::RightAngleBracket(_) => Err("after-angle-bracket"),
        Token::Comment if text[*s..].starts_with("//") => Err("after-line-comment"),
        Token::ForwardSlash if w.starts_with('/') => Err("slash-then-comment"),
        _ => Ok(()),
    }
}

/// `1.xxx`, `2.0fx`, `1e5x`: a complete floating literal directly followed by `x`. The float lexer gives up
/// on it (so that `1.xxx` can be a swizzle of the integer `1`) and the text is lexed again as an integer
/// literal + `.` + ...: the first token depends on text several tokens further on. Returns the length of
/// the float part.
fn swizzled_literal(b: &[u8]) -> Option<usize> {
    let digits = |mut i: usize| {
        while i < b.len() && b[i].is_ascii_digit() {
            i += 1;
        }
        i
    };
    let mut i = digits(0);
    if i == 0 {
        return None;
    }
    let mut frac_or_exp = false;
    if i < b.len() && b[i] == b'.' {
        frac_or_exp = true;
        i = digits(i + 1);
    }
    if i < b.len() && (b[i] == b'e' || b[i] == b'E') {
        let mut j = i + 1;
        if j < b.len() && (b[j] == b'+' || b[j] == b'-') {
            j += 1;
        }
        let k = digits(j);
        if k > j {
            frac_or_exp = true;
            i = k;
        }
    }
    if b[i..].starts_with(b"#INF") {
        i += 4;
    }
    if i < b.len() && matches!(b[i], b'h' | b'H' | b'f' | b'F' | b'l' | b'L') {
        i += 1;
    }
    if frac_or_exp && i < b.len() && b[i] == b'x' { Some(i) } else { None }
}

fn run_lex_case(text: &str, edits: &Edits, tag: &str, out: &mut Out, hist: &mut Hist) {
    let req = format!("C14.lex\t{}\t{}\t{}", hex(text.as_bytes()), enc_edits(edits), tag);
    let orig = lex_raw(text, true);
    let edited_text = apply_edits(text, edits);
    let edited = lex_raw(&edited_text, true);
    let obs = show_lex(&edited);
    for (t, _, _) in &edited.0 {
        let n = show_token(t);
        hist.add(&format!("lex-tok={}", n.split(':').next().unwrap_or("")));
    }
    if let Some((r, _)) = &edited.1 {
        hist.add(&format!("lex-err={}", r));
    }
    let mut why = None;
    let mut last = None;
    for (p, w) in edits {
        if last == Some(*p) {
            why = Some("two-edits-at-one-place");
        }
        last = Some(*p);
        if let Err(e) = lex_insertion_allowed(text, &orig, *p, w) {
            why = Some(e);
        }
        // the third side condition of the theorem: no swizzled numeric literal (`1.xxx`) starts before the insertion
        if orig.0.iter().any(|(t, s, _)| *s < *p && matches!(t, Token::LiteralInt(_)) && swizzled_literal(&text.as_bytes()[*s..]).is_some()) {
            why = Some("after-swizzled-literal");
        }
        // an insertion into the part of a rejected text that was never lexed is not at a token boundary
        if let Some((_, _)) = &orig.1 {
            let reached = orig.0.last().map(|t| t.2).unwrap_or(0);
            if *p > reached {
                why = Some("beyond-lexer-error");
            }
        }
    }
    let oracle = match why {
        Some(w) => {
            hist.add(&format!("lex-edit=outside-the-property({})", w));
            "ok".to_string()
        }
        None => {
            hist.add(if orig.1.is_some() { "lex-edit=judged(rejected text)" } else { "lex-edit=judged(accepted text)" });
            let keep = |r: &RawLex, shift: bool| -> Vec<(String, usize, usize)> {
                r.0.iter()
                    .filter(|(t, s, e)| !t.is_whitespace() && e > s)
                    .map(|(t, s, e)| if shift { (show_token(t), move_through(edits, *s), move_through_end(edits, *e)) } else { (show_token(t), *s, *e) })
                    .collect()
            };
            let want = keep(&orig, true);
            let got = keep(&edited, false);
            let want_err = orig.1.as_ref().map(|(r, o)| (r.clone(), move_through(edits, *o)));
            if want != got {
                let i = (0..want.len().min(got.len())).find(|i| want[*i] != got[*i]).unwrap_or(want.len().min(got.len()));
                format!(
                    "FAIL:[lexer] non-trivia token {} changed: {:?} became {:?} ({} -> {} tokens)",
                    i,
                    want.get(i),
                    got.get(i),
                    want.len(),
                    got.len()
                )
            } else if want_err != edited.1 {
                format!("FAIL:[lexer] lexer verdict changed: {:?} became {:?}", want_err, edited.1)
            } else {
                "ok".to_string()
            }
        }
    };
    out.case(&req, &obs, &oracle);
}

/// end offsets: an insertion exactly at the end of a token does not belong to it
fn move_through_end(edits: &Edits, e: usize) -> usize {
    e + edits.iter().filter(|(p, _)| *p < e).map(|(_, t)| t.len()).sum::<usize>()
}

const SOUP: &[&str] = &[
    "a", "x1", "_u", "int", "return", "auto", "e", "E", "f", "u", "l", "x", "INF", "0", "1", "9", "08", "017", "017u", "07UL", "0x1F", "0x", "1u", "1ul", "2LU", "3l", "1.5", "1.", "2.0f", "1.0h",
    "3.0L", "1e3", "1e", "1e+", "1.e-2", "1.#INF", "1.#", "1.0#IN", "\"s\"", "\"a b\"", "\"", "'", "+", "++", "+=", "-", "--", "-=", "*", "*=", "/", "/=", "%", "=", "==", "!", "!=",
    "&", "&&", "|", "||", "^", "~", "<", ">", "<<", ">>", "<=", ">=", "(", ")", "[", "]", "{", "}", ";", ",", ".", ":", "::", "?", "#", "##", "@", "$", "`", "\\", "\u{e9}",
    " ", "  ", "\t", "\n", "\r\n", "\r", "\\\n", "\\\r\n", "/**/", "/* c */", "/*/ c */", "/***/", "/* \n */", "// c\n", "//\n", "// c", "// c \\\n d\n", "/* open", "/*/", "\u{c}", "\u{a0}", "\u{feff}",
];

fn gen_soup(rng: &mut Rng) -> String {
    let mut s = String::new();
    let n = rng.range(1, 12);
    for _ in 0..n {
        s.push_str(*rng.pick(SOUP));
        if rng.chance(1, 3) {
            s.push_str(*rng.pick(&[" ", " ", "\n", "\t"]));
        }
    }
    s
}

/// texts the lexer alone sees: token soups and pieces of the generated files, edited at real token boundaries
/// (mostly where the property allows it, sometimes elsewhere — those cases only tie the model to the code)
fn run_lex_cases(rng: &mut Rng, n: u64, sources: &[Files], out: &mut Out, hist: &mut Hist) {
    const NEAR_TRIVIA: &[&str] = &["\r", "\u{c}", "\u{b}", "\u{a0}", "\u{feff}", "\\", "/*", "// x", "/*/", "/", "*/", "\\ \n", " \\", "/* a */ /", "\n\\"];
    for _ in 0..n {
        let text = if !sources.is_empty() && rng.chance(1, 4) {
            let f = rng.pick(sources);
            let t = &rng.pick(f).1;
            // a window of whole lines, at most ~400 bytes
            let starts = physical_line_starts(t);
            let a = *rng.pick(&starts);
            let mut b = (a + 400).min(t.len());
            while !t.is_char_boundary(b) {
                b -= 1;
            }
            t[a..b].to_string()
        } else {
            gen_soup(rng)
        };
        hist.add(if text.len() > 60 { "lex-text=file-window" } else { "lex-text=soup" });
        let orig = lex_raw(&text, true);
        hist.add(if orig.1.is_some() { "lex-base=rejected" } else { "lex-base=accepted" });
        // token ends of the original (0 included), with what precedes them
        let mut ends: Vec<(usize, bool)> = vec![(0, false)];
        for (t, s, e) in &orig.0 {
            if e > s {
                ends.push((*e, *t == Token::ForwardSlash));
            }
        }
        let count = if rng.chance(1, 3) { rng.range(2, 4) as usize } else { 1 };
        let mut edits: Edits = Vec::new();
        for _ in 0..count {
            let (p, after_slash) = if rng.chance(1, 12) && !text.is_empty() {
                // anywhere, also inside tokens
                let mut p = rng.below(text.len() as u64 + 1) as usize;
                while !text.is_char_boundary(p) {
                    p -= 1;
                }
                (p, false)
            } else {
                *rng.pick(&ends)
            };
            let w = if rng.chance(1, 8) {
                rng.pick(NEAR_TRIVIA).to_string()
            } else {
                let b = Boundary { off: p, newline_ok: true, after_slash: after_slash && rng.chance(5, 6), line_start: false, ctx: String::new() };
                pick_trivia(rng, &b).1
            };
            edits.push((p, w));
        }
        edits.sort_by_key(|e| e.0);
        edits.dedup_by_key(|e| e.0);
        run_lex_case(&text, &edits, "gen", out, hist);
    }
}

// ---- SourceManager / MessagePrinter requests

struct Msg {
    text: String,
    loc: SourceLocation,
    note: bool,
}

impl rssl::text::CompileError for Msg {
    fn print(&self, w: &mut rssl::text::MessagePrinter) -> std::fmt::Result {
        let t = self.text.clone();
        w.write_message(
            &|f| write!(f, "{}", t),
            self.loc,
            if self.note { rssl::text::Severity::Note } else { rssl::text::Severity::Error },
        )
    }
}

fn build_manager(files: &Files) -> (SourceManager, Vec<rssl::text::FileId>) {
    let mut sm = SourceManager::new();
    let mut ids = Vec::new();
    for (n, c) in files {
        ids.push(sm.add_file(rssl::text::FileName(n.clone()), c.clone()));
    }
    (sm, ids)
}

fn raw_loc(raw: u32) -> SourceLocation {
    SourceLocation::first().offset(raw)
}

fn run_locate(files: &Files, raw: u32, out: &mut Out, hist: &mut Hist) {
    let req = format!("C14.locate\t{}\t{}", enc_files(files), raw);
    let r = guard(|| {
        let (sm, _) = build_manager(files);
        let loc = raw_loc(raw);
        let off = sm.get_file_offset_from_source_location(loc);
        let fl = sm.get_file_location(loc);
        let o = match off {
            Some((id, StreamLocation(o))) => {
                let d = format!("{:?}", id);
                let idx: String = d.chars().filter(|c| c.is_ascii_digit()).collect();
                format!("{}:{}", idx, o)
            }
            None => "none".into(),
        };
        format!("{} {}", o, fl)
    });
    // own arithmetic: the file owning the slot, then newline counting inside that file only
    let mut want = "none <unknown>".to_string();
    let mut base = 0u64;
    for (i, (n, c)) in files.iter().enumerate() {
        let slots = c.len() as u64 + 1;
        if (raw as u64) < base + slots {
            let off = (raw as u64 - base) as usize;
            let (l, col) = line_col(c, off);
            want = format!("{}:{} {}:{}:{}", i, off, n, l, col);
            break;
        }
        base += slots;
    }
    match r {
        Ok(obs) => {
            hist.add(if obs.starts_with("none") { "locate=unknown" } else { "locate=known" });
            let oracle = if obs == want { "ok".to_string() } else { format!("FAIL:[locate] real {} but the position is {}", obs, want) };
            out.case(&req, &obs, &oracle);
        }
        Err(p) => out.case(&req, &format!("panic {}", p), &format!("FAIL:panic {}", p)),
    }
}

fn run_srcloc(files: &Files, fi: usize, off: u32, out: &mut Out, hist: &mut Hist) {
    let req = format!("C14.srcloc\t{}\t{}\t{}", enc_files(files), fi, off);
    let r = guard(|| {
        let (sm, ids) = build_manager(files);
        sm.get_source_location_from_file_offset(ids[fi], StreamLocation(off)).get_raw()
    });
    let in_range = fi < files.len() && (off as usize) < files[fi].1.len() + 1;
    match r {
        Ok(raw) => {
            hist.add("srcloc=ok");
            let base: usize = files[..fi].iter().map(|(_, c)| c.len() + 1).sum();
            let oracle = if in_range && raw as usize == base + off as usize { "ok".to_string() } else { format!("FAIL:[srcloc] {} for file {} offset {}", raw, fi, off) };
            out.case(&req, &format!("ok:{}", raw), &oracle);
        }
        Err(_) => {
            hist.add("srcloc=panic");
            // the assertion is the documented contract for out-of-range offsets
            let oracle = if in_range { "FAIL:[srcloc] panic for an offset inside the file".to_string() } else { "ok".to_string() };
            out.case(&req, "panic", &oracle);
        }
    }
}

fn run_render(files: &Files, raw: u32, note: bool, msg: &str, out: &mut Out, hist: &mut Hist) {
    use rssl::text::CompileErrorExt;
    let req = format!("C14.render\t{}\t{}\t{}\t{}", enc_files(files), raw, if note { "note" } else { "error" }, hex(msg.as_bytes()));
    let r = guard(|| {
        let (sm, _) = build_manager(files);
        let m = Msg { text: msg.to_string(), loc: raw_loc(raw), note };
        format!("{}", m.display(&sm))
    });
    match r {
        Ok(text) => {
            // own rendering of what the property expects a diagnostic to show
            let sev = if note { "note" } else { "error" };
            let mut want = None;
            let mut base = 0u64;
            if raw == u32::MAX {
                want = Some(format!("{}: {}\n", sev, msg));
            } else {
                for (n, c) in files.iter() {
                    let slots = c.len() as u64 + 1;
                    if (raw as u64) < base + slots {
                        let off = (raw as u64 - base) as usize;
                        let (l, col) = line_col(c, off);
                        want = Some(format!("{}:{}:{}: {}: {}\n{}\n{}^\n", n, l, col, sev, msg, line_text(c, off), " ".repeat(col - 1)));
                        break;
                    }
                    base += slots;
                }
            }
            hist.add(if want.is_some() { "render=located-or-unlocated" } else { "render=out-of-range" });
            let oracle = match want {
                Some(w) if w != text => format!("FAIL:[render] got {} expected {}", clip(&text, 120), clip(&w, 120)),
                _ => "ok".to_string(),
            };
            out.case(&req, &format!("ok:{}", hex(text.as_bytes())), &oracle);
        }
        Err(p) => {
            hist.add("render=panic");
            // a location in the middle of a multi-byte character cannot be shown; not a position any token has
            out.case(&req, "panic", &format!("SKIP:panic {}", p));
        }
    }
}

fn random_text(rng: &mut Rng, max: u64) -> String {
    let n = rng.below(max + 1);
    let mut s = String::new();
    for _ in 0..n {
        match rng.below(12) {
            0 | 1 | 2 => s.push('\n'),
            3 => s.push_str("\r\n"),
            4 => s.push('\t'),
            5 => s.push('é'),
            6 => s.push(' '),
            7 => s.push('\\'),
            _ => s.push((b'a' + rng.below(6) as u8) as char),
        }
    }
    s
}

fn run_position_cases(rng: &mut Rng, n: u64, sources: &[Files], out: &mut Out, hist: &mut Hist) {
    for i in 0..n {
        let files: Files = if !sources.is_empty() && i % 4 == 0 {
            sources[rng.below(sources.len() as u64) as usize].clone()
        } else {
            let nf = rng.below(4);
            (0..nf).map(|k| (format!("f{}.rssl", k), random_text(rng, 24))).collect()
        };
        let total: u64 = files.iter().map(|(_, c)| c.len() as u64 + 1).sum();
        let raw = match rng.below(10) {
            0 => u32::MAX,
            1 => total as u32,
            2 => (total + rng.below(5)) as u32,
            _ => rng.below(total.max(1)) as u32,
        };
        match rng.below(6) {
            0 if !files.is_empty() => {
                let fi = rng.below(files.len() as u64) as usize;
                let off = rng.below(files[fi].1.len() as u64 + 3) as u32;
                run_srcloc(&files, fi, off, out, hist);
            }
            1 | 2 => run_render(&files, raw, rng.chance(1, 3), *rng.pick(&["failed to parse source", "unknown identifier 'x'", "a: b: error: c", ""]), out, hist),
            _ => run_locate(&files, raw, out, hist),
        }
    }
}

// ---- the repository's own inputs

fn load_tree(root: &str) -> Files {
    let mut out = Vec::new();
    let mut stack = vec![std::path::PathBuf::from(root)];
    while let Some(dir) = stack.pop() {
        let Ok(rd) = std::fs::read_dir(&dir) else { continue };
        let mut entries: Vec<_> = rd.filter_map(|e| e.ok()).map(|e| e.path()).collect();
        entries.sort();
        for p in entries {
            if p.is_dir() {
                stack.push(p);
            } else if let Ok(bytes) = std::fs::read(&p) {
                if let Ok(s) = String::from_utf8(bytes) {
                    out.push((p.strip_prefix(root).unwrap().to_string_lossy().into_owned(), s));
                }
            }
        }
    }
    out.sort();
    out
}

fn normalise(path: &str) -> String {
    let mut parts: Vec<&str> = Vec::new();
    for p in path.split('/') {
        match p {
            "" | "." => {}
            ".." => {
                parts.pop();
            }
            p => parts.push(p),
        }
    }
    parts.join("/")
}

/// in-memory copy of a directory with the lookup rule of `compile_util::DiskFiles`; records what was loaded
struct TreeFiles<'a> {
    files: &'a Files,
    loaded: Vec<String>,
}

impl rssl::text::IncludeHandler for TreeFiles<'_> {
    fn load(&mut self, file_name: &str, parent_name: &str) -> Result<rssl::text::FileData, rssl::text::IncludeError> {
        let parent_dir = match parent_name.rfind('/') {
            Some(i) => &parent_name[..i],
            None => "",
        };
        for c in [normalise(&format!("{}/{}", parent_dir, file_name)), normalise(file_name)] {
            if let Some((n, data)) = self.files.iter().find(|(n, _)| *n == c) {
                if !self.loaded.contains(n) {
                    self.loaded.push(n.clone());
                }
                return Ok(rssl::text::FileData { real_name: n.clone(), contents: data.clone() });
            }
        }
        Err(rssl::text::IncludeError::FileNotFound)
    }
}

fn compile_tree(files: &Files, entry: &str, tgt: Tgt, mode: &Mode) -> (CompileOutcome, Vec<String>) {
    let mut loaded = Vec::new();
    let r = guard(|| {
        let mut inc = TreeFiles { files, loaded: Vec::new() };
        let res = {
            let mut args = rssl::CompileArgs::new(entry, &mut inc, tgt.target()).support_buffer_address(tgt.buffer_address());
            match mode {
                Mode::All => {}
                Mode::Named(n) => args = args.pipeline_name(Some(n.as_str())),
                Mode::NoPipeline => args = args.no_pipeline_mode(),
            }
            match rssl::compile(args) {
                Ok(ps) => Ok(ps
                    .into_iter()
                    .map(|p| PipeOut {
                        data: p.data,
                        stages: p.stages.iter().map(|s| (format!("{:?}", s.stage), s.entry_point.clone(), s.thread_group_size)).collect(),
                        slots: slots_of(&p.metadata),
                        metadata: format!("{:?}", p.metadata),
                        state: format!("{:?}", p.graphics_pipeline_state),
                    })
                    .collect::<Vec<_>>()),
                Err(e) => Err(format!("{}", e)),
            }
        };
        (res, inc.loaded)
    });
    match r {
        Ok((Ok(v), l)) => {
            loaded = l;
            (CompileOutcome::Ok(v), loaded)
        }
        Ok((Err(e), l)) => {
            loaded = l;
            (CompileOutcome::Err(e), loaded)
        }
        Err(p) => (CompileOutcome::Panic(p), loaded),
    }
}

fn disk_mode(entry: &str) -> Mode {
    if entry.ends_with(".rssl") { Mode::All } else { Mode::NoPipeline }
}

/// one case on a repository input; `edits == None` picks a fresh edit with `rng`
fn run_disk(root: &str, entry: &str, tgt: Tgt, fixed: Option<(String, Edits)>, rng: &mut Rng, cases: usize, out: &mut Out, hist: &mut Hist) {
    let files = load_tree(root);
    let mode = disk_mode(entry);
    let (base, loaded) = compile_tree(&files, entry, tgt, &mode);
    hist.add(&format!("disk-base={}", verdict(&base, &files).base.split(':').next().unwrap_or("")));
    let rel_root = root.to_string();
    let prefix = format!("C14.disk\t{}\t{}|{}", tgt.name(), rel_root, entry);
    let compile_fn = |f: &Files| compile_tree(f, entry, tgt, &mode).0;
    if let Some((name, edits)) = fixed {
        let Some(fi) = file_index(&files, &name) else { return };
        let text = files[fi].1.clone();
        let macros = all_fn_macros(&files);
        let r = run_meta_files(&prefix, &files, fi, &edits, "replay", &compile_fn, &base, None, &|e| describe_edits(&text, e, &macros));
        emit(out, hist, r);
        return;
    }
    if loaded.is_empty() {
        return;
    }
    let loaded_files: Files = files.iter().filter(|(n, _)| loaded.contains(n)).cloned().collect();
    let macros = all_fn_macros(&loaded_files);
    for case in 0..cases {
        let name = rng.pick(&loaded).clone();
        let fi = file_index(&files, &name).unwrap();
        let text = files[fi].1.clone();
        let Some(toks) = lex_file(&text) else {
            hist.add("disk-file=unlexable");
            continue;
        };
        let bs = boundaries(&text, &toks, &macros);
        let ctx_of = |e: &Edits| describe_edits(&text, e, &macros);
        if case % 2 == 0 {
            let starts: Vec<usize> = bs.iter().filter(|b| b.line_start).map(|b| b.off).collect();
            let p = *rng.pick(&starts);
            let k = rng.range(1, 50) as usize;
            let edits = vec![(p, pad_lines(rng, k))];
            hist.add("disk-edit=lines");
            let r = run_meta_files(&prefix, &files, fi, &edits, &format!("lines:{}", k), &compile_fn, &base, Some((p, k)), &ctx_of);
            emit(out, hist, r);
        } else {
            let count = if rng.chance(1, 2) { 1 } else { (bs.len() / 10).clamp(2, 400) };
            let mut idx: Vec<usize> = (0..count).map(|_| rng.below(bs.len() as u64) as usize).collect();
            idx.sort();
            idx.dedup();
            let mut edits = Vec::new();
            for i in &idx {
                let (class, t) = pick_trivia(rng, &bs[*i]);
                hist.add(&format!("trivia={}", class));
                hist.add(&format!("at={}", bs[*i].ctx));
                edits.push((bs[*i].off, t));
            }
            hist.add(&format!("disk-edit=trivia n={}", if edits.len() == 1 { "1" } else { "many" }));
            let r = run_meta_files(&prefix, &files, fi, &edits, &format!("trivia:{}", edits.len()), &compile_fn, &base, None, &ctx_of);
            emit(out, hist, r);
        }
    }
}

// ---- entry point

fn replay(lines: Vec<String>, out: &mut Out, hist: &mut Hist) {
    let mut rng = Rng::new(1);
    for line in lines {
        let f: Vec<&str> = line.split('\t').collect();
        match f[0] {
            "C14.locate" if f.len() == 3 => {
                if let (Some(files), Ok(raw)) = (dec_files(f[1]), f[2].parse::<u32>()) {
                    run_locate(&files, raw, out, hist);
                }
            }
            "C14.srcloc" if f.len() == 4 => {
                if let (Some(files), Ok(fi), Ok(off)) = (dec_files(f[1]), f[2].parse::<usize>(), f[3].parse::<u32>()) {
                    if fi < files.len() {
                        run_srcloc(&files, fi, off, out, hist);
                    }
                }
            }
            "C14.render" if f.len() == 5 => {
                if let (Some(files), Ok(raw), Some(msg)) = (dec_files(f[1]), f[2].parse::<u32>(), unhex(f[4]).and_then(|b| String::from_utf8(b).ok())) {
                    run_render(&files, raw, f[3] == "note", &msg, out, hist);
                }
            }
            "C14.meta" if f.len() >= 6 => {
                let (Some(tgt), Some(opts), Some(files), Ok(fi), Some(edits)) =
                    (Tgt::parse(f[1]), parse_mode(f[2]), dec_files(f[3]), f[4].parse::<usize>(), dec_edits(f[5]))
                else {
                    continue;
                };
                if files.is_empty() || fi >= files.len() || opts.ndefs >= files.len() {
                    continue;
                }
                let tag = f.get(8).copied().unwrap_or("replay");
                let compile_fn = |fs: &Files| compile_files(fs, tgt, &opts);
                let base = compile_fn(&files);
                let prefix = format!("C14.meta\t{}\t{}\t{}", tgt.name(), show_mode(&opts), enc_files(&files));
                if let Some(a) = tag.split(',').find_map(|t| t.strip_prefix("anchorb:")) {
                    let v: Vec<usize> = a.split(':').filter_map(|x| x.parse().ok()).collect();
                    if v.len() == 4 && v[1] < files.len() && edits.is_empty() {
                        let r = run_anchor_block(&prefix, &files, &base, v[0], (v[1], v[2], v[3]), tag);
                        emit(out, hist, r);
                        continue;
                    }
                }
                if let Some(a) = tag.split(',').find_map(|t| t.strip_prefix("anchor:")) {
                    let v: Vec<usize> = a.split(':').filter_map(|x| x.parse().ok()).collect();
                    if v.len() == 3 && v[0] < files.len() && edits.is_empty() {
                        let r = run_anchor(&prefix, &files, &base, (v[0], v[1], v[2]), tag);
                        emit(out, hist, r);
                        continue;
                    }
                }
                let text = files[fi].1.clone();
                let macros = all_fn_macros(&files);
                // whole-line insertions are judged in the property's own wording as well
                let lines_mode = if edits.len() == 1 && (edits[0].1.is_empty() || edits[0].1.ends_with('\n')) && tag.contains("lines:") {
                    Some((edits[0].0, edits[0].1.matches('\n').count()))
                } else {
                    None
                };
                let r = run_meta_files(&prefix, &files, fi, &edits, tag, &compile_fn, &base, lines_mode, &|e| describe_edits(&text, e, &macros));
                emit(out, hist, r);
            }
            // manual probing only: the full outcome of one compilation
            "C14.show" if f.len() >= 4 => {
                if let (Some(tgt), Some(opts), Some(files)) = (Tgt::parse(f[1]), parse_mode(f[2]), dec_files(f[3])) {
                    let o = match compile_files(&files, tgt, &opts) {
                        CompileOutcome::Ok(p) => format!("ok: {}", p.iter().map(|x| one_line(&x.text())).collect::<Vec<_>>().join(" ### ")),
                        CompileOutcome::Err(e) => format!("err: {}", one_line(&e)),
                        CompileOutcome::Panic(p) => format!("panic: {}", p),
                    };
                    out.case(&line, &o, "SKIP:probe");
                }
            }
            "C14.lex" if f.len() >= 3 => {
                if let (Some(text), Some(edits)) = (unhex(f[1]).and_then(|b| String::from_utf8(b).ok()), dec_edits(f[2])) {
                    run_lex_case(&text, &edits, f.get(3).copied().unwrap_or("replay"), out, hist);
                }
            }
            "C14.disk" if f.len() >= 5 => {
                let (Some(tgt), Some((root, entry)), Some(edits)) = (Tgt::parse(f[1]), f[2].split_once('|'), dec_edits(f[4])) else { continue };
                run_disk(root, entry, tgt, Some((f[3].to_string(), edits)), &mut rng, 0, out, hist);
            }
            _ => {}
        }
    }
}

pub fn run(args: &Args, out: &mut Out) {
    let mut hist = Hist::default();
    if let Some(lines) = args.request_lines() {
        replay(lines, out, &mut hist);
        out.stat(&format!("{{\"mode\":\"replay\",\"hist\":{}}}", hist.json()));
        return;
    }
    let thorough = args.thorough();
    // `lexonly` (extra argument): only the lexer stream, `--n` cases (used when hunting for side conditions)
    if args.extra.iter().any(|e| e == "lexonly") {
        let mut rng = Rng::new(args.seed);
        run_lex_cases(&mut rng, args.n.unwrap_or(100000), &[], out, &mut hist);
        out.stat(&format!("{{\"mode\":\"lexonly\",\"hist\":{}}}", hist.json()));
        return;
    }
    let n_sources = args.n.unwrap_or(if thorough { 5000 } else { 500 });
    let per_source = if thorough { 12 } else { 9 };
    let mut rng = Rng::new(args.seed);
    let mut sample_files: Vec<Files> = Vec::new();
    for i in 0..n_sources {
        let src = gen_source(&mut rng, &mut hist);
        if sample_files.len() < 40 {
            sample_files.push(src.files.clone());
        }
        let tgt = ALL_TARGETS[(i % 4) as usize];
        hist.add(&format!("target={}", tgt.name()));
        hist.add(&format!("files={}", src.files.len()));
        run_source(&src, tgt, &mut rng, out, &mut hist, per_source, if thorough { 9 } else { 3 });
    }
    // the diagnostics stream: every family of rejected programs (C07's and this module's), edits aimed at the construct
    let seeds_per_family = if thorough { 24 } else { 6 };
    let mut fam_sources = 0u64;
    let diag_names: Vec<String> = diag::FAMILIES.iter().map(|s| s.to_string()).collect();
    for (kind, fams) in [("diag", diag_names), ("own", own_family_names())] {
        for (fi, family) in fams.iter().enumerate() {
            // the single-program families have no variation beyond their header lines
            let seeds = if family.starts_with("ty_single#") || family.starts_with("lx_single#") {
                (seeds_per_family / 6).max(1)
            } else if ["lt_cmdline_defines", "lt_defined_forms", "lt_directive_shapes", "lt_higher_order"].contains(&family.as_str()) {
                // a dozen or more hand-written variants each
                seeds_per_family * 3
            } else {
                seeds_per_family
            };
            for j in 0..seeds {
                let seed = rng.next() >> 16;
                let Some(src) = family_source(kind, family, seed) else { continue };
                let every_target = family.starts_with("export") || family.starts_with("layout");
                for (ti, t) in ALL_TARGETS.iter().enumerate() {
                    if (every_target && j == 0) || ti == (fi + j as usize) % 4 {
                        hist.add(&format!("family-target={}", t.name()));
                        fam_sources += 1;
                        run_source(&src, *t, &mut rng, out, &mut hist, 2, 9);
                    }
                }
            }
        }
    }
    hist.0.insert("family-sources".into(), fam_sources);
    // the repository's own rejected inputs (first argument of check_fail / check_fail_message in the typer tests)
    let repo_root = std::env::var("VERIF_REPO").unwrap_or_else(|_| "/repo".to_string());
    let mut rejected = 0u64;
    for rel in ["typer/tests/type_check_tests.rs", "typer/tests/evaluator_tests.rs"] {
        if let Ok(text) = std::fs::read_to_string(format!("{}/{}", repo_root, rel)) {
            for (i, src) in diag::extract_rejected_inputs(&text, &["check_fail(", "check_fail_message("]).iter().enumerate() {
                if !thorough && i % 3 != 0 {
                    continue;
                }
                rejected += 1;
                let source = Source { files: vec![("type_test.rssl".to_string(), src.clone())], mode: Mode::NoPipeline, layout: false, ndefs: 0, tag: format!("repo-rejected:{}:{}", rel.rsplit('/').next().unwrap_or(""), i), clean: None, anchor: None, note_anchor: None };
                run_source(&source, ALL_TARGETS[i % 4], &mut rng, out, &mut hist, 1, if thorough { 9 } else { 4 });
            }
        }
    }
    hist.0.insert("repo-rejected-inputs".into(), rejected);
    run_position_cases(&mut rng, if thorough { 40000 } else { 3000 }, &sample_files, out, &mut hist);
    run_lex_cases(&mut rng, if thorough { 60000 } else { 4000 }, &sample_files, out, &mut hist);
    // the repository's own inputs
    let repo = std::env::var("VERIF_REPO").unwrap_or_else(|_| "/repo".to_string());
    let corpus = repo_corpus(&repo);
    let take = if thorough { corpus.len() } else { corpus.len().min(10) };
    let step = (corpus.len() / take.max(1)).max(1);
    let mut disk_cases = 0;
    for (i, (root, entry)) in corpus.iter().enumerate() {
        if i % step != 0 {
            continue;
        }
        let tgt = if i % 2 == 0 { Tgt::Dx } else { Tgt::Msl };
        run_disk(root, entry, tgt, None, &mut rng, if thorough { 6 } else { 2 }, out, &mut hist);
        disk_cases += 1;
    }
    out.stat(&format!(
        "{{\"sources\":{},\"edits_per_source\":{},\"repo_inputs\":{},\"hist\":{}}}",
        n_sources,
        per_source,
        disk_cases,
        hist.json()
    ));
}

import RsslVerif.Model.Slots
/-!
# What C06 means, stated independently of the allocator

`Spec.doubled` is our reading of "raw and structured buffers" on Metal (each needs a pointer and a
size slot): byte-address buffers, buffer addresses and structured buffers, read-only or RW.
`Spec.resource` is our reading of "bindable": the object kinds that name something bound from outside
the shader (buffers, textures, acceleration structures, constant buffers, samplers).  The remaining
object kinds are values that live inside a shader (`RayDesc`, `RayQuery`), a stage parameter
(`TriangleStream`) or the intermediate `.mips` views of a texture: a global of such a type must take
no slot.
-/
namespace RsslVerif.Spec.Slots
open RsslVerif.Gen.SlotTables RsslVerif.Model.Slots

def doubled : ObjKind → Bool
  | .ByteAddressBuffer | .RWByteAddressBuffer | .BufferAddress | .RWBufferAddress
  | .StructuredBuffer | .RWStructuredBuffer => true
  | _ => false

/-- object kinds that are resources (written out by hand; `Lemmas.Slots.registerType_isSome_spec` ties the
    extracted `get_register_type` table to it) -/
def resource : ObjKind → Bool
  | .Buffer | .RWBuffer | .ByteAddressBuffer | .RWByteAddressBuffer | .BufferAddress | .RWBufferAddress
  | .StructuredBuffer | .RWStructuredBuffer
  | .Texture2D | .Texture2DArray | .TextureCube | .TextureCubeArray | .Texture3D
  | .RWTexture2D | .RWTexture2DArray | .RWTexture3D
  | .RaytracingAccelerationStructure | .ConstantBuffer | .SamplerState | .SamplerComparisonState => true
  | _ => false

/-- is the global a buffer address that the target lowers to an inline constant -/
def isInline (p : Params) (kind : ObjKind) (len : Option Nat) : Bool :=
  p.supportBufferAddress && (kind == .BufferAddress || kind == .RWBufferAddress) && len.isNone

/-- number of index slots the declaration must receive (0 = takes no index slot) -/
def indexCount (p : Params) : Decl → Nat
  | .other => 0
  | .cbuffer _ => 1
  | .global _ ss (some k) len =>
    if ss && !p.staticSamplersHaveSlots then 0
    else if !resource k then 0
    else if isInline p k len then 0
    else len.getD 1 * (if p.metalSlotLayout && doubled k then 2 else 1)
  | .global _ _ none _ => 0

/-- number of inline-constant bytes the declaration must receive -/
def inlineBytes (p : Params) : Decl → Nat
  | .global _ ss (some k) len =>
    if ss && !p.staticSamplersHaveSlots then 0 else if !resource k then 0 else if isInline p k len then 8 else 0
  | _ => 0

def group (dflt : Nat) : Decl → Nat
  | .cbuffer s => s.getD dflt
  | .global s _ _ _ => s.getD dflt
  | .other => dflt

/-- must the declaration be bound at all -/
def bound (p : Params) : Decl → Bool
  | .other => false
  | .cbuffer _ => true
  | .global _ ss (some k) _ => resource k && !(ss && !p.staticSamplersHaveSlots)
  | .global _ _ none _ => false

/-- `TilesTo s rs e`: the ranges `(start, length)` in `rs` are laid end to end from `s` to `e`:
    in order, no gap, no overlap. -/
inductive TilesTo : Nat → List (Nat × Nat) → Nat → Prop
  | nil (s : Nat) : TilesTo s [] s
  | cons (s c e : Nat) (r : List (Nat × Nat)) : TilesTo (s + c) r e → TilesTo s ((s, c) :: r) e

/-- index ranges (start, required length) observed in group `g`, in declaration order -/
def indexRanges (p : Params) (g : Nat) : List Decl → List (Option Binding) → List (Nat × Nat)
  | d :: ds, some b :: bs =>
    (match b.loc with
     | .index i => if b.set = g then [(i, indexCount p d)] else []
     | .inline _ => []) ++ indexRanges p g ds bs
  | _ :: ds, none :: bs => indexRanges p g ds bs
  | _, _ => []

/-- inline ranges (byte offset, required bytes) observed in group `g`, in declaration order -/
def inlineRanges (p : Params) (g : Nat) : List Decl → List (Option Binding) → List (Nat × Nat)
  | d :: ds, some b :: bs =>
    (match b.loc with
     | .inline o => if b.set = g then [(o, inlineBytes p d)] else []
     | .index _ => []) ++ inlineRanges p g ds bs
  | _ :: ds, none :: bs => inlineRanges p g ds bs
  | _, _ => []

/-- total index slots required by group `g` -/
def totalIndex (p : Params) (dflt g : Nat) (ds : List Decl) : Nat :=
  (ds.map fun d => if group dflt d = g then indexCount p d else 0).sum

def totalInline (p : Params) (dflt g : Nat) (ds : List Decl) : Nat :=
  (ds.map fun d => if group dflt d = g then inlineBytes p d else 0).sum

end RsslVerif.Spec.Slots

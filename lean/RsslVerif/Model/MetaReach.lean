/-!
# Model of `GlobalUsageAnalysis::recurse` (ir/src/usage_analysis.rs) as used for `is_used` on Metal

`calculate_local` gives every symbol the set of symbols it mentions directly (`direct`): a function its body
and the default values of its parameters, a global variable its initialiser, a constant buffer nothing.
`recurse` then repeats passes over all keys (in `HashMap` key order, here an arbitrary list `keys`), replacing a
key's set by its union with the sets of its members whenever that is strictly larger, until a whole pass
changes nothing.  Sets are lists read through membership only.
The loop is modelled with fuel; `none` = fuel exhausted (the theorems are about the `some` case).
-/
namespace RsslVerif.Model.MetaReach

inductive Sym where
  | fn (id : Nat)
  | glob (id : Nat)
  deriving DecidableEq, Repr, Inhabited

/-- `new_set = current ∪ ⋃ { required(other) | other ∈ current }` -/
def newSet (req : Sym → List Sym) (k : Sym) : List Sym :=
  req k ++ (req k).flatMap req

/-- `new_set.len() > current_set.required.len()` (sets: the union has a new element) -/
def grows (req : Sym → List Sym) (k : Sym) : Bool :=
  !(newSet req k).all (fun s => (req k).contains s)

def update (req : Sym → List Sym) (k : Sym) (v : List Sym) : Sym → List Sym :=
  fun x => if x = k then v else req x

/-- one `for key in &keys` pass; the flag is `modified` -/
def pass : List Sym → (Sym → List Sym) → Bool → (Sym → List Sym) × Bool
  | [], req, m => (req, m)
  | k :: ks, req, m =>
    if grows req k then pass ks (update req k (newSet req k)) true else pass ks req m

/-- the outer `loop { .. if !modified { break } }` -/
def recurse : Nat → List Sym → (Sym → List Sym) → Option (Sym → List Sym)
  | 0, _, _ => none
  | fuel + 1, keys, req =>
    match pass keys req false with
    | (req', true) => recurse fuel keys req'
    | (req', false) => some req'

/-- `all_used_globals.contains(Global(g))` where `all_used_globals` concatenates the required globals of
    the stage entry points (functions) -/
def usedBy (req : Sym → List Sym) (entries : List Nat) (g : Nat) : Bool :=
  entries.any fun e => (req (.fn e)).contains (.glob g)

end RsslVerif.Model.MetaReach

import RsslVerif.Lemmas.FixpointBridge
set_option linter.unusedSimpArgs false
/-!
Lemmas for C04, part 9: the value of every constant survives export, re-reading, sign folding and re-tagging.
-/
namespace RsslVerif.Lemmas.FixpointLeaf
open RsslVerif.Gen.RankTable RsslVerif.Gen.TypingTables
open RsslVerif.Model RsslVerif.Model.FixpointBridge RsslVerif.Model.GenHlsl RsslVerif.Lemmas.GenSem

theorem ofInt_neg_max (v : BitVec 32) (h : v.toInt < 0) : BitVec.ofInt 32 (-max (-v.toInt) 0) = v := by
  have : max (-v.toInt) 0 = -v.toInt := by omega
  rw [this, Int.neg_neg, BitVec.ofInt_toInt]

theorem ofInt_toNat_nonneg (v : BitVec 32) (h : ¬ v.toInt < 0) : BitVec.ofInt 32 (v.toNat : Int) = v := by
  apply BitVec.eq_of_toNat_eq
  simp [BitVec.toNat_ofInt]

/-- **Every constant gets its value back.**  For each constant the exporter can print (`genLiteral` succeeds: an
    `IntLiteral` within ±(2^64 − 1), any `Int32` including `i32::MIN`, any `UInt32`, any float bit pattern, booleans):
    printing, `parse_literal`, folding the printed sign and re-tagging to the constant's kind gives the constant. -/
theorem leafBack_id (c : Ir.Const) (a : HlslAst.Expr) (h : genLiteral c = .ok a) : leafBack c = some c := by
  cases c with
  | bool b =>
    simp [leafBack, genLiteral, Ir.Const.kind, Const.intValue, findArm_bool, mkLit, Except.map, retagTo, rereadConst, constScalar]
  | intLit v =>
    by_cases hneg : v < 0 ∧ -v ≤ u64Max
    · simp [leafBack, genLiteral, Ir.Const.kind, Const.intValue, findArm_intLit_neg v hneg.1 hneg.2, negMagnitude, retagTo,
        rereadConst, negConst, constScalar]
      omega
    · by_cases hpos : 0 ≤ v ∧ v ≤ u64Max
      · simp [leafBack, genLiteral, Ir.Const.kind, Const.intValue, findArm_intLit_nonneg v hpos.1 hpos.2, mkLit, Except.map,
          retagTo, rereadConst, constScalar]
        omega
      · simp [genLiteral, Ir.Const.kind, Const.intValue, findArm_intLit_big v hneg hpos] at h
  | int32 v =>
    by_cases hneg : v.toInt < 0
    · simp only [leafBack, genLiteral, Ir.Const.kind, Const.intValue, findArm_int32_neg _ hneg, negMagnitude]
      simp [retagTo, rereadConst, negConst, constScalar, ofInt_neg_max v hneg]
    · simp [leafBack, genLiteral, Ir.Const.kind, Const.intValue, findArm_int32_nonneg _ hneg, mkLit, Except.map, retagTo,
        rereadConst, constScalar, ofInt_toNat_nonneg v hneg]
  | uint32 v =>
    simp [leafBack, genLiteral, Ir.Const.kind, Const.intValue, findArm_uint, mkLit, Except.map, retagTo, rereadConst,
      constScalar]
  | float32 b =>
    simp [leafBack, genLiteral, Ir.Const.kind, Const.intValue, findArm_f32, mkLit, Except.map, retagTo, rereadConst,
      constScalar]
  | floatLit b =>
    simp [leafBack, genLiteral, Ir.Const.kind, Const.intValue, findArm_flit, mkLit, Except.map, retagTo, rereadConst,
      constScalar]

end RsslVerif.Lemmas.FixpointLeaf

import RsslVerif.Lemmas.StmtRT1
/-! Round trip of local variable definitions: named declarators, initialisers, init-declarator lists, the shared type. -/
set_option linter.unusedSimpArgs false
set_option linter.unusedVariables false
namespace RsslVerif.Lemmas.StmtRT
open RsslVerif.Gen.FmtTables RsslVerif.Gen.ParseTables RsslVerif.Gen.SyntaxTables RsslVerif.Model.Format
open RsslVerif.Model.FormatFull RsslVerif.Model.ParseFull RsslVerif.Model.FormatStmt RsslVerif.Model.ParseStmt
open RsslVerif.Lemmas.FmtParseTables RsslVerif.Lemmas.RoundtripFull

variable (W : List String)

/-! ## Named declarators -/

/-- the tokens of a declarator do not depend on `single_declaration` (it only places spaces) -/
theorem toks_fmtDecl_single : (d : Decl) → (s : Bool) → toks (fmtDecl d s) = toks (fmtDecl d true)
  | .empty, _ => rfl
  | .name n, s => by cases s <;> simp [fmtDecl]
  | .ptr q i, s => by
    simp only [fmtDecl, toks_cons_t, toks_append, pp, toks_fmtMods_after]
    rw [toks_fmtDecl_single i s]
    cases s <;> simp [toks_fmtMods_before, toks_fmtMods_after]
  | .ref i, s => by simp only [fmtDecl, toks_cons_t, pp]; rw [toks_fmtDecl_single i s]
  | .arr i e, s => by
    simp only [fmtDecl, toks_append]
    rw [toks_fmtDecl_single i (s && !i.needsScope), toks_fmtDecl_single i (true && !i.needsScope)]
    cases s <;> cases i.needsScope <;> simp
  | .arrN i, s => by
    simp only [fmtDecl, toks_append]
    rw [toks_fmtDecl_single i (s && !i.needsScope), toks_fmtDecl_single i (true && !i.needsScope)]
    cases s <;> cases i.needsScope <;> simp

/-- the name at the base of a declarator -/
def baseName : Decl → Option String
  | .empty => none
  | .name n => some n
  | .ptr _ i => baseName i
  | .ref i => baseName i
  | .arr i _ => baseName i
  | .arrN i => baseName i

/-- array dimensions of an arrays-only named declarator, read starting from its name -/
def RTArrN (d : Decl) : Prop :=
  arrOnly d = true → ∀ n, baseName d = some n → ∀ rest out,
    (hasLtDecl d = true → TmplFree (toks (fmtDecl d true) ++ rest) = true) →
    (∃ N, ∀ f, N ≤ f → parseArrDims W f d rest = some out) →
    ∃ N, ∀ f, N ≤ f → parseArrDims W f (.name n) ((toks (fmtDecl d true)).tail ++ rest) = some out

/-- a named declarator reads back -/
def RTDeclN (d : Decl) : Prop :=
  d.abstr = false → ∀ rest, (∀ r, rest ≠ .p .LeftSquareBracket :: r) →
    (hasLtDecl d = true → TmplFree (toks (fmtDecl d true) ++ rest) = true) →
    ∃ N, ∀ f, N ≤ f → parseDecl W f false (toks (fmtDecl d true) ++ rest) = some (d, rest)

theorem rtArrN_name (n : String) : RTArrN W (.name n) := by
  intro _ m hm rest out _ hc
  simp only [baseName, Option.some.injEq] at hm
  subst hm
  simpa [fmtDecl] using hc

/-- a named arrays-only declarator prints its name first -/
theorem arrN_head : (d : Decl) → arrOnly d = true → (n : String) → baseName d = some n → WFDecl W d →
    ∃ r, toks (fmtDecl d true) = .id n :: r
  | .empty, _, n, h, _ => by simp [baseName] at h
  | .name m, _, n, h, _ => by simp [baseName] at h; subst h; exact ⟨[], by simp [fmtDecl]⟩
  | .ptr _ _, h, _, _, _ => by simp [arrOnly] at h
  | .ref _, h, _, _, _ => by simp [arrOnly] at h
  | .arr i s, ha, n, hb, hw => by
    obtain ⟨r, hr⟩ := arrN_head i (by simpa [arrOnly] using ha) n (by simpa [baseName] using hb) hw.2.1
    rw [fmtDecl_arr i s true hw.1]
    exact ⟨_, by simp [hr]; rfl⟩
  | .arrN i, ha, n, hb, hw => by
    obtain ⟨r, hr⟩ := arrN_head i (by simpa [arrOnly] using ha) n (by simpa [baseName] using hb) hw.2
    rw [fmtDecl_arrN i true hw.1]
    exact ⟨_, by simp [hr]; rfl⟩

theorem rtArrN_arr (i : Decl) (s : XExpr) (hw : WFDecl W (.arr i s)) (ihi : RTArrN W i) (ihs : RT W s) :
    RTArrN W (.arr i s) := by
  intro ha n hb rest out hsafe hc
  obtain ⟨hns, hwi, hws⟩ := hw
  have hai : arrOnly i = true := by simpa [arrOnly] using ha
  have hbi : baseName i = some n := by simpa [baseName] using hb
  obtain ⟨r0, hr0⟩ := arrN_head W i hai n hbi hwi
  rw [fmtDecl_arr i s true hns] at hsafe ⊢
  simp only [toks_append, toks_cons_t, pp, List.append_assoc, List.cons_append, List.nil_append, toks_nil] at hsafe ⊢
  have := ihi hai n hbi (.p .LeftSquareBracket :: (toks (fmtSubX s arraySizePrec arraySizeSide) ++ .p .RightSquareBracket :: rest)) out
    (fun hl => hsafe (by simp [hasLtDecl, hl]))
    (arrDim_step W i s hws ihs rest out
      (fun hl => tmplFree_suffix ((List.suffix_cons _ _).trans (List.suffix_append _ _)) (hsafe (by simp [hasLtDecl, hl]))) hc)
  rw [hr0] at this ⊢
  simpa using this

theorem rtArrN_arrN (i : Decl) (hw : WFDecl W (.arrN i)) (ihi : RTArrN W i) : RTArrN W (.arrN i) := by
  intro ha n hb rest out hsafe hc
  obtain ⟨hns, hwi⟩ := hw
  have hai : arrOnly i = true := by simpa [arrOnly] using ha
  have hbi : baseName i = some n := by simpa [baseName] using hb
  obtain ⟨r0, hr0⟩ := arrN_head W i hai n hbi hwi
  rw [fmtDecl_arrN i true hns] at hsafe ⊢
  simp only [toks_append, toks_cons_t, pp, List.append_assoc, List.cons_append, List.nil_append, toks_nil] at hsafe ⊢
  have := ihi hai n hbi (.p .LeftSquareBracket :: .p .RightSquareBracket :: rest) out
    (fun hl => hsafe (by simp [hasLtDecl, hl])) (arrDimN_step W i rest out hc)
  rw [hr0] at this ⊢
  simpa using this

/-- first token of a named declarator: its name, `*` or `&` -/
theorem named_head : (d : Decl) → d.abstr = false → WFDecl W d →
    ∃ t r, toks (fmtDecl d true) = t :: r ∧ ((∃ n, t = .id n) ∨ t = .p .Asterix ∨ t = .p .Ampersand)
  | .empty, h, _ => by simp [Decl.abstr] at h
  | .name n, _, _ => ⟨.id n, [], by simp [fmtDecl], Or.inl ⟨n, rfl⟩⟩
  | .ptr q i, _, _ => ⟨.p .Asterix, _, by simp [fmtDecl, pp]; rfl, Or.inr (Or.inl rfl)⟩
  | .ref i, _, _ => ⟨.p .Ampersand, _, by simp [fmtDecl, pp]; rfl, Or.inr (Or.inr rfl)⟩
  | .arr i s, hb, hw => by
    obtain ⟨t, r, hr, ht⟩ := named_head i (by simpa [Decl.abstr] using hb) hw.2.1
    rw [fmtDecl_arr i s true hw.1]
    exact ⟨t, _, by simp [hr]; rfl, ht⟩
  | .arrN i, hb, hw => by
    obtain ⟨t, r, hr, ht⟩ := named_head i (by simpa [Decl.abstr] using hb) hw.2
    rw [fmtDecl_arrN i true hw.1]
    exact ⟨t, _, by simp [hr]; rfl, ht⟩

theorem baseName_of_named : (d : Decl) → d.abstr = false → ∃ n, baseName d = some n
  | .empty, h => by simp [Decl.abstr] at h
  | .name n, _ => ⟨n, rfl⟩
  | .ptr _ i, h => baseName_of_named i (by simpa [Decl.abstr] using h)
  | .ref i, h => baseName_of_named i (by simpa [Decl.abstr] using h)
  | .arr i _, h => baseName_of_named i (by simpa [Decl.abstr] using h)
  | .arrN i, h => baseName_of_named i (by simpa [Decl.abstr] using h)

/-- an arrays-only named declarator -/
theorem rtDeclN_arrs (d : Decl) (hw : WFDecl W d) (ha : arrOnly d = true) (ih : RTArrN W d) : RTDeclN W d := by
  intro hb rest hr hsafe
  obtain ⟨n, hn⟩ := baseName_of_named d hb
  obtain ⟨r0, hr0⟩ := arrN_head W d ha n hn hw
  obtain ⟨N, h⟩ := ih ha n hn rest (d, rest) hsafe ⟨1, arrDims_stop W d rest hr⟩
  refine ⟨N + 1, fun f hf => ?_⟩
  obtain ⟨f', rfl, hf'⟩ := succ_of_pos hf
  have := h f' hf'
  rw [hr0] at this ⊢
  simp only [List.tail_cons, List.cons_append] at this ⊢
  unfold parseDecl
  simp [this]

theorem rtDeclN_ptr (quals : List TypeMod) (inner : Decl) (hw : WFDecl W (.ptr quals inner)) (ih : RTDeclN W inner) :
    RTDeclN W (.ptr quals inner) := by
  intro hb rest hr hsafe
  obtain ⟨hq, hwi, hsb⟩ := hw
  have hbi : inner.abstr = false := by simpa [Decl.abstr] using hb
  have htoks : toks (fmtDecl (.ptr quals inner) true) ++ rest =
      .p .Asterix :: (quals.map modTok ++ (toks (fmtDecl inner true) ++ rest)) := by
    simp [fmtDecl, pp, toks_fmtMods_after]
  rw [htoks] at hsafe ⊢
  obtain ⟨t0, r0, hr0, ht0⟩ := named_head W inner hbi hwi
  have hhead : ∀ t r, toks (fmtDecl inner true) ++ rest = t :: r →
      t ≠ .p .Const ∧ t ≠ .p .Volatile ∧ t ≠ .p .LeftSquareBracket := by
    intro t r h
    rw [hr0] at h
    simp only [List.cons_append, List.cons.injEq] at h
    obtain ⟨rfl, _⟩ := h
    rcases ht0 with ⟨n, rfl⟩ | rfl | rfl <;> exact ⟨(by intro h; cases h), (by intro h; cases h), (by intro h; cases h)⟩
  obtain ⟨N, h⟩ := ih hbi rest hr (fun hl => tmplFree_suffix
    ((List.suffix_append _ _).trans (List.suffix_cons _ _)) (hsafe (by simpa [hasLtDecl] using hl)))
  refine ⟨N + 1, fun f hf => ?_⟩
  obtain ⟨f', rfl, hf'⟩ := succ_of_pos hf
  have hmods := takeModsAfter_quals quals hq (toks (fmtDecl inner true) ++ rest)
    (fun t r ht => ⟨(hhead t r ht).1, (hhead t r ht).2.1⟩)
  unfold parseDecl
  split
  · rename_i tl heq
    simp only [List.cons.injEq, true_and] at heq
    cases quals with
    | nil =>
      simp only [List.map_nil, List.nil_append] at heq
      exact absurd rfl ((hhead _ _ heq).2.2)
    | cons q qs =>
      have := hq q List.mem_cons_self
      rcases this with rfl | rfl <;> simp [modTok, modBeforeKw] at heq
  · rename_i r1 _ heq
    simp only [List.cons.injEq, true_and] at heq
    subst heq
    simp [hmods, h f' hf']
  · rename_i heq; simp at heq
  · rename_i heq; simp at heq
  · rename_i h1 h2 h3 h4
    exact absurd rfl (h2 _)

theorem rtDeclN_ref (inner : Decl) (hw : WFDecl W (.ref inner)) (ih : RTDeclN W inner) : RTDeclN W (.ref inner) := by
  intro hb rest hr hsafe
  obtain ⟨hwi, hsb, _⟩ := hw
  have hbi : inner.abstr = false := by simpa [Decl.abstr] using hb
  have htoks : toks (fmtDecl (.ref inner) true) ++ rest = .p .Ampersand :: (toks (fmtDecl inner true) ++ rest) := by
    simp [fmtDecl, pp]
  rw [htoks] at hsafe ⊢
  obtain ⟨t0, r0, hr0, ht0⟩ := named_head W inner hbi hwi
  obtain ⟨N, h⟩ := ih hbi rest hr (fun hl => tmplFree_suffix (List.suffix_cons _ _) (hsafe (by simpa [hasLtDecl] using hl)))
  refine ⟨N + 1, fun f hf => ?_⟩
  obtain ⟨f', rfl, hf'⟩ := succ_of_pos hf
  unfold parseDecl
  split
  · rename_i heq; simp at heq
  · rename_i heq; simp at heq
  · rename_i tl heq
    simp only [List.cons.injEq, true_and] at heq
    rw [hr0] at heq
    simp only [List.cons_append, List.cons.injEq] at heq
    obtain ⟨rfl, _⟩ := heq
    rcases ht0 with ⟨n, h⟩ | h | h <;> cases h
  · rename_i r1 _ heq
    simp only [List.cons.injEq, true_and] at heq
    subst heq
    simp [h f' hf']
  · rename_i h1 h2 h3 h4
    exact absurd rfl (h4 _)

-- the induction over named declarators
mutual
theorem rtDN : (d : Decl) → WFDecl W d → RTDeclN W d
  | .empty, _ => by intro hb; simp [Decl.abstr] at hb
  | .name n, h => rtDeclN_arrs W (.name n) h rfl (rtArrN_name W n)
  | .ptr q i, h => rtDeclN_ptr W q i h (rtDN i h.2.1)
  | .ref i, h => rtDeclN_ref W i h (rtDN i h.1)
  | .arr i s, h => rtDeclN_arrs W (.arr i s) h (by simp [arrOnly, arrOnly_of_noScope W i h.2.1 h.1])
      (rtArrN_arr W i s h (rtArN i h.2.1) (rt W s h.2.2))
  | .arrN i, h => rtDeclN_arrs W (.arrN i) h (by simp [arrOnly, arrOnly_of_noScope W i h.2 h.1])
      (rtArrN_arrN W i h (rtArN i h.2))
theorem rtArN : (d : Decl) → WFDecl W d → RTArrN W d
  | .empty, _ => by intro _ n hn; simp [baseName] at hn
  | .name n, _ => rtArrN_name W n
  | .ptr q i, _ => by intro ha; simp [arrOnly] at ha
  | .ref i, _ => by intro ha; simp [arrOnly] at ha
  | .arr i s, h => rtArrN_arr W i s h (rtArN i h.2.1) (rt W s h.2.2)
  | .arrN i, h => rtArrN_arrN W i h (rtArN i h.2)
end

/-! ## Initialisers -/

theorem parseOpAt_rbrace (term : Terminator) (rest : List Tok) (k : Nat) :
    parseOpAt k term (.p .RightBrace :: rest) = none := by
  unfold parseOpAt
  split <;> (try rfl) <;>
    simp [parseOp3, parseOp4, parseOp5, parseOp6, parseOp7, parseOp8, parseOp9, parseOp10,
        parseOp11, parseOp12, parseOp14, parseOp15, firstArm, matchPrefix, Tok.isLt, Tok.isGt]

theorem inert_rbrace (k : Nat) (term : Terminator) (rest : List Tok) : Inert W k term (.p .RightBrace :: rest) := by
  apply inert_of
  · intro _; simp [NoPostfix, Tok.isLt]
  · intro _; simp [NoQuestion]
  · intro _ _ _; exact parseOpAt_rbrace term rest k

/-- what follows an initialiser: `,`, `}` or `;` -/
def InitRest : List Tok → Prop
  | .p .Comma :: _ => True
  | .p .RightBrace :: _ => True
  | .p .Semicolon :: _ => True
  | _ => False

theorem initRest_inert {rest : List Tok} (h : InitRest rest) (k : Nat) : Inert W k .Sequence rest := by
  match rest, h with
  | .p .Comma :: r, _ => exact inert_closes W k _ _ _ (Or.inr (Or.inr (Or.inr (Or.inr (Or.inl ⟨rfl, rfl⟩)))))
  | .p .RightBrace :: r, _ => exact inert_rbrace W k _ r
  | .p .Semicolon :: r, _ => exact inert_closes W k _ _ _ (Or.inr (Or.inr (Or.inr (Or.inl rfl))))

theorem pos_init (x : XExpr) (h : needParen x.prec initPrec initSide = false) : x.lvl ≤ 14 := by
  cases x with
  | lit l => simp only [XExpr.prec, XExpr.lvl, litPrec] at h ⊢ <;> generalize litNegative l = b at h ⊢ <;> cases b <;> revert h <;> decide
  | un o _ => cases o <;> simp only [XExpr.prec, XExpr.lvl] at h ⊢ <;> revert h <;> decide
  | bin o _ _ => cases o <;> simp only [XExpr.prec, XExpr.lvl] at h ⊢ <;> revert h <;> decide
  | _ => simp only [XExpr.prec, XExpr.lvl] at h ⊢ <;> revert h <;> decide

/-- an initialiser expression (printed at `(17, CommaList)`) in front of `,` / `}` / `;` -/
theorem initExpr_reads (e : XExpr) (hwf : WF W e) (rest : List Tok) (hr : InitRest rest)
    (hsafe : hasLt e = true → TmplFree (toks (fmtSubX e initPrec initSide) ++ rest) = true) :
    ∃ N, ∀ f, N ≤ f → xparseLvl W f 15 initTerminator (toks (fmtSubX e initPrec initSide) ++ rest) = some (e, rest) := by
  have hpo : PosOk initPrec initSide := Or.inl (by decide)
  exact rts_self W (rt W e hwf) _ _ 15 .Sequence rest (Nat.le_refl _)
    (fun hp => ⟨by have := pos_init e hp; omega, fun h => by have := pos_init e hp; omega, fun h => by cases h⟩)
    (fun hp => parenDead W e hwf (needParen_prec hpo hp) _) hsafe
    (fun i _ _ => initRest_inert W hr i) (fun _ => initRest_inert W hr 15)

mutual
def WFInit : Init → Prop
  | .expr e => WF W e
  | .agg l => WFInits l
def WFInits : Inits → Prop
  | .nil => True
  | .cons i r => WFInit i ∧ WFInits r
end

def RInit (i : Init) : Prop :=
  ∀ rest, InitRest rest → (hasLtInit i = true → TmplFree (toks (fmtInit i) ++ rest) = true) →
    ∃ N, ∀ f, N ≤ f → parseInitAny W f (toks (fmtInit i) ++ rest) = some (i, rest)

/-- the elements of a non-empty aggregate up to (not including) the closing brace -/
def RInits : Inits → Prop
  | .nil => True
  | .cons i r => ∀ rest,
      (hasLtInits (.cons i r) = true → TmplFree (toks (fmtInit i) ++ (toks (fmtInitTail r) ++ .p .RightBrace :: rest)) = true) →
      ∃ N, ∀ f, N ≤ f → parseInitList W f (toks (fmtInit i) ++ (toks (fmtInitTail r) ++ .p .RightBrace :: rest)) =
        some (.cons i r, .p .RightBrace :: rest)

/-- first token of a printed initialiser: an expression head or `{` -/
theorem init_head (i : Init) (hw : WFInit W i) :
    ∃ t r, toks (fmtInit i) = t :: r ∧ (ExprHead t ∨ t = .p .LeftBrace) := by
  cases i with
  | expr e =>
    obtain ⟨t, ts', h1, h2⟩ := exprHead_fmt W e hw initPrec initSide
    exact ⟨t, ts', by simpa [RsslVerif.Model.FormatStmt.fmtInit] using h1, Or.inl h2⟩
  | agg l =>
    cases l with
    | nil => exact ⟨.p .LeftBrace, _, by simp [RsslVerif.Model.FormatStmt.fmtInit, pp]; rfl, Or.inr rfl⟩
    | cons i r => exact ⟨.p .LeftBrace, _, by simp [RsslVerif.Model.FormatStmt.fmtInit, pp]; rfl, Or.inr rfl⟩

theorem exprHead_ne (t : Tok) (h : ExprHead t) :
    t ≠ .p .LeftBrace ∧ t ≠ .p .RightBrace ∧ t ≠ .p .Comma ∧ t ≠ .p .Semicolon ∧ t ≠ .p .Else ∧
    t ≠ .p .LeftSquareBracket := by
  rcases h with ⟨n, rfl⟩ | ⟨l, rfl⟩ | rfl | ⟨op, h⟩ | rfl
  · exact ⟨(by intro h; cases h), (by intro h; cases h), (by intro h; cases h), (by intro h; cases h), (by intro h; cases h), (by intro h; cases h)⟩
  · exact ⟨(by intro h; cases h), (by intro h; cases h), (by intro h; cases h), (by intro h; cases h), (by intro h; cases h), (by intro h; cases h)⟩
  · exact ⟨(by decide), (by decide), (by decide), (by decide), (by decide), (by decide)⟩
  · refine ⟨?_, ?_, ?_, ?_, ?_, ?_⟩ <;> (intro h'; subst h'; simp [prefixOp] at h)
  · exact ⟨(by decide), (by decide), (by decide), (by decide), (by decide), (by decide)⟩

theorem rInit_expr (e : XExpr) (hw : WF W e) : RInit W (.expr e) := by
  intro rest hr hsafe
  obtain ⟨N, h⟩ := initExpr_reads W e hw rest hr (fun hl => by simpa [RsslVerif.Model.FormatStmt.fmtInit] using hsafe (by simpa [hasLtInit] using hl))
  obtain ⟨t, ts', h1, h2⟩ := exprHead_fmt W e hw initPrec initSide
  refine ⟨N + 1, fun f hf => ?_⟩
  obtain ⟨f', rfl, hf'⟩ := succ_of_pos hf
  have hh := h f' hf'
  simp only [RsslVerif.Model.FormatStmt.fmtInit]
  rw [h1] at hh ⊢
  unfold parseInitAny
  simp only [List.cons_append] at hh ⊢
  split
  · rename_i heq
    simp only [List.cons.injEq] at heq
    exact absurd heq.1 (exprHead_ne t h2).1
  · rw [hh]

theorem rInit_aggNil : RInit W (.agg .nil) := by
  intro rest hr _
  refine ⟨2, fun f hf => ?_⟩
  obtain ⟨f', rfl, hf'⟩ := succ_of_pos hf
  obtain ⟨f'', rfl, _⟩ := succ_of_pos hf'
  simp [RsslVerif.Model.FormatStmt.fmtInit, pp, parseInitAny, parseInitList]

theorem rInit_agg (i : Init) (r : Inits) (ih : RInits W (.cons i r)) : RInit W (.agg (.cons i r)) := by
  intro rest hr hsafe
  have htoks : toks (fmtInit (.agg (.cons i r))) ++ rest =
      .p .LeftBrace :: (toks (fmtInit i) ++ (toks (fmtInitTail r) ++ .p .RightBrace :: rest)) := by
    simp [RsslVerif.Model.FormatStmt.fmtInit, pp]
  rw [htoks] at hsafe ⊢
  obtain ⟨N, h⟩ := ih rest (fun hl => tmplFree_suffix (List.suffix_cons _ _) (hsafe (by simpa [hasLtInit] using hl)))
  refine ⟨N + 1, fun f hf => ?_⟩
  obtain ⟨f', rfl, hf'⟩ := succ_of_pos hf
  unfold parseInitAny
  simp [h f' hf']

theorem rInits_single (i : Init) (hw : WFInit W i) (ih : RInit W i) : RInits W (.cons i .nil) := by
  intro rest hsafe
  simp only [fmtInitTail, toks_nil, List.nil_append] at hsafe ⊢
  obtain ⟨N, h⟩ := ih (.p .RightBrace :: rest) trivial (fun hl => hsafe (by simp [hasLtInits, hl]))
  obtain ⟨t, ts', h1, h2⟩ := init_head W i hw
  refine ⟨N + 1, fun f hf => ?_⟩
  obtain ⟨f', rfl, hf'⟩ := succ_of_pos hf
  have hh := h f' hf'
  rw [h1] at hh ⊢
  simp only [List.cons_append] at hh ⊢
  unfold parseInitList
  split
  · rename_i heq
    simp only [List.cons.injEq] at heq
    rcases h2 with h2 | h2
    · exact absurd heq.1 (exprHead_ne t h2).2.1
    · rw [h2] at heq; cases heq.1
  · rw [hh]

theorem rInits_cons (i j : Init) (r : Inits) (hw : WFInit W i) (hwj : WFInit W j) (ih : RInit W i)
    (ihr : RInits W (.cons j r)) : RInits W (.cons i (.cons j r)) := by
  intro rest hsafe
  have htail : toks (fmtInitTail (.cons j r)) = .p .Comma :: (toks (fmtInit j) ++ toks (fmtInitTail r)) := by
    simp [fmtInitTail, comma, pp]
  rw [htail] at hsafe ⊢
  simp only [List.cons_append, List.append_assoc] at hsafe ⊢
  obtain ⟨N1, h1⟩ := ih (.p .Comma :: (toks (fmtInit j) ++ (toks (fmtInitTail r) ++ .p .RightBrace :: rest))) trivial
    (fun hl => hsafe (by simp [hasLtInits, hl]))
  obtain ⟨N2, h2⟩ := ihr rest (fun hl => tmplFree_suffix ((List.suffix_cons _ _).trans (List.suffix_append _ _))
    (hsafe (by simp only [hasLtInits, Bool.or_eq_true] at hl ⊢; exact Or.inr hl)))
  obtain ⟨t, ts', ht, hth⟩ := init_head W i hw
  obtain ⟨u, us', hu, huh⟩ := init_head W j hwj
  refine ⟨max N1 N2 + 1, fun f hf => ?_⟩
  obtain ⟨f', rfl, hf'⟩ := succ_of_pos hf
  have hh1 := h1 f' (by omega)
  have hh2 := h2 f' (by omega)
  rw [ht] at hh1 ⊢
  rw [hu] at hh1 hh2 ⊢
  simp only [List.cons_append] at hh1 hh2 ⊢
  unfold parseInitList
  split
  · rename_i heq
    simp only [List.cons.injEq] at heq
    rcases hth with h | h
    · exact absurd heq.1 (exprHead_ne t h).2.1
    · rw [h] at heq; cases heq.1
  · rw [hh1]
    have hune : u ≠ .p .RightBrace := by
      rcases huh with h | h
      · exact (exprHead_ne u h).2.1
      · rw [h]; decide
    skip
    split
    · rename_i heq
      simp only [Option.some.injEq, Prod.mk.injEq, List.cons.injEq] at heq
      exact absurd heq.2.2.1 hune
    · rename_i heq
      simp only [Option.some.injEq, Prod.mk.injEq, List.cons.injEq] at heq
      obtain ⟨rfl, _, rfl⟩ := heq
      rw [hh2]
    · rename_i h3 h4 heq
      simp only [Option.some.injEq, Prod.mk.injEq] at heq
      obtain ⟨rfl, rfl⟩ := heq
      exact (h4 _ rfl).elim
    · rename_i heq; cases heq

mutual
theorem rIn : (i : Init) → WFInit W i → RInit W i
  | .expr e, h => rInit_expr W e h
  | .agg .nil, _ => rInit_aggNil W
  | .agg (.cons i r), h => rInit_agg W i r (rIns (.cons i r) h)
theorem rIns : (l : Inits) → WFInits W l → RInits W l
  | .nil, _ => trivial
  | .cons i .nil, h => rInits_single W i h.1 (rIn i h.1)
  | .cons i (.cons j r), h => rInits_cons W i j r h.1 h.2.1 (rIn i h.1) (rIns (.cons j r) h.2)
end

/-! ## Init-declarator lists -/

/-- tokens of one init-declarator -/
def idToks (d : InitDecl) : List Tok :=
  toks (fmtDecl d.decl true) ++ (match d.init with
    | none => []
    | some i => .p .Equals :: toks (RsslVerif.Model.FormatStmt.fmtInit i))

theorem toks_fmtInitDecl (d : InitDecl) (single : Bool) : toks (fmtInitDecl d single) = idToks d := by
  unfold fmtInitDecl idToks
  cases hd : d.init <;> cases single <;> simp [toks_fmtDecl_single d.decl false, pp]

/-- `, d` for every further init-declarator -/
def commaAll : List InitDecl → List Tok
  | [] => []
  | d :: r => .p .Comma :: (idToks d ++ commaAll r)

/-- tokens of a non-empty list of init-declarators: separated by commas -/
def idsToks : List InitDecl → List Tok
  | [] => []
  | d :: r => idToks d ++ commaAll r

theorem toks_go_false : ∀ (ds : List InitDecl) (single : Bool), toks (fmtInitDecls.go ds single false) = commaAll ds
  | [], _ => rfl
  | d :: r, single => by
    simp [fmtInitDecls.go, toks_fmtInitDecl, commaAll, toks_go_false r single, comma, pp]

theorem toks_fmtInitDecls (ds : List InitDecl) : toks (fmtInitDecls ds) = idsToks ds := by
  unfold fmtInitDecls
  cases ds with
  | nil => rfl
  | cons d r => simp [fmtInitDecls.go, toks_fmtInitDecl, idsToks, toks_go_false]

/-- an initialiser expression directly after `=` must not start with the name `StaticSampler` -/
def notStaticSampler : List Tok → Bool
  | .id "StaticSampler" :: _ => false
  | _ => true

def WFInitDecl (d : InitDecl) : Prop :=
  d.decl.abstr = false ∧ WFDecl W d.decl ∧
  (match d.init with
   | none => True
   | some i => WFInit W i ∧ notStaticSampler (toks (RsslVerif.Model.FormatStmt.fmtInit i)) = true)

def hasLtID (d : InitDecl) : Bool :=
  hasLtDecl d.decl || (match d.init with | none => false | some i => hasLtInit i)

/-- what follows an init-declarator: `,` or `;` -/
def IdRest : List Tok → Prop
  | .p .Comma :: _ => True
  | .p .Semicolon :: _ => True
  | _ => False

/-- the declarator and the initialiser of one init-declarator -/
theorem initDecl_reads (d : InitDecl) (hw : WFInitDecl W d) (rest : List Tok) (hr : IdRest rest)
    (hsafe : hasLtID d = true → TmplFree (idToks d ++ rest) = true) :
    ∃ N, ∀ f, N ≤ f →
      (∃ r, parseDecl W f false (idToks d ++ rest) = some (d.decl, r) ∧ (∀ r', r ≠ .p .Colon :: r') ∧
        parseInitializer W f r = some (d.init, rest)) := by
  obtain ⟨hab, hwd, hwi⟩ := hw
  have hrI : InitRest rest := by
    match rest, hr with
    | .p .Comma :: _, _ => trivial
    | .p .Semicolon :: _, _ => trivial
  cases hi : d.init with
  | none =>
    have htoks : idToks d ++ rest = toks (fmtDecl d.decl true) ++ rest := by simp [idToks, hi]
    rw [htoks] at hsafe ⊢
    obtain ⟨N, h⟩ := rtDN W d.decl hwd hab rest
      (by intro r h; subst h; exact hr)
      (fun hl => hsafe (by simp [hasLtID, hl]))
    refine ⟨N + 1, fun f hf => ⟨rest, h f (by omega), ?_, ?_⟩⟩
    · intro r' h; subst h; exact hr
    · match rest, hr with
      | .p .Comma :: r, _ => rfl
      | .p .Semicolon :: r, _ => rfl
  | some i =>
    rw [hi] at hwi
    obtain ⟨hwI, hss⟩ := hwi
    have htoks : idToks d ++ rest = toks (fmtDecl d.decl true) ++
        (.p .Equals :: (toks (RsslVerif.Model.FormatStmt.fmtInit i) ++ rest)) := by simp [idToks, hi]
    rw [htoks] at hsafe ⊢
    obtain ⟨N1, h1⟩ := rtDN W d.decl hwd hab (.p .Equals :: (toks (RsslVerif.Model.FormatStmt.fmtInit i) ++ rest))
      (by intro r h; cases h)
      (fun hl => hsafe (by simp [hasLtID, hl]))
    obtain ⟨N2, h2⟩ := rIn W i hwI rest hrI (fun hl => tmplFree_suffix
      ((List.suffix_cons _ _).trans (List.suffix_append _ _)) (hsafe (by simp [hasLtID, hi, hl])))
    obtain ⟨t, ts', ht, hth⟩ := init_head W i hwI
    refine ⟨max N1 N2 + 1, fun f hf => ⟨_, h1 f (by omega), (by intro r' h; cases h), ?_⟩⟩
    have hh := h2 (f + 1) (by omega)
    have hh0 := h2 f (by omega)
    rw [ht] at hh hh0 hss ⊢
    simp only [List.cons_append] at hh hh0 ⊢
    unfold parseInitializer
    rcases hth with hE | hB
    · -- an expression
      have hne := (exprHead_ne t hE).1
      cases i with
      | agg l => cases l <;> simp [RsslVerif.Model.FormatStmt.fmtInit, pp] at ht <;> exact absurd ht.1.symm hne
      | expr e =>
        -- `parseInitAny` on an expression is the expression parse itself
        have hx : xparseLvl W f 15 initTerminator (t :: (ts' ++ rest)) = some (e, rest) := by
          have := hh
          unfold parseInitAny at this
          split at this
          · rename_i heq; simp only [List.cons.injEq] at heq; exact absurd heq.1 hne
          · split at this
            · rename_i e' r' heq
              simp only [Option.some.injEq, Prod.mk.injEq, Init.expr.injEq] at this
              obtain ⟨rfl, rfl⟩ := this
              exact heq
            · cases this
        split
        · rename_i heq; cases heq
        · rename_i heq
          simp only [List.cons.injEq, true_and] at heq
          obtain ⟨rfl, _⟩ := heq
          simp [notStaticSampler] at hss
        · rename_i heq
          simp only [List.cons.injEq, true_and] at heq
          exact absurd heq.1 hne
        · rename_i heq
          simp only [List.cons.injEq, true_and] at heq
          subst heq
          rw [hx]
        · rename_i h3
          exact (h3 _ rfl).elim
    · subst hB
      split
      · rename_i heq; cases heq
      · rename_i heq; simp at heq
      · rename_i heq
        simp only [List.cons.injEq, true_and] at heq
        obtain ⟨_, rfl⟩ := heq
        rw [hh0]
      · rename_i h3 heq
        simp only [List.cons.injEq, true_and] at heq
        subst heq
        exact absurd rfl (h3 _)
      · rename_i h3
        exact (h3 _ rfl).elim

def hasLtIDs : List InitDecl → Bool
  | [] => false
  | d :: r => hasLtID d || hasLtIDs r

theorem hasLtIDs_eq : ∀ ds, hasLtIDs ds = hasLtInitDecls ds
  | [] => rfl
  | d :: r => by
    simp only [hasLtIDs, hasLtInitDecls, hasLtID, hasLtIDs_eq r, Bool.or_assoc]
    cases d.init <;> rfl

/-- a non-empty list of init-declarators in front of `;` -/
theorem initDecls_read : ∀ (ds : List InitDecl), ds ≠ [] → (∀ d, d ∈ ds → WFInitDecl W d) →
    ∀ rest, (∃ r, rest = .p .Semicolon :: r) →
    (hasLtIDs ds = true → TmplFree (idsToks ds ++ rest) = true) →
    ∃ N, ∀ f, N ≤ f → parseInitDecls W f (idsToks ds ++ rest) = some (ds, rest)
  | [], h, _, _, _, _ => absurd rfl h
  | [d], _, hw, rest, ⟨r0, hr0⟩, hsafe => by
    subst hr0
    have htoks : idsToks [d] ++ .p .Semicolon :: r0 = idToks d ++ .p .Semicolon :: r0 := by simp [idsToks, commaAll]
    rw [htoks] at hsafe ⊢
    obtain ⟨N, h⟩ := initDecl_reads W d (hw d List.mem_cons_self) (.p .Semicolon :: r0) trivial
      (fun hl => hsafe (by simp [hasLtIDs, hl]))
    refine ⟨N + 1, fun f hf => ?_⟩
    obtain ⟨f', rfl, hf'⟩ := succ_of_pos hf
    obtain ⟨r, h1, h2, h3⟩ := h f' hf'
    unfold parseInitDecls
    rw [h1]
    split
    · rename_i heq
      simp only [Option.some.injEq, Prod.mk.injEq] at heq
      exact absurd heq.2 (h2 _)
    · rename_i heq
      simp only [Option.some.injEq, Prod.mk.injEq] at heq
      obtain ⟨rfl, rfl⟩ := heq
      rw [h3]
    · rename_i heq; cases heq
  | d :: d' :: r, _, hw, rest, hrest, hsafe => by
    have htoks : idsToks (d :: d' :: r) ++ rest = idToks d ++ (.p .Comma :: (idsToks (d' :: r) ++ rest)) := by
      simp [idsToks, commaAll]
    rw [htoks] at hsafe ⊢
    obtain ⟨N1, h1⟩ := initDecl_reads W d (hw d List.mem_cons_self) (.p .Comma :: (idsToks (d' :: r) ++ rest)) trivial
      (fun hl => hsafe (by simp [hasLtIDs, hl]))
    obtain ⟨N2, h2⟩ := initDecls_read (d' :: r) (by simp) (fun x hx => hw x (List.mem_cons_of_mem _ hx)) rest hrest
      (fun hl => tmplFree_suffix ((List.suffix_cons _ _).trans (List.suffix_append _ _))
        (hsafe (by simp only [hasLtIDs, Bool.or_eq_true] at hl ⊢; exact Or.inr hl)))
    refine ⟨max N1 N2 + 1, fun f hf => ?_⟩
    obtain ⟨f', rfl, hf'⟩ := succ_of_pos hf
    obtain ⟨r1, g1, g2, g3⟩ := h1 f' (by omega)
    unfold parseInitDecls
    rw [g1]
    split
    · rename_i heq
      simp only [Option.some.injEq, Prod.mk.injEq] at heq
      exact absurd heq.2 (g2 _)
    · rename_i heq
      simp only [Option.some.injEq, Prod.mk.injEq] at heq
      obtain ⟨rfl, rfl⟩ := heq
      rw [g3]
      simp only [h2 f' (by omega)]
    · rename_i heq; cases heq

/-! ## The shared type and the whole definition -/

def WFVarDef (v : VarDef) : Prop :=
  modBeforeStep (.id v.name) = .stop ∧ WFTArgs W v.targs ∧ v.defs ≠ [] ∧ (∀ d, d ∈ v.defs → WFInitDecl W d)

theorem toks_fmtTy (mods : List TypeMod) (n : String) (targs : TArgs) (fol : Bool) :
    toks (fmtTy mods n targs fol) = mods.map modTok ++ (.id n :: toks (fmtTArgs targs fol)) := by
  simp [fmtTy, toks_fmtMods_before]

/-- first token of a non-empty list of init-declarators -/
theorem ids_head (ds : List InitDecl) (hne : ds ≠ []) (hw : ∀ d, d ∈ ds → WFInitDecl W d) :
    ∃ t r, idsToks ds = t :: r ∧ ((∃ n, t = .id n) ∨ t = .p .Asterix ∨ t = .p .Ampersand) := by
  cases ds with
  | nil => exact absurd rfl hne
  | cons d r =>
    obtain ⟨hab, hwd, _⟩ := hw d List.mem_cons_self
    obtain ⟨t, r0, hr0, ht⟩ := named_head W d.decl hab hwd
    exact ⟨t, _, by simp [idsToks, idToks, hr0]; rfl, ht⟩

theorem varDef_reads (v : VarDef) (hw : WFVarDef W v) (rest : List Tok) (hrest : ∃ r, rest = .p .Semicolon :: r)
    (hsafe : hasLtVarDef v = true → TmplFree (toks (fmtVarDef v) ++ rest) = true) :
    ∃ N, ∀ f, N ≤ f → parseVarDef W f (toks (fmtVarDef v) ++ rest) = some (v, rest) := by
  obtain ⟨hstop, hwT, hne, hwD⟩ := hw
  obtain ⟨t0, r0, ht0, hth⟩ := ids_head W v.defs hne hwD
  have htoks : toks (fmtVarDef v) ++ rest = v.mods.map modTok ++ (.id v.name ::
      (toks (fmtTArgs v.targs (startsTok (fmtInitDecls v.defs) false)) ++ (idsToks v.defs ++ rest))) := by
    simp [fmtVarDef, toks_fmtTy, toks_fmtInitDecls]
  rw [htoks] at hsafe ⊢
  have hT0 : t0.isLt = false ∧ t0 ≠ .p .Const ∧ t0 ≠ .p .Volatile ∧ t0.isGt = false ∧ t0 ≠ .p .Equals := by
    rcases hth with ⟨n, rfl⟩ | rfl | rfl <;>
      exact ⟨rfl, (by intro h; cases h), (by intro h; cases h), rfl, (by intro h; cases h)⟩
  obtain ⟨N2, h2⟩ := initDecls_read W v.defs hne hwD rest hrest (fun hl => tmplFree_suffix
    ((List.suffix_append _ _).trans ((List.suffix_cons _ _).trans (List.suffix_append _ _)))
    (hsafe (by rw [hasLtIDs_eq] at hl; simp [hasLtVarDef, hl])))
  have hT : ∃ N1, ∀ f, N1 ≤ f →
      parseTArgsReq W f (toks (fmtTArgs v.targs (startsTok (fmtInitDecls v.defs) false)) ++ (idsToks v.defs ++ rest)) =
          some (v.targs, idsToks v.defs ++ rest) ∨
      (parseTArgsReq W f (toks (fmtTArgs v.targs (startsTok (fmtInitDecls v.defs) false)) ++ (idsToks v.defs ++ rest)) = none ∧
        v.targs = .nil) := by
    cases hta : v.targs with
    | nil =>
      refine ⟨0, fun f _ => Or.inr ⟨?_, rfl⟩⟩
      simp only [fmtTArgs, toks_nil, List.nil_append, ht0, List.cons_append]
      exact parseTArgsReq_notlt W f t0 _ hT0.1
    | cons a r =>
      have hRT := rtTArgs_of_list W v.targs hwT (rtL W v.targs hwT)
      rw [hta] at hRT hwT
      obtain ⟨N1, h1⟩ := hRT a r rfl (startsTok (fmtInitDecls v.defs) false) (idsToks v.defs ++ rest)
        (by rw [ht0]; exact shift_of_head (by intro t r h; simp only [List.cons_append, List.cons.injEq] at h; rw [← h.1]; exact hT0.2.2.2.1))
        (by rw [ht0]; exact noEq_of_head (by intro t r h; simp only [List.cons_append, List.cons.injEq] at h; rw [← h.1]; exact hT0.2.2.2.2))
        (fun hl => tmplFree_suffix ((List.suffix_cons _ _).trans (List.suffix_append _ _)) (by
          have := hsafe (by simp [hasLtVarDef, hta, hl])
          simpa [hta] using this))
      exact ⟨N1, fun f hf => Or.inl (h1 f hf)⟩
  obtain ⟨N1, h1⟩ := hT
  have hafter : takeModsAfter (idsToks v.defs ++ rest) = ([], idsToks v.defs ++ rest) := by
    rw [ht0]; exact takeModsAfter_stop _ _ hT0.2.1 hT0.2.2.1
  refine ⟨max N1 N2, fun f hf => ?_⟩
  unfold parseVarDef parseTy
  rw [takeModsBefore_mods v.mods (.id v.name) _ hstop]
  rcases h1 f (by omega) with h | ⟨h, hnil⟩
  · simp only [h, hafter, List.append_nil, h2 f (by omega)]
  · rw [hnil] at h ⊢
    simp only [fmtTArgs, toks_nil, List.nil_append] at h ⊢
    simp only [h, hafter, List.append_nil, h2 f (by omega)]
    rw [← hnil]

end RsslVerif.Lemmas.StmtRT

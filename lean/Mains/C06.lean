import RsslVerif.Driver.Loop
import RsslVerif.Driver.C06
/-! `rsslmodel_c06`: the C06 model behind the line protocol (one executable per property, so that a
    table that can no longer be extracted for one property cannot break another property's check). -/
def main : IO Unit := RsslVerif.Driver.runDriver RsslVerif.Driver.C06.handle

// part of vmev.rs: statements

impl<'a> MslV<'a> {
    fn decls(&self, items: &[Sx], fr: &mut Frame, mem: &mut Mem, cx: &Cx, depth: u32) -> Option<()> {
        for d in items {
            let n = d.args()[0].atom();
            let t = self.ty(&d.args()[1], fr)?;
            let v = match d.args().get(2) {
                Some(i) => self.init_value(&t, i, fr, mem, cx, depth)?,
                None => self.undef(&t)?,
            };
            let c = mem.alloc(v, n);
            fr.vars.insert(n.to_string(), Binding { place: Place { cell: c, path: vec![] }, ty: t });
        }
        Some(())
    }

    fn cond(&self, e: &Sx, fr: &mut Frame, mem: &mut Mem, cx: &Cx, depth: u32) -> Option<bool> {
        if e.head() == "none" {
            return Some(true);
        }
        self.eval_bool(e, fr, mem, cx, depth)
    }

    pub fn exec(&self, s: &Sx, fr: &mut Frame, mem: &mut Mem, cx: &Cx, depth: u32) -> Option<Flow> {
        let x = s.args();
        match s.head() {
            "expr" => {
                self.type_of(&x[0], fr, cx)?;
                self.eval(&x[0], fr, mem, cx, depth)?;
                Some(Flow::Normal)
            }
            "var" => {
                self.decls(x, fr, mem, cx, depth)?;
                Some(Flow::Normal)
            }
            "block" => {
                for st in x {
                    match self.exec(st, fr, mem, cx, depth)? {
                        Flow::Normal => {}
                        other => return Some(other),
                    }
                }
                Some(Flow::Normal)
            }
            "if" => {
                if self.cond(&x[0], fr, mem, cx, depth)? { self.exec(&x[1], fr, mem, cx, depth) } else { Some(Flow::Normal) }
            }
            "ifelse" => {
                if self.cond(&x[0], fr, mem, cx, depth)? { self.exec(&x[1], fr, mem, cx, depth) } else { self.exec(&x[2], fr, mem, cx, depth) }
            }
            "for" | "while" => {
                let (cond, inc, body) = if s.head() == "for" {
                    match x[0].head() {
                        "none" => {}
                        "e" => {
                            self.eval(&x[0].args()[0], fr, mem, cx, depth)?;
                        }
                        "decl" => self.decls(x[0].args(), fr, mem, cx, depth)?,
                        _ => return other("for-init form".into()),
                    }
                    (&x[1], Some(&x[2]), &x[3])
                } else {
                    (&x[0], None, &x[1])
                };
                for _ in 0..FUEL {
                    if !self.cond(cond, fr, mem, cx, depth)? {
                        return Some(Flow::Normal);
                    }
                    match self.exec(body, fr, mem, cx, depth)? {
                        Flow::Break => return Some(Flow::Normal),
                        Flow::Ret(v) => return Some(Flow::Ret(v)),
                        _ => {}
                    }
                    if let Some(i) = inc {
                        if i.head() != "none" {
                            self.eval(i, fr, mem, cx, depth)?;
                        }
                    }
                }
                stuck(Stuck::Skip, "out of fuel".into())
            }
            "dowhile" => {
                for _ in 0..FUEL {
                    match self.exec(&x[0], fr, mem, cx, depth)? {
                        Flow::Break => return Some(Flow::Normal),
                        Flow::Ret(v) => return Some(Flow::Ret(v)),
                        _ => {}
                    }
                    if !self.cond(&x[1], fr, mem, cx, depth)? {
                        return Some(Flow::Normal);
                    }
                }
                stuck(Stuck::Skip, "out of fuel".into())
            }
            "break" => Some(Flow::Break),
            "continue" => Some(Flow::Continue),
            "ret" => {
                if x.is_empty() {
                    Some(Flow::Ret(None))
                } else {
                    let rt = fr.ret.clone();
                    let v = self.eval_as(&rt, &x[0], fr, mem, cx, depth)?;
                    Some(Flow::Ret(Some(v)))
                }
            }
            "empty" => Some(Flow::Normal),
            "case" => self.exec(&x[1], fr, mem, cx, depth),
            "default" => self.exec(&x[0], fr, mem, cx, depth),
            "switch" => {
                if x[1].head() != "block" {
                    return other("switch body".into());
                }
                let tc = self.arith(&self.type_of(&x[0], fr, cx)?)?;
                let k = match tc {
                    MTy::S(MS::LitInt) => MS::Int,
                    MTy::S(k) if is_integer(promote(k)) => promote(k),
                    _ => return stuck(Stuck::Skip, "switch on a non-integer".into()),
                };
                let t = MTy::S(k);
                let cv = {
                    let from = self.type_of(&x[0], fr, cx)?;
                    let v = self.eval(&x[0], fr, mem, cx, depth)?;
                    self.operand(&from, &t, v)?
                };
                enum Item<'s> {
                    Case(&'s Sx),
                    Default,
                    Stmt(&'s Sx),
                }
                fn flat<'s>(s: &'s Sx, out: &mut Vec<Item<'s>>) {
                    match s.head() {
                        "case" => {
                            out.push(Item::Case(&s.args()[0]));
                            flat(&s.args()[1], out)
                        }
                        "default" => {
                            out.push(Item::Default);
                            flat(&s.args()[0], out)
                        }
                        "empty" => {}
                        _ => out.push(Item::Stmt(s)),
                    }
                }
                let mut items = Vec::new();
                for s in x[1].args() {
                    flat(s, &mut items);
                }
                let mut start = None;
                for (i, it) in items.iter().enumerate() {
                    if let Item::Case(e) = it {
                        let from = self.type_of(e, fr, cx)?;
                        let v = self.eval(e, fr, mem, cx, depth)?;
                        if self.operand(&from, &t, v)? == cv {
                            start = Some(i);
                            break;
                        }
                    }
                }
                if start.is_none() {
                    start = items.iter().position(|it| matches!(it, Item::Default));
                }
                if let Some(i) = start {
                    for it in &items[i..] {
                        if let Item::Stmt(s) = it {
                            match self.exec(s, fr, mem, cx, depth)? {
                                Flow::Normal => {}
                                Flow::Break => return Some(Flow::Normal),
                                other => return Some(other),
                            }
                        }
                    }
                }
                Some(Flow::Normal)
            }
            _ => other(format!("statement {}", s.show())),
        }
    }
}

import RsslVerif.Model.MetaLayers
/-!
# What a global's layer chain means for its binding, stated without any peel

A binding is an object, or *one* array layer of objects; modifiers (`const`, the implicit const of an extern global,
modifiers a typedef carries) never matter, wherever they sit in the chain.  The binding slots cover one array layer
only (`assign_api_bindings`): a chain with two array layers is not a binding.
-/
namespace RsslVerif.Spec.Meta
open RsslVerif.Gen.SlotTables RsslVerif.Model.Meta

/-- array lengths of the chain, outermost first, looking through modifiers -/
def Ty.dims : Ty → List (Option Nat)
  | .object _ => []
  | .other => []
  | .modifier t => Ty.dims t
  | .array t n => n :: Ty.dims t

/-- object kind of the innermost layer -/
def Ty.base : Ty → Option ObjKind
  | .object k => some k
  | .other => none
  | .modifier t => Ty.base t
  | .array t _ => Ty.base t

/-- the registry's invariant (`register_type`: `assert!(!self.get_type_layer(inner).is_modifier())`): no modifier layer
    directly around a modifier layer -/
def Ty.wf : Ty → Bool
  | .object _ => true
  | .other => true
  | .modifier t => (match t with | .modifier _ => false | _ => true) && Ty.wf t
  | .array t _ => Ty.wf t

/-- kind of the binding: the innermost object when at most one array layer is around it -/
def specKind (t : Ty) : Option ObjKind := if (Ty.dims t).length ≤ 1 then Ty.base t else none

/-- descriptor count: length of the outermost array layer (`none` = unsized), 1 without an array -/
def specCount (t : Ty) : Option Nat :=
  match Ty.dims t with
  | [] => some 1
  | d :: _ => d

/-- the array layer of the binding -/
def specArr (t : Ty) : Arr :=
  match Ty.dims t with
  | [] => .no
  | some n :: _ => .sized n
  | none :: _ => .unsized

/-- what the binding slots cover (`assign_api_bindings` leaves unsized arrays alone): kind and length of the slot range -/
def specAllocKind (t : Ty) : Option ObjKind :=
  match Ty.dims t with
  | none :: _ => none
  | _ => specKind t

def specAllocLen (t : Ty) : Option Nat :=
  match Ty.dims t with
  | some n :: _ => some n
  | _ => none

end RsslVerif.Spec.Meta

import RsslVerif.Model.CondExpr
import RsslVerif.Spec.CPre
/-!
# Lemmas for C11, part 2: the condition parser

* `mono`, `consumes`, `enough`: fuel is not observable (`pLvl_fuel_enough`).
* `roundtrip`: printing a closed condition with the parentheses the C grammar needs and parsing it
  with the precedence-climbing model yields its reference value (continuation-style invariant in the
  style of `design_notes/prec_roundtrip_prototype.lean`, with values instead of trees).
* `subst_print`: macro substitution of a printed condition is the printed resolved condition.
-/
namespace RsslVerif.Lemmas.CondExpr
open RsslVerif.Gen.CondTables RsslVerif.Model.CondExpr RsslVerif.Spec.CPre

theorem pLvl_fuel0 (k ts) : pLvl 0 k ts = .oof := by cases k <;> rfl
theorem pLoop_fuel0 (k acc ts) : pLoop 0 k acc ts = .oof := rfl
theorem pLvl_p2_nil (f) : pLvl (f + 1) 0 [] = .err := rfl
theorem pLvl_p2_cons (f t rest) : pLvl (f + 1) 0 (t :: rest) =
      if t = notTok then
        match pLvl f 0 rest with
        | .ok v r => .ok (notApply v) r
        | .err => .err
        | .oof => .oof
      else
        match leafKind t with
        | .value v => .ok v rest
        | .paren =>
          match pLvl f numLevels rest with
          | .ok v (c :: r) => if c = closeTok then .ok v r else .err
          | .ok _ [] => .err
          | .err => .err
          | .oof => .oof
        | .fail => .err := rfl
theorem pLvl_bin (f k ts) : pLvl (f + 1) (k + 1) ts =
    match pLvl f k ts with
    | .ok l rest => pLoop f (k + 1) l rest
    | .err => .err
    | .oof => .oof := rfl
theorem pLoop_succ (f k acc ts) : pLoop (f + 1) k acc ts =
    match opsAt k ts with
    | some (op, rest) =>
      match pLvl f (k - 1) rest with
      | .ok r rest' => pLoop f k (op.apply acc r) rest'
      | .err => .err
      | .oof => .oof
    | none => .ok acc ts := rfl

theorem numLevels_eq : numLevels = 4 := rfl

theorem levelOps_shorter : ∀ g ∈ levelOps, ∀ (ts : List CTok) (op : BinOp) (rest : List CTok),
    g ts = some (op, rest) → rest.length < ts.length := by
  intro g hg ts op rest h
  simp only [levelOps, List.mem_cons, List.mem_nil_iff, or_false] at hg
  rcases hg with rfl | rfl | rfl | rfl
  · unfold parseOp6 at h
    split at h <;> simp at h <;> (obtain ⟨_, rfl⟩ := h; simp <;> omega)
  · unfold parseOp7 at h
    split at h <;> simp at h <;> (obtain ⟨_, rfl⟩ := h; simp)
  · unfold parseOp11 at h
    split at h <;> simp at h <;> (obtain ⟨_, rfl⟩ := h; simp)
  · unfold parseOp12 at h
    split at h <;> simp at h <;> (obtain ⟨_, rfl⟩ := h; simp)

theorem opsAt_shorter (k ts op rest) (h : opsAt k ts = some (op, rest)) : rest.length < ts.length := by
  cases k with
  | zero => simp [opsAt] at h
  | succ k =>
    simp only [opsAt] at h
    cases hg : levelOps[k]? with
    | none => simp [hg] at h
    | some g =>
      simp only [hg] at h
      exact levelOps_shorter g (List.mem_of_getElem? hg) ts op rest h

/-- a successful parse consumes at least one token; a loop never gives tokens back -/
theorem consumes : ∀ f,
    (∀ k ts v r, pLvl f k ts = .ok v r → r.length < ts.length) ∧
    (∀ k acc ts v r, pLoop f k acc ts = .ok v r → r.length ≤ ts.length) := by
  intro f
  induction f with
  | zero =>
    constructor
    · intro k ts v r h; rw [pLvl_fuel0] at h; cases h
    · intro k acc ts v r h; rw [pLoop_fuel0] at h; cases h
  | succ f ih =>
    obtain ⟨ih1, ih2⟩ := ih
    constructor
    · intro k ts v r h
      cases k with
      | zero =>
        cases ts with
        | nil => rw [pLvl_p2_nil] at h; cases h
        | cons t rest =>
          rw [pLvl_p2_cons] at h
          by_cases ht : t = notTok
          · simp only [ht, if_true] at h
            cases hr : pLvl f 0 rest with
            | oof => simp [hr] at h
            | err => simp [hr] at h
            | ok v' r' =>
              simp only [hr, PR.ok.injEq] at h
              obtain ⟨_, rfl⟩ := h
              have := ih1 _ _ _ _ hr
              simp; omega
          · simp only [ht, if_false] at h
            cases hl : leafKind t with
            | value v' => simp only [hl, PR.ok.injEq] at h; obtain ⟨_, rfl⟩ := h; simp
            | fail => simp [hl] at h
            | paren =>
              simp only [hl] at h
              cases hr : pLvl f numLevels rest with
              | oof => simp [hr] at h
              | err => simp [hr] at h
              | ok v' r' =>
                have := ih1 _ _ _ _ hr
                cases r' with
                | nil => simp [hr] at h
                | cons c r'' =>
                  simp only [hr] at h
                  by_cases hc : c = closeTok
                  · simp only [hc, if_true, PR.ok.injEq] at h
                    obtain ⟨_, rfl⟩ := h
                    simp at this ⊢; omega
                  · simp [hc] at h
      | succ k =>
        rw [pLvl_bin] at h
        cases hr : pLvl f k ts with
        | oof => simp [hr] at h
        | err => simp [hr] at h
        | ok l rest =>
          simp only [hr] at h
          have h1 := ih1 _ _ _ _ hr
          have h2 := ih2 _ _ _ _ _ h
          omega
    · intro k acc ts v r h
      rw [pLoop_succ] at h
      cases ho : opsAt k ts with
      | none => simp only [ho, PR.ok.injEq] at h; obtain ⟨_, rfl⟩ := h; exact Nat.le_refl _
      | some p =>
        obtain ⟨op, rest⟩ := p
        simp only [ho] at h
        have h0 := opsAt_shorter _ _ _ _ ho
        cases hr : pLvl f (k - 1) rest with
        | oof => simp [hr] at h
        | err => simp [hr] at h
        | ok x rest' =>
          simp only [hr] at h
          have h1 := ih1 _ _ _ _ hr
          have h2 := ih2 _ _ _ _ _ h
          omega

/-- the fuel `parseCond` supplies is never exhausted -/
theorem enough : ∀ f,
    (∀ k ts, k ≤ 4 → 6 * ts.length + k + 2 ≤ f → pLvl f k ts ≠ .oof) ∧
    (∀ k acc ts, k ≤ 4 → 6 * ts.length + 1 ≤ f → pLoop f k acc ts ≠ .oof) := by
  intro f
  induction f with
  | zero =>
    constructor
    · intro k ts _ h; omega
    · intro k acc ts _ h; omega
  | succ f ih =>
    obtain ⟨ih1, ih2⟩ := ih
    constructor
    · intro k ts hk hf
      cases k with
      | zero =>
        cases ts with
        | nil => rw [pLvl_p2_nil]; simp
        | cons t rest =>
          rw [pLvl_p2_cons]
          simp only [List.length_cons] at hf
          by_cases ht : t = notTok
          · simp only [ht, if_true]
            have := ih1 0 rest (by omega) (by omega)
            cases hr : pLvl f 0 rest <;> simp_all
          · simp only [ht, if_false]
            cases hl : leafKind t with
            | value v' => simp
            | fail => simp
            | paren =>
              simp only []
              have hn := numLevels_eq
              have := ih1 numLevels rest (by omega) (by omega)
              cases hr : pLvl f numLevels rest with
              | oof => exact absurd hr this
              | err => simp
              | ok v' r' =>
                cases r' with
                | nil => simp
                | cons c r'' => by_cases hc : c = closeTok <;> simp [hc]
      | succ k =>
        rw [pLvl_bin]
        have h1 := ih1 k ts (by omega) (by omega)
        cases hr : pLvl f k ts with
        | oof => exact absurd hr h1
        | err => simp
        | ok l rest =>
          simp only []
          have := (consumes f).1 _ _ _ _ hr
          exact ih2 (k + 1) l rest hk (by omega)
    · intro k acc ts hk hf
      rw [pLoop_succ]
      cases ho : opsAt k ts with
      | none => simp
      | some p =>
        obtain ⟨op, rest⟩ := p
        simp only []
        have h0 := opsAt_shorter _ _ _ _ ho
        have h1 := ih1 (k - 1) rest (by omega) (by omega)
        cases hr : pLvl f (k - 1) rest with
        | oof => exact absurd hr h1
        | err => simp
        | ok x rest' =>
          simp only []
          have := (consumes f).1 _ _ _ _ hr
          exact ih2 k _ rest' hk (by omega)

theorem fuelFor_eq (ts : List CTok) : fuelFor ts = 6 * ts.length + 4 + 2 := by simp [fuelFor, numLevels_eq]

/-- **Totality of the model parser**: at the fuel `parseCond` uses, "out of fuel" is impossible. -/
theorem pLvl_fuel_enough (ts : List CTok) : pLvl (fuelFor ts) numLevels ts ≠ .oof := by
  rw [fuelFor_eq, numLevels_eq]
  exact (enough _).1 4 ts (Nat.le_refl _) (Nat.le_refl _)
/-- more fuel never changes a result that is not "out of fuel" -/
theorem mono : ∀ f,
    (∀ k ts, pLvl f k ts ≠ .oof → pLvl (f + 1) k ts = pLvl f k ts) ∧
    (∀ k acc ts, pLoop f k acc ts ≠ .oof → pLoop (f + 1) k acc ts = pLoop f k acc ts) := by
  intro f
  induction f with
  | zero =>
    constructor
    · intro k ts h; exact absurd (pLvl_fuel0 k ts) h
    · intro k acc ts h; exact absurd (pLoop_fuel0 k acc ts) h
  | succ f ih =>
    obtain ⟨ih1, ih2⟩ := ih
    constructor
    · intro k ts h
      cases k with
      | zero =>
        cases ts with
        | nil => rfl
        | cons t rest =>
          rw [pLvl_p2_cons] at h ⊢
          rw [pLvl_p2_cons f]
          by_cases ht : t = notTok
          · simp only [ht, if_true] at h ⊢
            cases hr : pLvl f 0 rest with
            | oof => simp [hr] at h
            | err => rw [ih1 _ _ (by simp [hr]), hr]
            | ok v r => rw [ih1 _ _ (by simp [hr]), hr]
          · simp only [ht, if_false] at h ⊢
            cases hl : leafKind t with
            | value v => rfl
            | fail => rfl
            | paren =>
              simp only [hl] at h ⊢
              cases hr : pLvl f numLevels rest with
              | oof => simp [hr] at h
              | err => rw [ih1 _ _ (by simp [hr]), hr]
              | ok v r => rw [ih1 _ _ (by simp [hr]), hr]
      | succ k =>
        rw [pLvl_bin] at h ⊢
        rw [pLvl_bin f]
        cases hr : pLvl f k ts with
        | oof => simp [hr] at h
        | err => rw [ih1 _ _ (by simp [hr]), hr]
        | ok v r =>
          rw [hr] at h
          rw [ih1 _ _ (by simp [hr]), hr]
          exact ih2 _ _ _ h
    · intro k acc ts h
      rw [pLoop_succ] at h ⊢
      rw [pLoop_succ f]
      cases ho : opsAt k ts with
      | none => rfl
      | some p =>
        obtain ⟨op, rest⟩ := p
        simp only [ho] at h ⊢
        cases hr : pLvl f (k - 1) rest with
        | oof => simp [hr] at h
        | err => rw [ih1 _ _ (by simp [hr]), hr]
        | ok v r =>
          rw [hr] at h
          rw [ih1 _ _ (by simp [hr]), hr]
          exact ih2 _ _ _ h

/-- the operator of the code that a reference operator corresponds to -/
def genOp : Op → BinOp
  | .lor => .BooleanOr
  | .land => .BooleanAnd
  | .eq => .Equality
  | .ne => .Inequality
  | .lt _ => .LessThan
  | .le => .LessEqual
  | .gt _ => .GreaterThan
  | .ge => .GreaterEqual

/-- `BinOp::apply` computes the C semantics -/
theorem apply_eq_sem (op : Op) (a b : UInt64) : (genOp op).apply a b = op.sem a b := by
  cases op <;> simp [genOp, BinOp.apply, Op.sem, b2u]

theorem notApply_eq (v : UInt64) : notApply v = b2u (v == 0) := by
  simp [notApply, b2u]

theorem level_pos (op : Op) : 1 ≤ op.level := by cases op <;> simp [Op.level]
theorem level_le (op : Op) : op.level ≤ 4 := by cases op <;> simp [Op.level]

/-- an operator is recognised at its own level (the operand that follows never starts with `=`) -/
theorem opsAt_own (op : Op) (X : List CTok) (hX : ∀ r, X ≠ .Equals :: r) :
    opsAt op.level (op.toks ++ X) = some (genOp op, X) := by
  cases op with
  | lt f =>
    cases X with
    | nil => cases f <;> simp [opsAt, levelOps, Op.level, Op.toks, parseOp6, genOp]
    | cons t r =>
      cases f <;> cases t <;> simp_all [opsAt, levelOps, Op.level, Op.toks, parseOp6, genOp]
  | gt f =>
    cases X with
    | nil => cases f <;> simp [opsAt, levelOps, Op.level, Op.toks, parseOp6, genOp]
    | cons t r =>
      cases f <;> cases t <;> simp_all [opsAt, levelOps, Op.level, Op.toks, parseOp6, genOp]
  | _ => simp [opsAt, levelOps, Op.level, Op.toks, parseOp6, parseOp7, parseOp11, parseOp12, genOp]

/-- … and at no other level -/
theorem opsAt_other (op : Op) (j : Nat) (hj : j ≠ op.level) (X : List CTok) :
    opsAt j (op.toks ++ X) = none := by
  match j with
  | 0 => rfl
  | 1 => cases op <;> simp_all [opsAt, levelOps, Op.level, Op.toks, parseOp6]
  | 2 => cases op <;> simp_all [opsAt, levelOps, Op.level, Op.toks, parseOp7]
  | 3 => cases op <;> simp_all [opsAt, levelOps, Op.level, Op.toks, parseOp11]
  | 4 => cases op <;> simp_all [opsAt, levelOps, Op.level, Op.toks, parseOp12]
  | n + 5 => simp [opsAt, levelOps]

theorem opsAt_nil (j : Nat) : opsAt j [] = none := by
  match j with
  | 0 => rfl
  | 1 => rfl
  | 2 => rfl
  | 3 => rfl
  | 4 => rfl
  | n + 5 => simp [opsAt, levelOps]

theorem opsAt_rparen (j : Nat) (r : List CTok) : opsAt j (.RightParen :: r) = none := by
  match j with
  | 0 => rfl
  | 1 => rfl
  | 2 => rfl
  | 3 => rfl
  | 4 => rfl
  | n + 5 => simp [opsAt, levelOps]

def Parses (k : Nat) (ts : List CTok) (v : UInt64) (r : List CTok) : Prop := ∃ f, pLvl f k ts = .ok v r
def Loops (k : Nat) (acc : UInt64) (ts : List CTok) (v : UInt64) (r : List CTok) : Prop :=
  ∃ f, pLoop f k acc ts = .ok v r

theorem monoLvl {f g k ts v r} (h : pLvl f k ts = .ok v r) (hg : f ≤ g) : pLvl g k ts = .ok v r := by
  induction hg with
  | refl => exact h
  | step _ ih => rw [(mono _).1 _ _ (by simp [ih]), ih]

theorem monoLoop {f g k acc ts v r} (h : pLoop f k acc ts = .ok v r) (hg : f ≤ g) :
    pLoop g k acc ts = .ok v r := by
  induction hg with
  | refl => exact h
  | step _ ih => rw [(mono _).2 _ _ _ (by simp [ih]), ih]

/-- no operator of a level below `k` starts `ts` -/
def StopsBelow (k : Nat) (ts : List CTok) : Prop := ∀ j, j < k → opsAt j ts = none

theorem StopsBelow.mono {k j ts} (h : StopsBelow k ts) (hj : j ≤ k) : StopsBelow j ts :=
  fun i hi => h i (Nat.lt_of_lt_of_le hi hj)

theorem loops_skip (k acc ts) (h : opsAt k ts = none) : Loops k acc ts acc ts :=
  ⟨1, by rw [pLoop_succ]; simp [h]⟩

theorem lift (k : Nat) {ts l r v' r'} (hp : Parses k ts l r) (hl : Loops (k + 1) l r v' r') :
    Parses (k + 1) ts v' r' := by
  obtain ⟨f1, h1⟩ := hp
  obtain ⟨f2, h2⟩ := hl
  refine ⟨max f1 f2 + 1, ?_⟩
  rw [pLvl_bin, monoLvl h1 (Nat.le_max_left f1 f2)]
  exact monoLoop h2 (Nat.le_max_right f1 f2)

theorem raise {j ts v rest} (hp : Parses j ts v rest) :
    ∀ d v' r', StopsBelow (j + d + 1) rest → Loops (j + d + 1) v rest v' r' →
      Parses (j + d + 1) ts v' r' := by
  intro d
  induction d with
  | zero => intro v' r' _ hl; exact lift j hp hl
  | succ d ih =>
    intro v' r' hno hl
    have hmid : Parses (j + d + 1) ts v rest :=
      ih v rest (hno.mono (by omega)) (loops_skip _ v rest (hno _ (by omega)))
    exact lift (j + d + 1) hmid hl

/-- a parse at the prefix level can be continued at any level -/
theorem from0 {ts v rest} (hp0 : Parses 0 ts v rest) (k : Nat) (v' : UInt64) (r' : List CTok)
    (hno : StopsBelow k rest) (hl : Loops k v rest v' r') (h0 : k = 0 → v' = v ∧ r' = rest) :
    Parses k ts v' r' := by
  cases k with
  | zero => obtain ⟨rfl, rfl⟩ := h0 rfl; exact hp0
  | succ k =>
    have := raise hp0 k v' r' (by simpa using hno) (by simpa using hl)
    simpa using this

/-- conditions without `defined` (what is left after macro substitution) -/
def Closed : Expr → Prop
  | .defined _ _ => False
  | .not e | .paren e => Closed e
  | .bin _ l r => Closed l ∧ Closed r
  | _ => True

/-- value of a closed condition -/
abbrev ev (e : Expr) : UInt64 := evalU64 [] e

/-- a printed condition never starts with `=` -/
theorem print_head (k : Nat) (e : Expr) (rest : List CTok) : ∀ r, print k e ++ rest ≠ .Equals :: r := by
  induction e generalizing k rest with
  | lit v u => cases u <;> simp [print]
  | tru => simp [print]
  | fls => simp [print]
  | name x => simp [print]
  | defined x p => cases p <;> simp [print]
  | not e _ => simp [print]
  | paren e _ => simp [print]
  | bin op l r ihl _ =>
    intro r'
    simp only [print]
    split
    · simp only [List.append_assoc]; exact ihl _ _ r'
    · simp

def RT (e : Expr) : Prop :=
  ∀ k rest v' r', k ≤ 4 → StopsBelow k rest → Loops k (ev e) rest v' r' →
    (k = 0 → v' = ev e ∧ r' = rest) → Parses k (print k e ++ rest) v' r'

theorem leaf_parses (t : CTok) (v : UInt64) (rest : List CTok) (hn : t ≠ notTok)
    (hl : leafKind t = .value v) : Parses 0 (t :: rest) v rest :=
  ⟨1, by rw [pLvl_p2_cons]; simp [hn, hl]⟩

theorem paren_parses (X : List CTok) (v : UInt64) (rest : List CTok)
    (h : Parses 4 X v (.RightParen :: rest)) : Parses 0 (.LeftParen :: X) v rest := by
  obtain ⟨f, hf⟩ := h
  refine ⟨f + 1, ?_⟩
  rw [pLvl_p2_cons]
  have h1 : (CTok.LeftParen = notTok) = False := by simp [notTok]
  simp only [h1, if_false]
  have h2 : leafKind .LeftParen = .paren := rfl
  simp only [h2, numLevels_eq, hf]
  simp [closeTok]

theorem bin_body (op : Op) (l r : Expr) (hl : RT l) (hr : RT r) :
    ∀ k rest v' r', op.level ≤ k → k ≤ 4 → StopsBelow k rest →
      Loops k (op.sem (ev l) (ev r)) rest v' r' →
      Parses k (print op.level l ++ (op.toks ++ (print (op.level - 1) r ++ rest))) v' r' := by
  intro k rest v' r' hpk hk4 hno hloops
  have hp1 := level_pos op
  have hR : Parses (op.level - 1) (print (op.level - 1) r ++ rest) (ev r) rest :=
    hr (op.level - 1) rest (ev r) rest (by omega) (hno.mono (by omega))
      (loops_skip _ _ _ (hno _ (by omega))) (fun _ => ⟨rfl, rfl⟩)
  have hstep : ∀ X Y, Loops op.level (op.sem (ev l) (ev r)) rest X Y →
      Loops op.level (ev l) (op.toks ++ (print (op.level - 1) r ++ rest)) X Y := by
    intro X Y ⟨f2, h2⟩
    obtain ⟨f1, h1⟩ := hR
    refine ⟨max f1 f2 + 1, ?_⟩
    rw [pLoop_succ, opsAt_own op _ (print_head _ _ _)]
    simp only [monoLvl h1 (Nat.le_max_left f1 f2), apply_eq_sem]
    exact monoLoop h2 (Nat.le_max_right f1 f2)
  have hnoL : StopsBelow op.level (op.toks ++ (print (op.level - 1) r ++ rest)) :=
    fun j hj => opsAt_other op j (by omega) _
  have hL : ∀ X Y, Loops op.level (op.sem (ev l) (ev r)) rest X Y →
      Parses op.level (print op.level l ++ (op.toks ++ (print (op.level - 1) r ++ rest))) X Y :=
    fun X Y hXY => hl op.level _ X Y (level_le op) hnoL (hstep X Y hXY) (by omega)
  rcases Nat.lt_or_ge op.level k with hlt | hge
  · have hskip := loops_skip op.level (op.sem (ev l) (ev r)) rest (hno _ hlt)
    have hP := hL _ _ hskip
    obtain ⟨d, hd⟩ : ∃ d, k = op.level + d + 1 := ⟨k - op.level - 1, by omega⟩
    subst hd
    exact raise hP d v' r' hno hloops
  · have : k = op.level := by omega
    subst this
    exact hL v' r' hloops

theorem roundtrip : ∀ e, Closed e → RT e := by
  intro e
  induction e with
  | lit v u =>
    intro _ k rest v' r' _ hno hl h0
    cases u
    · exact from0 (leaf_parses (.LiteralInt v) v rest (by simp [notTok]) rfl) k v' r' hno hl h0
    · exact from0 (leaf_parses (.LiteralIntUnsigned32 v) v rest (by simp [notTok]) rfl) k v' r' hno hl h0
  | tru =>
    intro _ k rest v' r' _ hno hl h0
    exact from0 (leaf_parses .True 1 rest (by simp [notTok]) rfl) k v' r' hno hl h0
  | fls =>
    intro _ k rest v' r' _ hno hl h0
    exact from0 (leaf_parses .False 0 rest (by simp [notTok]) rfl) k v' r' hno hl h0
  | name x =>
    intro _ k rest v' r' _ hno hl h0
    exact from0 (leaf_parses (.Id x) 0 rest (by simp [notTok]) rfl) k v' r' hno hl h0
  | defined x p => intro hc; exact absurd hc (by simp [Closed])
  | not e ih =>
    intro hc k rest v' r' _ hno hl h0
    have he : Parses 0 (print 0 e ++ rest) (ev e) rest :=
      ih hc 0 rest (ev e) rest (by omega) (fun j hj => by omega) (loops_skip 0 _ _ rfl)
        (fun _ => ⟨rfl, rfl⟩)
    have hp0 : Parses 0 (print 0 (.not e) ++ rest) (ev (.not e)) rest := by
      obtain ⟨f, hf⟩ := he
      refine ⟨f + 1, ?_⟩
      simp only [print, List.cons_append]
      rw [pLvl_p2_cons]
      simp [notTok, hf, notApply_eq, ev, evalU64]
    exact from0 hp0 k v' r' hno hl h0
  | paren e ih =>
    intro hc k rest v' r' _ hno hl h0
    have he : Parses 4 (print 4 e ++ (.RightParen :: rest)) (ev e) (.RightParen :: rest) :=
      ih hc 4 _ (ev e) _ (by omega) (fun j _ => opsAt_rparen j rest) (loops_skip 4 _ _ (opsAt_rparen 4 rest))
        (fun h => by omega)
    have hp0 : Parses 0 (print 0 (.paren e) ++ rest) (ev (.paren e)) rest := by
      have := paren_parses _ _ _ he
      simpa [print, ev, evalU64] using this
    have hpk : print k (.paren e) = print 0 (.paren e) := by simp [print]
    rw [hpk]
    exact from0 hp0 k v' r' hno hl h0
  | bin op l r ihl ihr =>
    intro hc k rest v' r' hk4 hno hl h0
    obtain ⟨hcl, hcr⟩ := hc
    have IHl := ihl hcl
    have IHr := ihr hcr
    by_cases hpk : op.level ≤ k
    · have := bin_body op l r IHl IHr k rest v' r' hpk hk4 hno hl
      simpa [print, hpk, List.append_assoc] using this
    · have hinner : Parses 4 (print op.level l ++ (op.toks ++ (print (op.level - 1) r ++ (.RightParen :: rest))))
          (ev (.bin op l r)) (.RightParen :: rest) :=
        bin_body op l r IHl IHr 4 (.RightParen :: rest) _ _ (level_le op) (Nat.le_refl _)
          (fun j _ => opsAt_rparen j rest) (loops_skip 4 _ _ (opsAt_rparen 4 rest))
      have hp0 : Parses 0 (print k (.bin op l r) ++ rest) (ev (.bin op l r)) rest := by
        have := paren_parses _ _ _ hinner
        simpa [print, hpk, List.append_assoc] using this
      exact from0 hp0 k v' r' hno hl h0

/-- top level: some fuel parses the printed condition to its value, consuming everything -/
theorem roundtrip_top (e : Expr) (hc : Closed e) : ∃ f, pLvl f 4 (print 4 e) = .ok (ev e) [] := by
  have := roundtrip e hc 4 [] (ev e) [] (Nat.le_refl _) (fun j _ => opsAt_nil j)
    (loops_skip 4 _ _ (opsAt_nil 4)) (fun h => by omega)
  simpa [Parses] using this

/-- … hence `parseCond` (which fixes the fuel) returns the truth of the reference value -/
theorem parseCond_print (e : Expr) (hc : Closed e) : parseCond (print 4 e) = some (truthy (ev e)) := by
  obtain ⟨f, hf⟩ := roundtrip_top e hc
  have hne := pLvl_fuel_enough (print 4 e)
  rw [numLevels_eq] at hne
  have : pLvl (fuelFor (print 4 e)) 4 (print 4 e) = .ok (ev e) [] := by
    rcases Nat.le_total f (fuelFor (print 4 e)) with h | h
    · exact monoLvl hf h
    · -- more fuel than needed does not change a non-oof result
      have key : ∀ d, pLvl (fuelFor (print 4 e) + d) 4 (print 4 e) = pLvl (fuelFor (print 4 e)) 4 (print 4 e) := by
        intro d
        induction d with
        | zero => rfl
        | succ d ih => rw [← Nat.add_assoc, (mono _).1 _ _ (by rw [ih]; exact hne), ih]
      obtain ⟨d, rfl⟩ : ∃ d, f = fuelFor (print 4 e) + d := ⟨f - fuelFor (print 4 e), by omega⟩
      rw [← key d]; exact hf
  simp [parseCond, numLevels_eq, this]

/-! ### macro substitution of printed conditions -/

theorem lookup_eq (m : Macros) (n : String) : Macros.lookup m n = Env.lookup m n := by
  induction m with
  | nil => rfl
  | cons e r ih => simp [Macros.lookup, Env.lookup, ih]

theorem isDefined_eq (m : Macros) (n : String) : Macros.isDefined m n = Env.isDefined m n := by
  induction m with
  | nil => rfl
  | cons e r ih =>
    simp only [Macros.isDefined, Env.isDefined, List.any_cons, Env.lookup] at ih ⊢
    by_cases h : (e.1 == n) = true
    · simp [h]
    · simp only [h, Bool.false_or]; simpa using ih

theorem subst_id (m : Macros) (b : Bool) (x : String) (r : List CTok) (hx : x ≠ "defined") :
    subst m b (.Id x :: r) = match m.lookup x with
      | some body => (subst m b r).map (fun r => body ++ r)
      | none => (subst m b r).map (fun r => .Id x :: r) := by
  rw [subst.eq_def]; simp [hx]; cases m.lookup x <;> rfl

theorem subst_defined_id (m : Macros) (y : String) (r : List CTok) :
    subst m true (.Id "defined" :: .Id y :: r) =
      (subst m true r).map (fun r => .LiteralInt (b2u (m.isDefined y)) :: r) := by
  rw [subst.eq_def]; simp [b2u]

theorem subst_defined_paren (m : Macros) (y : String) (r : List CTok) :
    subst m true (.Id "defined" :: .LeftParen :: .Id y :: .RightParen :: r) =
      (subst m true r).map (fun r => .LiteralInt (b2u (m.isDefined y)) :: r) := by
  rw [subst.eq_def]; simp [b2u]

theorem subst_other (m : Macros) (b : Bool) (t : CTok) (r : List CTok) (ht : ∀ x, t ≠ .Id x) :
    subst m b (t :: r) = (subst m b r).map (fun r => t :: r) := by
  cases t <;> simp_all [subst]

theorem subst_toks (m : Macros) (b : Bool) (op : Op) (r : List CTok) :
    subst m b (op.toks ++ r) = (subst m b r).map (fun r => op.toks ++ r) := by
  cases op <;> simp [Op.toks, subst_other, Except.map] <;> cases subst m b r <;> rfl

/-- replace macro names by their literal and `defined` by 0/1 -/
def resolve (σ : Env) : Expr → Expr
  | .name x => match σ.lookup x with
    | some [.LiteralInt v] => .lit v false
    | some [.LiteralIntUnsigned32 v] => .lit v true
    | some [.True] => .tru
    | some [.False] => .fls
    | _ => .name x
  | .defined x _ => .lit (b2u (σ.isDefined x)) false
  | .not e => .not (resolve σ e)
  | .paren e => .paren (resolve σ e)
  | .bin op l r => .bin op (resolve σ l) (resolve σ r)
  | e => e

theorem tokValue_cases {body : List CTok} {v : UInt64} (h : tokValue body = some v) :
    body = [.LiteralInt v] ∨ body = [.LiteralIntUnsigned32 v] ∨ (body = [.True] ∧ v = 1) ∨
      (body = [.False] ∧ v = 0) := by
  unfold tokValue at h
  split at h <;> simp_all

theorem wf_not {σ e} (h : Expr.WellFormedIn σ (.not e)) : Expr.WellFormedIn σ e := h
theorem wf_paren {σ e} (h : Expr.WellFormedIn σ (.paren e)) : Expr.WellFormedIn σ e := h
theorem wf_bin {σ op l r} (h : Expr.WellFormedIn σ (.bin op l r)) :
    Expr.WellFormedIn σ l ∧ Expr.WellFormedIn σ r := by
  obtain ⟨h1, h2⟩ := h
  simp only [Expr.operandNames, Expr.names, List.mem_append] at h1 h2
  exact ⟨⟨fun x hx => h1 x (Or.inl hx), fun x hx => h2 x (Or.inl hx)⟩,
         ⟨fun x hx => h1 x (Or.inr hx), fun x hx => h2 x (Or.inr hx)⟩⟩

theorem resolve_closed (σ : Env) : ∀ e, Closed (resolve σ e) := by
  intro e
  induction e with
  | name x => simp only [resolve]; split <;> simp [Closed]
  | bin op l r ihl ihr => exact ⟨ihl, ihr⟩
  | not e ih => exact ih
  | paren e ih => exact ih
  | _ => simp [resolve, Closed]

theorem eval_resolve (σ : Env) : ∀ e, Expr.WellFormedIn σ e → evalU64 σ e = ev (resolve σ e) := by
  intro e
  induction e with
  | name x =>
    intro h
    have := h.1 x (by simp [Expr.operandNames])
    rcases this with hn | ⟨body, v, hb, hv⟩
    · simp [evalU64, resolve, hn, ev, Env.lookup]
    · rcases tokValue_cases hv with rfl | rfl | ⟨rfl, rfl⟩ | ⟨rfl, rfl⟩ <;>
        simp [evalU64, resolve, hb, ev, tokValue]
  | defined x p => intro _; simp [evalU64, resolve, ev]
  | not e ih => intro h; simp [evalU64, resolve, ev, ih (wf_not h)]
  | paren e ih => intro h; simp [evalU64, resolve, ev, ih (wf_paren h)]
  | bin op l r ihl ihr =>
    intro h
    obtain ⟨hl, hr⟩ := wf_bin h
    simp [evalU64, resolve, ev, ihl hl, ihr hr]
  | _ => intro _; simp [evalU64, resolve, ev]

/-- macro substitution of a printed well-formed condition is the printed resolved condition -/
theorem subst_print (σ : Env) : ∀ e, Expr.WellFormedIn σ e → ∀ k rest,
    subst σ true (print k e ++ rest) = (subst σ true rest).map (fun r => print k (resolve σ e) ++ r) := by
  intro e
  induction e with
  | lit v u =>
    intro _ k rest
    cases u <;> simp [print, resolve, subst_other]
  | tru => intro _ k rest; simp [print, resolve, subst_other]
  | fls => intro _ k rest; simp [print, resolve, subst_other]
  | name x =>
    intro h k rest
    have hx : x ≠ "defined" := h.2 x (by simp [Expr.names])
    have := h.1 x (by simp [Expr.operandNames])
    simp only [print, List.cons_append, List.nil_append]
    rw [subst_id σ true x rest hx, lookup_eq]
    rcases this with hn | ⟨body, v, hb, hv⟩
    · simp [hn, resolve, print]
    · rcases tokValue_cases hv with rfl | rfl | ⟨rfl, rfl⟩ | ⟨rfl, rfl⟩ <;> simp [hb, resolve, print]
  | defined x p =>
    intro _ k rest
    cases p
    · simp [print, resolve, subst_defined_id, isDefined_eq]
    · simp [print, resolve, subst_defined_paren, isDefined_eq]
  | not e ih =>
    intro h k rest
    simp only [print, resolve, List.cons_append]
    rw [subst_other _ _ _ _ (by simp), ih (wf_not h)]
    cases subst σ true rest <;> simp [Except.map]
  | paren e ih =>
    intro h k rest
    simp only [print, resolve, List.cons_append, List.nil_append, List.append_assoc]
    rw [subst_other _ _ _ _ (by simp), ih (wf_paren h), subst_other _ _ _ _ (by simp)]
    cases subst σ true rest <;> simp [Except.map]
  | bin op l r ihl ihr =>
    intro h k rest
    obtain ⟨hl, hr⟩ := wf_bin h
    simp only [print, resolve]
    split
    · simp only [List.append_assoc]
      rw [ihl hl, subst_toks, ihr hr]
      cases subst σ true rest <;> simp [Except.map]
    · simp only [List.cons_append, List.nil_append, List.append_assoc]
      rw [subst_other _ _ _ _ (by simp), ihl hl, subst_toks, ihr hr, subst_other _ _ _ _ (by simp)]
      cases subst σ true rest <;> simp [Except.map]

theorem truthy_eq (v : UInt64) : truthy v = (v != 0) := by
  unfold truthy; by_cases h : v = 0 <;> simp [h]

/-- the value of a printed well-formed condition is its reference value -/
theorem condValue_print (σ : Env) (e : Expr) (h : Expr.WellFormedIn σ e) :
    condValue σ (print 4 e) = .ok (evalU64 σ e != 0) := by
  have hs := subst_print σ e h 4 []
  simp only [List.append_nil] at hs
  have h0 : subst σ true [] = .ok [] := rfl
  rw [h0] at hs
  simp only [Except.map, List.append_nil] at hs
  unfold condValue
  rw [hs]
  simp only [parseCond_print _ (resolve_closed σ e), eval_resolve σ e h, truthy_eq]

end RsslVerif.Lemmas.CondExpr

//! C10, last clause: "... and that value appears unchanged in the output".
//!
//! request : C10.emit \t <target>.<context> \t <literal>      (`-` = dx.stmt, the form of the first corpus lines)
//!             the literal written in a tiny program (in the given context) and compiled by `rssl::compile`
//!             target  = dx | vk | msl
//!             context = stmt   `void f_zq() { L; }`
//!                       neg    `void f_zq() { -L; }`            (unary minus is folded into the literal)
//!                       init   `static const T g_zq = L;`       (T chosen from the literal's kind)
//!                       initf  `static const float g_zq = L;`   (untyped literal narrowed once by the typer)
//!                       arr    `struct S_zq { float a_zq[L]; };` (constant-folded array size is re-printed)
//!                       enumv  `enum E_zq { A_zq = L };`
//!                       targ   `template<int N> int tf_zq() { return N; }  ... tf_zq<L>()`
//!                       incl   literal comes from a `#define` in an included file
//!                       def    literal comes from a define passed to `compile`
//!                       paste  integer literal assembled by `##` (token lives in `<scratch space>`)
//!           C10.fmt \t <target> \t <kind> \t <bits hex> \t <Display text of the value> [\t <Display of the value as f64>]
//!             `rssl_formatter::format` on an AST holding exactly that literal value (every bit pattern is
//!             reachable, also the ones no source text is generated for); the last field is present for the
//!             single-precision kinds (Float16, Float32): `format_literal` prints those digits when the digits of the
//!             single, read through the double, are not the value (`f32_digits_round_twice`, fix 265a080)
//! observe : emit: the printed literal (or `!error ...` / `!panic ...`);  fmt: the printed literal
//! oracle  : emit: the printed text, read by the reference grammar of this harness (exact big-integer arithmetic),
//!             has the kind, sign and value of the source literal (MSL: `INFINITY`, `FLT_MAX` stand for their values)
//!           fmt : the printed text is lexed by the real lexer: it must be `[-] <one numeric token>` of the same
//!             kind and the same bits; Rust's `Display` digits must be a decimal whose nearest value is the
//!             value printed, and for a single the `Display` digits of the value as a double must be a decimal whose
//!             nearest double is exactly the single's value (the assumptions `emit_value_exact` makes, checked bit
//!             for bit)
use super::*;
use rssl::ast;
use rssl::text::Located;

#[derive(Clone, Copy, PartialEq, Debug)]
pub enum Tgt {
    Dx,
    Vk,
    Msl,
}

impl Tgt {
    pub fn parse(s: &str) -> Option<Tgt> {
        match s {
            "dx" => Some(Tgt::Dx),
            "vk" => Some(Tgt::Vk),
            "msl" => Some(Tgt::Msl),
            _ => None,
        }
    }
    pub fn name(self) -> &'static str {
        match self {
            Tgt::Dx => "dx",
            Tgt::Vk => "vk",
            Tgt::Msl => "msl",
        }
    }
    fn target(self) -> rssl::Target {
        match self {
            Tgt::Dx => rssl::Target::HlslForDirectX,
            Tgt::Vk => rssl::Target::HlslForVulkan,
            Tgt::Msl => rssl::Target::Msl,
        }
    }
    fn fmt_target(self) -> rssl_formatter::Target {
        match self {
            Tgt::Msl => rssl_formatter::Target::Msl,
            _ => rssl_formatter::Target::Hlsl,
        }
    }
}

pub const CONTEXTS: &[&str] = &["stmt", "neg", "init", "initf", "initneg", "enumcast", "arr", "enumv", "targ", "incl", "def", "paste"];

/// nearest single to digits * 10^exp10 rounded directly (what `str::parse::<f32>` and `Display for f32` speak about)
pub fn ref_nearest32_direct(digits: &[u8], exp10: i64) -> u32 {
    let ds: Vec<u8> = digits.iter().cloned().skip_while(|d| *d == b'0').collect();
    if ds.is_empty() {
        return 0;
    }
    let mag = ds.len() as i64 + exp10;
    if mag > 100 {
        return F32.inf() as u32;
    }
    if mag < -100 {
        return 0;
    }
    let d = Big::from_digits(&ds, 10);
    (if exp10 >= 0 {
        nearest_bits(&d.mul(&Big::pow10(exp10 as u32)), &Big::from_u64(1), F32)
    } else {
        nearest_bits(&d, &Big::pow10((-exp10) as u32), F32)
    }) as u32
}

/// what a printed literal denotes
#[derive(Debug, PartialEq)]
pub struct Printed {
    pub neg: bool,
    pub num: RefNum,
    /// the kind is not visible in the spelling (MSL `INFINITY`)
    pub any_float_kind: bool,
}

/// `[-]literal`, or one of the names the Metal output uses for values that have no literal spelling
pub fn parse_printed(text: &str, tgt: Tgt) -> Option<Printed> {
    let (neg, body) = match text.strip_prefix('-') {
        Some(b) => (true, b),
        None => (false, text),
    };
    if tgt == Tgt::Msl {
        if body == "INFINITY" {
            return Some(Printed { neg, num: RefNum::Float { kind: "Float", bits64: F64.inf() }, any_float_kind: true });
        }
        if body == "FLT_MAX" {
            return Some(Printed {
                neg,
                num: RefNum::Float { kind: "Float32", bits64: (f32::MAX as f64).to_bits() },
                any_float_kind: false,
            });
        }
    }
    match ref_numeric(body.as_bytes()) {
        RefNum::NotNumeric => None,
        num => Some(Printed { neg, num, any_float_kind: false }),
    }
}

fn narrowed(kind: &str, bits64: u64) -> u64 {
    if kind == "Float16" || kind == "Float32" { ref_narrow32(bits64) as u64 } else { bits64 }
}

/// the files, the defines and the way to find the printed literal again
struct Program {
    files: Vec<(String, String)>,
    defines: Vec<(String, String)>,
    /// the literal is expected with this kind (None: only the value is compared — the context converts it)
    want_kind: Option<&'static str>,
    /// the value is expected negated
    negated: bool,
    /// the typer narrows the untyped literal to single precision
    narrow_to_f32: bool,
    /// a template context: an untyped float literal may be printed either as written or narrowed to the `float` the
    /// context names (the typer's conversion, C13); every other kind must keep its kind
    convertible: bool,
    /// the module declares a pipeline and is compiled in pipeline mode (entry point, its attributes, its globals)
    pipeline: bool,
    /// a cross-kind form: the untyped literal is folded into this float kind
    folded_to: Option<&'static str>,
}

/// Declaration / statement forms a literal can be written in (wave 6): `@T` = the scalar type the literal's suffix
/// names, `@V` = its 2-vector, `@L` = the literal.  (name, integer literals only, source, text in front of the printed literal)
/// Tried and not applicable: default template arguments (`default template arguments are not supported on functions`, struct
/// templates are `UnimplementedStructTemplate` in both generators), enum-typed template arguments (`(E)7` is not a constant
/// expression), bit-field widths (do not parse).
pub const TEMPLATES: &[(&str, bool, &str, &str)] = &[
    ("ret", false, "@T rf_zq() { return @L; }\n", "    return "),
    ("callarg", false, "void g_zq(@T a_zq) {}\nvoid f_zq() { g_zq(@L); }\n", "    g_zq("),
    ("defarg", false, "@T df_zq(@T a_zq = @L) { return a_zq; }\nvoid f_zq() { df_zq(); }\n", " a_zq = "),
    ("defarg2", false, "@T df_zq(int n_zq, @T a_zq = @L, @T b_zq = @L) { return b_zq; }\nvoid f_zq() { df_zq(1); }\n", " b_zq = "),
    ("protoarg", false, "@T df_zq(@T a_zq = @L);\n@T df_zq(@T a_zq = @L) { return a_zq; }\nvoid f_zq() { df_zq(); }\n", " a_zq = "),
    ("method", false, "struct S_zq { @T m_zq(@T a_zq = @L) { return a_zq; } };\n", " a_zq = "),
    ("nsinit", false, "namespace N_zq { static const @T g_zq = @L; }\nnamespace N_zq { static const @T h_zq = g_zq; }\n", " g_zq = "),
    ("arrinit", false, "static const @T a_zq[2] = { @L, @L };\n", " a_zq[2] = { "),
    ("arrinit2", false, "static const @T a_zq[3] = { @L, @L, @L };\nvoid f_zq() { a_zq[2]; }\n", " a_zq[3] = { "),
    ("local", false, "void f_zq() { @T v_zq = @L; }\n", " v_zq = "),
    ("localc", false, "void f_zq() { const @T v_zq = @L; v_zq; }\n", " v_zq = "),
    ("gvar", false, "static @T g_zq = @L;\nvoid f_zq() { g_zq; }\n", " g_zq = "),
    ("binop", false, "void f_zq(@T x_zq) { x_zq + @L; }\n", "    x_zq + "),
    ("tern", false, "void f_zq(bool c_zq, @T x_zq) { c_zq ? @L : x_zq; }\n", "    c_zq ? "),
    ("ctor", false, "void f_zq() { @V(@L, @L); }\n", "2("),
    ("swz", false, "void f_zq() { (@L).xx; }\n", "    "),
    ("assign", false, "void f_zq(@T x_zq) { x_zq = @L; }\n", "    x_zq = "),
    ("forinit", false, "void f_zq() { for (@T i_zq = @L; i_zq < @L; ) {} }\n", " i_zq = "),
    ("case", true, "void f_zq(int x_zq) { switch (x_zq) { case @L: break; default: break; } }\n", "        case "),
    ("attr", true, "[numthreads(@L, 1, 1)]\nvoid f_zq() {}\n", "numthreads("),
    ("unroll", true, "void f_zq() { [unroll(@L)] for (int i_zq = 0; i_zq < 4; ++i_zq) {} }\n", "unroll("),
    ("larr", true, "void f_zq() { float a_zq[@L]; }\n", " a_zq["),
    ("garr", true, "static float a_zq[@L];\n", " a_zq["),
    ("parr", true, "void f_zq(float a_zq[@L]) {}\n", " a_zq["),
    ("arr2", true, "struct S_zq { float a_zq[2][@L]; };\n", " a_zq[2]["),
    ("index", true, "void f_zq(float a_zq[64]) { a_zq[@L]; }\n", "    a_zq["),
    ("pattr", true, "[numthreads(@L, 1, 1)]\nvoid cs_zq() {}\nPipeline P_zq { ComputeShader = cs_zq; }\n", "numthreads(|per_threadgroup("),
    ("pgvar", false, "static @T g_zq = @L;\n[numthreads(8, 1, 1)]\nvoid cs_zq() { g_zq; }\nPipeline P_zq { ComputeShader = cs_zq; }\n", " g_zq = "),
    ("plocal", false, "[numthreads(8, 1, 1)]\nvoid cs_zq() { @T v_zq = @L; }\nPipeline P_zq { ComputeShader = cs_zq; }\n", " v_zq = "),
    ("retneg", false, "@T rf_zq() { return -@L; }\n", "    return "),
    ("defargneg", false, "@T df_zq(@T a_zq = -@L) { return a_zq; }\nvoid f_zq() { df_zq(); }\n", " a_zq = "),
    ("arrinitneg", false, "static const @T a_zq[2] = { -@L, -@L };\n", " a_zq[2] = { "),
    ("callargneg", false, "void g_zq(@T a_zq) {}\nvoid f_zq() { g_zq(-@L); }\n", "    g_zq("),
    ("caseneg", true, "void f_zq(int x_zq) { switch (x_zq) { case -@L: break; default: break; } }\n", "        case "),
    ("tdarr", true, "typedef float A_zq[@L];\nstruct S_zq { A_zq m_zq; };\n", " m_zq["),
    ("gsarr", true, "groupshared float a_zq[@L];\nvoid f_zq() { a_zq[0]; }\n", "(&a_zq)[|float a_zq["),
    ("ifc", false, "void f_zq() { if (@L) {} }\n", "    if ("),
    ("whilec", false, "void f_zq() { while (@L) {} }\n", "    while ("),
    ("forstep", false, "void f_zq(@T x_zq) { for (; x_zq < @L; x_zq += @L) {} }\n", " x_zq < "),
    ("plus", false, "void f_zq() { +@L; }\n", "    +"),
    ("comma", false, "void f_zq(@T x_zq) { (x_zq, @L); }\n", "    x_zq, "),
    ("swzbare", false, "void f_zq() { @L.xx; }\n", "    "),
    // cross-kind forms: the context names another scalar type than the literal's suffix; the typer folds the untyped literal
    // into it (`xh*`: half, `xf*`: float, `xd*`: double); the value must survive (integers exactly, floats narrowed once)
    ("xhlocal", false, "void f_zq() { half v_zq = @L; }\n", " v_zq = "),
    ("xhret", false, "half rf_zq() { return @L; }\n", "    return "),
    ("xhdefarg", false, "half df_zq(half a_zq = @L) { return a_zq; }\nvoid f_zq() { df_zq(); }\n", " a_zq = "),
    ("xhinit", false, "static const half g_zq = @L;\n", " g_zq = "),
    ("xflocal", false, "void f_zq() { float v_zq = @L; }\n", " v_zq = "),
    ("xfcallarg", false, "void g_zq(float a_zq) {}\nvoid f_zq() { g_zq(@L); }\n", "    g_zq("),
    ("xfarrinit", false, "static const float a_zq[2] = { @L, @L };\n", " a_zq[2] = { "),
    ("xfbinop", false, "void f_zq(float x_zq) { x_zq + @L; }\n", "    x_zq + "),
    ("xdlocal", false, "void f_zq() { double v_zq = @L; }\n", " v_zq = "),
    ("xdinit", false, "static const double g_zq = @L;\n", " g_zq = "),
    ("enum2", true, "enum E_zq { Z_zq, A_zq = @L, B_zq };\nstatic const int g_zq = (int)B_zq;\n", "A_zq = "),
];

/// not printed by the Metal generator for a module without entry point: a mutable global becomes a parameter of the
/// functions that use it (its initialiser belongs to the entry point), an unused global is dropped, `numthreads` belongs to
/// an entry point, `[unroll(n)]` is a hint Metal has no spelling for
const MSL_ABSENT: &[&str] = &["gvar", "garr", "attr", "unroll"];

fn template_of(ctx: &str) -> Option<&'static (&'static str, bool, &'static str, &'static str)> {
    TEMPLATES.iter().find(|t| t.0 == ctx)
}

/// the longest prefix that can be a printed literal: `[-]` then letters, digits, `.`, `#`, `_`; a conversion `(type)` the
/// typer made explicit in front of it is skipped and a parenthesised literal is opened
fn literal_prefix(text: &str) -> Option<String> {
    let mut t = text.trim_start();
    loop {
        if let Some(r) = t.strip_prefix('(') {
            let close = r.find(')')?;
            let inner = &r[..close];
            if inner.starts_with(|c: char| c.is_ascii_digit() || c == '-') {
                t = inner;
                break;
            }
            t = r[close + 1..].trim_start();
        } else {
            break;
        }
    }
    let neg = t.starts_with('-');
    let body = if neg { &t[1..] } else { t };
    let body = body.strip_prefix("E_zq::").unwrap_or(body);
    let n = body.bytes().take_while(|c| c.is_ascii_alphanumeric() || *c == b'.' || *c == b'#' || *c == b'_').count();
    if n == 0 {
        return None;
    }
    Some(format!("{}{}", if neg { "-" } else { "" }, &body[..n]))
}

fn build_program(ctx: &str, lit: &str, rng_split: usize, msl: bool) -> Result<Program, String> {
    let src = ref_numeric(lit.as_bytes());
    let kind: &'static str = match &src {
        RefNum::Int { kind, .. } => kind,
        RefNum::Float { kind, .. } => kind,
        RefNum::NotNumeric => return Err("source text is not one numeric literal".into()),
    };
    let is_int = matches!(src, RefNum::Int { .. });
    let main = |body: &str| vec![("main.rssl".to_string(), body.to_string())];
    let mut p = Program { files: Vec::new(), defines: Vec::new(), want_kind: Some(kind), negated: false, narrow_to_f32: false, convertible: false, pipeline: false, folded_to: None };
    match ctx {
        "stmt" => p.files = main(&format!("void f_zq() {{ {}; }}\n", lit)),
        "neg" => {
            if kind == "IntU32" {
                return Err("unary minus on an unsigned literal is arithmetic (C13), not a spelling".into());
            }
            p.negated = true;
            p.files = main(&format!("void f_zq() {{ -{}; }}\n", lit));
        }
        "init" => {
            let ty = match kind {
                "Int" => "int",
                "IntU32" => "uint",
                "Float" => "double",
                "Float16" => "half",
                "Float32" => "float",
                "Float64" => "double",
                _ => return Err("no scalar type for a 64-bit integer literal".into()),
            };
            if kind == "Int" {
                if let RefNum::Int { value, .. } = &src {
                    if value.to_u64().is_none_or(|v| v > i32::MAX as u64) {
                        return Err("int initialiser outside int is a conversion (C13)".into());
                    }
                }
            }
            if kind == "Float" {
                p.want_kind = Some("Float64");
            }
            p.files = main(&format!("static const {} g_zq = {};\n", ty, lit));
        }
        "initneg" => {
            // a negative `int` constant (`ir::Constant::Int32(v) if v < 0` of generate_literal)
            match &src {
                RefNum::Int { value, kind: "Int" } if value.to_u64().is_some_and(|v| v <= 1 << 31) => {}
                _ => return Err("initneg is for unsuffixed integers up to 2^31".into()),
            }
            p.negated = true;
            p.files = main(&format!("static const int g_zq = -{};\n", lit));
        }
        "enumcast" => {
            match &src {
                RefNum::Int { value, .. } if value.to_u64().is_some_and(|v| v <= i32::MAX as u64) => {}
                _ => return Err("enumcast is for integers inside int".into()),
            }
            p.want_kind = None;
            p.files = main(&format!("enum E_zq {{ A_zq = 1, B_zq = 16 }};\nstatic const E_zq g_zq = (E_zq){};\n", lit));
        }
        "initf" => {
            if kind != "Float" {
                return Err("initf is for untyped float literals".into());
            }
            p.want_kind = Some("Float32");
            p.narrow_to_f32 = true;
            p.files = main(&format!("static const float g_zq = {};\n", lit));
        }
        "arr" | "enumv" | "targ" => {
            if !is_int {
                return Err("integer contexts only".into());
            }
            if let RefNum::Int { value, .. } = &src {
                if value.to_u64().is_none_or(|v| v > i32::MAX as u64) {
                    return Err("outside int the context converts the value (C13)".into());
                }
            }
            p.want_kind = None;
            p.files = main(&match ctx {
                "arr" => format!("struct S_zq {{ float a_zq[{}]; }};\n", lit),
                "enumv" => format!("enum E_zq {{ A_zq = {} }};\n", lit),
                _ => format!("template<int N> int tf_zq() {{ return N; }}\nvoid f_zq() {{ tf_zq<{}>(); }}\n", lit),
            });
        }
        "incl" => {
            p.files = vec![
                ("main.rssl".to_string(), "#include \"lit.h\"\nvoid f_zq() { LIT_ZQ; }\n".to_string()),
                ("lit.h".to_string(), format!("#pragma once\n// literal under test\n#define LIT_ZQ {}\n", lit)),
            ];
        }
        "def" => {
            p.files = main("void f_zq() { LIT_ZQ; }\n");
            p.defines = vec![("LIT_ZQ".to_string(), lit.to_string())];
        }
        "paste" => {
            // decimal digits [suffix] cut inside the digit run
            let digits = lit.bytes().take_while(|c| c.is_ascii_digit()).count();
            if !is_int || digits < 2 || lit.starts_with('0') {
                return Err("paste is for decimal integer literals of two or more digits".into());
            }
            let k = 1 + rng_split % (digits - 1);
            p.files = main(&format!(
                "#define CAT_ZQ(a, b) a ## b\nvoid f_zq() {{ CAT_ZQ({}, {}); }}\n",
                &lit[..k],
                &lit[k..]
            ));
        }
        _ => {
            let Some(&(_, int_only, tpl, _)) = template_of(ctx) else {
                return Err("unknown context".into());
            };
            if msl && MSL_ABSENT.contains(&ctx) {
                return Err("this declaration has no counterpart in the Metal text of a module without entry point".into());
            }
            let (ty, vec) = match kind {
                "Int" => ("int", "int2"),
                "IntU32" => ("uint", "uint2"),
                "Float" | "Float32" => ("float", "float2"),
                "Float16" => ("half", "half2"),
                "Float64" => ("double", "double2"),
                _ => return Err("no scalar type for a 64-bit integer literal".into()),
            };
            if let RefNum::Int { value, kind } = &src {
                let max = if int_only { 1u64 << 16 } else if *kind == "Int" { i32::MAX as u64 } else { u32::MAX as u64 };
                if value.to_u64().is_none_or(|v| v > max || (int_only && v == 0)) {
                    return Err("outside the context's type the typer converts the value (C13)".into());
                }
            } else if int_only {
                return Err("integer contexts only".into());
            }
            // the typer may fold the literal into the type the context names (C13's conversion): the printed literal
            // is then the converted constant; only the value is compared in the integer-only contexts
            p.want_kind = if int_only { None } else { Some(kind) };
            p.convertible = true;
            if ctx.ends_with("neg") {
                if kind == "IntU32" {
                    return Err("unary minus on an unsigned literal is arithmetic (C13), not a spelling".into());
                }
                p.negated = true;
            }
            p.pipeline = tpl.contains("Pipeline ");
            if ctx.starts_with('x') {
                let to = match &ctx[..2] {
                    "xh" => "Float16",
                    "xf" => "Float32",
                    _ => "Float64",
                };
                // untyped literals only (a suffixed literal in another type's context is an arithmetic conversion, C13);
                // `float` from an untyped float is the `local` / `callarg` … forms
                if !(kind == "Int" || (kind == "Float" && to != "Float32")) {
                    return Err("cross-kind forms are for untyped literals".into());
                }
                p.folded_to = Some(to);
            }
            p.files = main(&tpl.replace("@T", ty).replace("@V", vec).replace("@L", lit));
        }
    }
    Ok(p)
}

/// the printed literal of the context, cut out of the emitted source
fn extract(ctx: &str, text: &str) -> Option<String> {
    let lines: Vec<&str> = text.lines().collect();
    let after = |needle: &str| -> Option<String> {
        lines.iter().find(|l| l.contains(needle)).map(|l| l[l.find(needle).unwrap() + needle.len()..].to_string())
    };
    match ctx {
        "stmt" | "neg" | "incl" | "def" | "paste" => {
            let i = lines.iter().position(|l| l.contains("f_zq("))?;
            let l = lines.get(i + 1)?.trim();
            Some(l.strip_suffix(';')?.to_string())
        }
        "init" | "initf" | "initneg" => Some(after(" g_zq = ")?.trim().strip_suffix(';')?.to_string()),
        "enumcast" => {
            let t = after(" g_zq = ")?.trim().strip_suffix(';')?.to_string();
            // a value that names an enumerator is printed by that name (not a literal: nothing to compare)
            Some(t.strip_prefix("(E_zq)").map(|x| x.to_string()).unwrap_or(t))
        }
        "arr" => {
            let r = after(" a_zq[")?;
            Some(r[..r.find(']')?].to_string())
        }
        "enumv" => Some(after("A_zq = ")?.trim().trim_end_matches(',').to_string()),
        "targ" => {
            // a `u`-suffixed argument of an `int` parameter is printed with its conversion: `(int)16u`
            let t = after("    return ")?.trim().strip_suffix(';')?.to_string();
            Some(t.strip_prefix("(int)").unwrap_or(&t).to_string())
        }
        "swz" | "swzbare" => {
            let i = lines.iter().position(|l| l.contains("f_zq("))?;
            let l = lines.get(i + 1)?.trim().strip_suffix(';')?;
            // HLSL keeps the swizzle of a scalar, Metal writes the vector constructor
            match l.strip_suffix(".xx") {
                Some(x) => literal_prefix(x),
                None => literal_prefix(l.strip_suffix(')')?.split_once("2(")?.1),
            }
        }
        _ => {
            // alternatives separated by `|`: Metal spells the thread group size of an entry point
            // `[[max_total_threads_per_threadgroup(x * y * z)]]` and a groupshared array as a reference parameter
            let rest = template_of(ctx)?.3.split('|').find_map(|n| after(n));
            literal_prefix(&rest?)
        }
    }
}

fn split_ctx(field: &str) -> Option<(Tgt, &str)> {
    if field == "-" {
        return Some((Tgt::Dx, "stmt"));
    }
    let (t, c) = field.split_once('.')?;
    Some((Tgt::parse(t)?, c))
}

/// `C10.emit`
pub fn run_emit(field: &str, lit: &str, hist: &mut Hist) -> (String, String) {
    let Some((tgt, ctx)) = split_ctx(field) else {
        return (String::new(), "SKIP:bad request".into());
    };
    // the split position of `paste` is a function of the literal, so that a request replays identically
    let split = lit.bytes().fold(7usize, |a, b| a.wrapping_mul(31).wrapping_add(b as usize));
    let prog = match build_program(ctx, lit, split, tgt == Tgt::Msl) {
        Ok(p) => p,
        Err(why) => return (String::new(), format!("SKIP:{}", why)),
    };
    let mut inc = MemFiles(prog.files.clone());
    let defs: Vec<(&str, &str)> = prog.defines.iter().map(|(a, b)| (a.as_str(), b.as_str())).collect();
    let r = guard(|| {
        let args = rssl::CompileArgs::new("main.rssl", &mut inc, tgt.target()).defines(&defs);
        rssl::compile(if prog.pipeline { args } else { args.no_pipeline_mode() })
    });
    match r {
        Err(p) => (format!("!panic {}", p), format!("FAIL:panic {}", p)),
        Ok(Err(e)) => {
            let msg = format!("{}", e);
            hist.add("emit.rejected");
            // "or is rejected if it does not fit in 64 bits": a rejection for size must be justified
            let orc = if msg.contains("integer literal is too large") {
                match ref_numeric(lit.as_bytes()) {
                    RefNum::Int { value, kind }
                        if ctx != "paste"
                            && value.to_u64().is_some_and(|v| {
                                !(kind == "IntS64" && v > i64::MAX as u64) && !(kind == "IntU32" && v > u32::MAX as u64)
                            }) =>
                    {
                        format!("FAIL:emit integer literal {} fits in 64 bits but was rejected as too large", lit)
                    }
                    _ => "ok".to_string(),
                }
            } else if reject_class(&msg) == "double on Metal" {
                // Metal has no double: since fix 9824ce3 every `L` literal (finite or infinite) is rejected by the Metal
                // generator, as `double` declarations always were.  The rejection must be about a double: the target is
                // Metal and the literal has the `L` suffix, or the `init` context declared a `double` for an untyped one
                let kind = match ref_numeric(lit.as_bytes()) {
                    RefNum::Float { kind, .. } => kind,
                    _ => "",
                };
                if tgt == Tgt::Msl && (kind == "Float64" || (ctx == "init" && kind == "Float") || ctx.starts_with("xd")) {
                    "SKIP:rejected by the front end (double on Metal)".to_string()
                } else {
                    format!("FAIL:emit literal {} is not a double but was rejected as UnsupportedDouble ({})", lit, tgt.name())
                }
            } else {
                format!("SKIP:rejected by the front end ({})", reject_class(&msg))
            };
            (format!("!error {}", one_line(&msg).chars().take(160).collect::<String>()), orc)
        }
        Ok(Ok(ps)) => {
            let text: String = ps.iter().map(|p| String::from_utf8_lossy(&p.data).to_string()).collect();
            hist.add("emit.compiled");
            if std::env::var_os("C10_SHOW_OUTPUT").is_some() {
                eprintln!("{}", text);
            }
            match extract(ctx, &text) {
                None => (one_line(&text), "FAIL:emit the literal's statement was not found in the output".into()),
                Some(printed) => {
                    let orc = emit_oracle(lit, &printed, tgt, &prog, hist);
                    (printed, orc)
                }
            }
        }
    }
}

fn reject_class(msg: &str) -> &'static str {
    if msg.contains("UnsupportedDouble") {
        "double on Metal"
    } else if msg.contains("64") {
        "64-bit integer"
    } else {
        "other"
    }
}

/// "that value appears unchanged in the output": the emitted literal, read by the same reference grammar,
/// must have the kind, the sign and the value of the source literal
fn emit_oracle(lit: &str, printed: &str, tgt: Tgt, prog: &Program, hist: &mut Hist) -> String {
    let a = ref_numeric(lit.as_bytes());
    if printed == "A_zq" || printed == "B_zq" || printed == "E_zq::A_zq" || printed == "E_zq::B_zq" {
        // the constant equals an enumerator and is printed by name
        return match &a {
            RefNum::Int { value, .. } if value.to_u64() == Some(if printed.ends_with("A_zq") { 1 } else { 16 }) => "ok".into(),
            _ => format!("FAIL:emit literal {} printed as the enumerator {}", lit, printed),
        };
    }
    let Some(b) = parse_printed(printed, tgt) else {
        return format!("FAIL:emit literal {} printed as {} which is not a numeric literal", lit, printed);
    };
    if let Some(to) = prog.folded_to {
        // the exact value of the source literal as a double (an `int` literal is below 2^31: exact), narrowed once for half / float
        let src64 = match &a {
            RefNum::Float { bits64, .. } => *bits64,
            RefNum::Int { value, .. } => match value.to_u64() {
                Some(v) => ref_nearest64(format!("{}", v).as_bytes(), 0),
                None => return "SKIP:source integer beyond 64 bits".into(),
            },
            RefNum::NotNumeric => return "SKIP:source text is not one numeric literal".into(),
        };
        let want = narrowed(to, src64);
        return match &b.num {
            RefNum::Float { kind: k2, bits64: b2 } => {
                let got = if b.any_float_kind { narrowed(to, *b2) } else { narrowed(k2, *b2) };
                if matches!(&a, RefNum::Float { kind: k1, bits64: b1 } if k1 == k2 && b1 == b2) && !b.neg && !b.any_float_kind {
                    // not folded: the literal stays as written (seen for the default argument of a `half` parameter)
                    hist.add("emit.ok.folded.kept");
                    "ok".into()
                } else if *k2 != to && !b.any_float_kind {
                    format!("FAIL:emit literal {} in a {} context printed as {} (kind {})", lit, to, printed, k2)
                } else if got != want || b.neg {
                    format!("FAIL:emit literal {} folded to {} ({:x}) printed as {} ({:x})", lit, to, want, printed, got)
                } else {
                    hist.add(&format!("emit.ok.folded.{}", to));
                    "ok".into()
                }
            }
            // the literal may also stay as written behind a conversion the output spells out
            RefNum::Int { value: v2, .. } => match &a {
                RefNum::Int { value: v1, .. } if v1 == v2 && !b.neg => "ok".into(),
                _ => format!("FAIL:emit literal {} in a {} context printed as integer literal {}", lit, to, printed),
            },
            RefNum::NotNumeric => format!("FAIL:emit literal {} printed as {} which is not a numeric literal", lit, printed),
        };
    }
    match (&a, &b.num) {
        (RefNum::NotNumeric, _) => "SKIP:source text is not one numeric literal".into(),
        (RefNum::Int { kind: k1, value: v1 }, RefNum::Int { kind: k2, value: v2 }) => {
            if let Some(want) = prog.want_kind {
                if want != *k2 {
                    return format!("FAIL:emit int literal {} printed as {} (kind {} became {})", lit, printed, k1, k2);
                }
            }
            if v1 != v2 {
                return format!("FAIL:emit {} literal {} printed as {}", k1, lit, printed);
            }
            if !v1.is_zero() && b.neg != prog.negated {
                return format!("FAIL:emit {} literal {} printed with the wrong sign as {}", k1, lit, printed);
            }
            hist.add("emit.ok.int");
            "ok".into()
        }
        (RefNum::Float { kind: k1, bits64: b1 }, RefNum::Float { kind: k2, bits64: b2 }) => {
            let mut want_kind = prog.want_kind.unwrap_or(k1);
            if prog.convertible && *k1 == "Float" && *k2 == "Float32" {
                // the context names `float`: the typer folded the untyped literal into a single (narrowed once)
                want_kind = "Float32";
            }
            if want_kind != *k2 && !b.any_float_kind {
                return format!("FAIL:emit float literal {} printed as {} (kind {} became {})", lit, printed, k1, k2);
            }
            let v1 = if prog.narrow_to_f32 || (prog.convertible && *k1 == "Float" && (want_kind == "Float32" && !b.any_float_kind)) {
                ref_narrow32(*b1) as u64
            } else {
                narrowed(k1, *b1)
            };
            // Metal's `INFINITY` has no kind of its own: an untyped literal beyond the singles that the context folded to `float`
            let v1 = if prog.convertible && *k1 == "Float" && b.any_float_kind && ref_narrow32(*b1) == 0x7f80_0000 { F64.inf() } else { v1 };
            let v2 = if b.any_float_kind { narrowed(want_kind, *b2) } else { narrowed(k2, *b2) };
            if v1 != v2 {
                return format!("FAIL:emit {} literal {} ({:x}) printed as {} ({:x})", k1, lit, v1, printed, v2);
            }
            if b.neg != prog.negated {
                return format!("FAIL:emit {} literal {} printed with the wrong sign as {}", k1, lit, printed);
            }
            hist.add(&format!("emit.ok.{}", k2));
            "ok".into()
        }
        (RefNum::Float { kind, .. }, RefNum::Int { .. }) => {
            format!("FAIL:emit {} literal {} printed as integer literal {}", kind, lit, printed)
        }
        (RefNum::Int { kind, .. }, RefNum::Float { .. }) => {
            format!("FAIL:emit {} literal {} printed as float literal {}", kind, lit, printed)
        }
        (_, RefNum::NotNumeric) => format!("FAIL:emit literal {} printed as {} which is not a numeric literal", lit, printed),
    }
}

// ------------------------------------------------------------------------------------------------
// C10.fmt: the formatter on a literal of given bits, read back by the real lexer
// ------------------------------------------------------------------------------------------------
pub const FMT_KINDS: &[&str] = &["Int", "IntU32", "IntU64", "IntS64", "Float", "Float16", "Float32", "Float64"];

fn literal_of(kind: &str, bits: u64) -> Option<ast::Literal> {
    Some(match kind {
        "Int" => ast::Literal::IntUntyped(bits),
        "IntU32" => ast::Literal::IntUnsigned32(bits),
        "IntU64" => ast::Literal::IntUnsigned64(bits),
        "IntS64" => ast::Literal::IntSigned64(bits as i64),
        "Float" => ast::Literal::FloatUntyped(f64::from_bits(bits)),
        "Float64" => ast::Literal::Float64(f64::from_bits(bits)),
        "Float16" => ast::Literal::Float16(f32::from_bits(u32::try_from(bits).ok()?)),
        "Float32" => ast::Literal::Float32(f32::from_bits(u32::try_from(bits).ok()?)),
        _ => return None,
    })
}

/// Rust's `Display` of the value (what `format_literal` interpolates); `-` for integers
pub fn display_of(kind: &str, bits: u64) -> String {
    match kind {
        "Float" | "Float64" => format!("{}", f64::from_bits(bits)),
        "Float16" | "Float32" => format!("{}", f32::from_bits(bits as u32)),
        _ => "-".to_string(),
    }
}

/// Rust's `Display` of a single's value as a double (`*v as f64`), `None` for the other kinds
pub fn display64_of(kind: &str, bits: u64) -> Option<String> {
    match kind {
        "Float16" | "Float32" => Some(format!("{}", f32::from_bits(bits as u32) as f64)),
        _ => None,
    }
}

/// the double with exactly the value of a finite non-negative single: by exact rounding of `m * 2^q` (which is
/// representable, so nothing is rounded), not by Rust's cast
pub fn ref_widen32(mag: u32) -> u64 {
    let (m, q) = F32.decode(mag as u64);
    let one = Big::from_u64(1);
    if q >= 0 {
        nearest_bits(&Big::from_u64(m).shl(q as u32), &one, F64)
    } else {
        nearest_bits(&Big::from_u64(m), &one.shl((-q) as u32), F64)
    }
}

/// `digits[.digits]` -> (all digits, -number of fraction digits, has a point)
fn plain_decimal(d: &str) -> Option<(Vec<u8>, i64, bool)> {
    let (whole, frac) = d.split_once('.').unwrap_or((d, ""));
    let plain = !whole.is_empty()
        && whole.bytes().all(|c| c.is_ascii_digit())
        && frac.bytes().all(|c| c.is_ascii_digit())
        && (d.contains('.') == !frac.is_empty());
    if !plain {
        return None;
    }
    Some((whole.bytes().chain(frac.bytes()).collect(), -(frac.len() as i64), d.contains('.')))
}

thread_local! {
    static TEMPLATE: std::cell::RefCell<Option<ast::Module>> = const { std::cell::RefCell::new(None) };
}

/// `static const int g_zq = <literal>;` as an AST
fn module_with(lit: ast::Literal) -> Result<ast::Module, String> {
    let base = TEMPLATE.with(|t| {
        let mut t = t.borrow_mut();
        if t.is_none() {
            let mut sm = rssl::text::SourceManager::new();
            let toks = rssl_preprocess::preprocess_fragment(
                "static const int g_zq = 0;\n",
                rssl::text::FileName("t.rssl".to_string()),
                &mut sm,
            )
            .map_err(|_| "template does not preprocess".to_string())?;
            let toks = rssl_preprocess::prepare_tokens(&toks);
            let m = rssl_parser::parse(&toks).map_err(|_| "template does not parse".to_string())?;
            *t = Some(m);
        }
        Ok::<ast::Module, String>(t.clone().unwrap())
    })?;
    let mut m = base;
    match m.root_definitions.get_mut(0) {
        Some(ast::RootDefinition::GlobalVariable(gv)) if gv.defs.len() == 1 => {
            gv.defs[0].init = Some(ast::Initializer::Expression(Located::none(ast::Expression::Literal(lit))));
            Ok(m)
        }
        _ => Err("template is not one global variable".into()),
    }
}

fn token_value(t: &Token) -> Option<(&'static str, u64)> {
    Some(match t {
        Token::LiteralInt(v) => ("Int", *v),
        Token::LiteralIntUnsigned32(v) => ("IntU32", *v),
        Token::LiteralIntUnsigned64(v) => ("IntU64", *v),
        Token::LiteralIntSigned64(v) => ("IntS64", *v as u64),
        Token::LiteralFloat(v) => ("Float", v.to_bits()),
        Token::LiteralFloat16(v) => ("Float16", v.to_bits() as u64),
        Token::LiteralFloat32(v) => ("Float32", v.to_bits() as u64),
        Token::LiteralFloat64(v) => ("Float64", v.to_bits()),
        _ => return None,
    })
}

/// `C10.fmt`
pub fn run_fmt(tgt_s: &str, kind: &str, bits_s: &str, disp: &str, disp64: Option<&str>, hist: &mut Hist) -> (String, String) {
    let (Some(tgt), Ok(bits)) = (Tgt::parse(tgt_s), u64::from_str_radix(bits_s, 16)) else {
        return (String::new(), "SKIP:bad request".into());
    };
    let Some(lit) = literal_of(kind, bits) else {
        return (String::new(), "SKIP:bad request".into());
    };
    if display_of(kind, bits) != disp {
        return (String::new(), "SKIP:the Display field is not the Display of the value".into());
    }
    if display64_of(kind, bits).as_deref() != disp64 {
        return (String::new(), "SKIP:the last field is not the Display of the value as a double (single-precision kinds only)".into());
    }
    let is_float = kind.starts_with("Float");
    let wide = kind == "Float" || kind == "Float64";
    let (sign, mag) = if !is_float {
        if kind == "IntS64" && (bits as i64) < 0 { (true, (bits as i64).unsigned_abs()) } else { (false, bits) }
    } else if wide {
        (bits >> 63 == 1, bits & !(1u64 << 63))
    } else {
        (bits >> 31 == 1, bits & 0x7fff_ffff)
    };
    if is_float && ((wide && mag > F64.inf()) || (!wide && mag > F32.inf())) {
        return (String::new(), "SKIP:NaN has no literal".into());
    }
    if kind == "IntS64" && bits == 1u64 << 63 {
        // `{v}l` of i64::MIN is `-9223372036854775808l`, whose magnitude is not an `l` literal; no source text reaches
        // an IntSigned64 node (the typer rejects 64-bit integer literals), so this is not an input of the compiler
        return (String::new(), "SKIP:i64::MIN has no literal and is not reachable from source".into());
    }
    let module = match module_with(lit) {
        Ok(m) => m,
        Err(e) => return (String::new(), format!("SKIP:{}", e)),
    };
    let text = match guard(|| rssl_formatter::format(&module, tgt.fmt_target())) {
        Err(p) => return (format!("!panic {}", p), format!("FAIL:panic {}", p)),
        Ok(Err(e)) => return (format!("!error {:?}", e), format!("FAIL:format error {:?}", e)),
        Ok(Ok(t)) => t,
    };
    let Some(printed) = text
        .lines()
        .find(|l| l.contains(" g_zq = "))
        .and_then(|l| l[l.find(" g_zq = ").unwrap() + 8..].trim().strip_suffix(';'))
        .map(|s| s.to_string())
    else {
        return (one_line(&text), "FAIL:the initialiser was not found in the formatted module".into());
    };
    hist.add(&format!("fmt.{}.{}", tgt.name(), kind));
    let mut fails: Vec<String> = Vec::new();
    // (1) Display is a plain decimal whose nearest value (rounded the way its own type rounds) is the value
    if is_float && mag != if wide { F64.inf() } else { F32.inf() } {
        let d = disp.strip_prefix('-').unwrap_or(disp);
        match plain_decimal(d) {
            None => fails.push(format!("Display {} is not digits[.digits]", disp)),
            Some((digits, e, point)) => {
                let got = if wide { ref_nearest64(&digits, e) } else { ref_nearest32_direct(&digits, e) as u64 };
                if got != mag {
                    fails.push(format!("Display {} does not round to the value {:x} (gives {:x})", disp, mag, got));
                }
                if disp.starts_with('-') != sign {
                    fails.push(format!("Display {} has the wrong sign", disp));
                }
                // a `.` exactly when the value is not a whole number (the arms of format_literal rely on it)
                let whole = if wide { f64::from_bits(mag).fract() == 0.0 } else { f32::from_bits(mag as u32).fract() == 0.0 };
                if whole == point {
                    fails.push(format!("Display {} of a {} value", disp, if whole { "whole" } else { "fractional" }));
                }
                // a whole single above 2^63 is printed `<Display>.0` without the test of `f32_digits_round_twice`: its
                // digits must read back through the double (hypothesis `hrt` of emit_value_exact for whole singles)
                if !wide && whole && mag > 0x5f00_0000 {
                    let back = ref_narrow32(ref_nearest64(&digits, e)) as u64;
                    if back != mag {
                        fails.push(format!("Display {} of the whole single {:x} reads back through the double as {:x}", disp, mag, back));
                    }
                }
            }
        }
        // (1b) a single: Display of the same value as a double is a plain decimal, with a `.` exactly when the value is not
        // whole, whose nearest double is exactly the single's value (hypothesis `h64` of emit_value_exact)
        if let Some(d64) = disp64 {
            let wide_bits = ref_widen32(mag as u32);
            if (f32::from_bits(mag as u32) as f64).to_bits() != wide_bits {
                fails.push(format!("the single {:x} as f64 is {:x}, its exact value is {:x}", mag, (f32::from_bits(mag as u32) as f64).to_bits(), wide_bits));
            }
            if ref_narrow32(wide_bits) as u64 != mag {
                fails.push(format!("the single {:x} widened to {:x} narrows to {:x}", mag, wide_bits, ref_narrow32(wide_bits)));
            }
            let d = d64.strip_prefix('-').unwrap_or(d64);
            match plain_decimal(d) {
                None => fails.push(format!("Display {} (as a double) is not digits[.digits]", d64)),
                Some((digits, e, point)) => {
                    let got = ref_nearest64(&digits, e);
                    if got != wide_bits {
                        fails.push(format!("Display {} (as a double) does not round to the double {:x} of the single {:x} (gives {:x})", d64, wide_bits, mag, got));
                    }
                    if d64.starts_with('-') != sign {
                        fails.push(format!("Display {} (as a double) has the wrong sign", d64));
                    }
                    if (f32::from_bits(mag as u32).fract() == 0.0) == point {
                        fails.push(format!("Display {} (as a double) has a point for a whole value or none for a fractional one", d64));
                    }
                }
            }
        }
    }
    // (2) the printed text read by the real lexer
    let mut sm = rssl::text::SourceManager::new();
    let (_f, base) = sm.add_fragment(&printed);
    let toks = guard(|| rssl_preprocess::verif::lex(&printed, base, false));
    let shown = match &toks {
        Ok(Ok(v)) => v.iter().map(|t| show_token(&t.0)).collect::<Vec<_>>().join(";"),
        Ok(Err(e)) => format!("!err {:?}", e.reason),
        Err(p) => format!("!panic {}", p),
    };
    let msl_name = tgt == Tgt::Msl && (printed.ends_with("INFINITY") || printed.ends_with("FLT_MAX"));
    if msl_name {
        hist.add("fmt.msl_name");
        match parse_printed(&printed, tgt) {
            Some(Printed { neg, num: RefNum::Float { bits64, .. }, .. }) => {
                let v = if wide { bits64 } else { ref_narrow32(bits64) as u64 };
                if v != mag || neg != sign {
                    fails.push(format!("{} does not stand for {:x}", printed, bits));
                }
            }
            _ => fails.push(format!("{} is not a value name", printed)),
        }
    } else {
        match &toks {
            Ok(Ok(v)) => {
                let body: Vec<&Token> = v.iter().map(|t| &t.0).collect();
                let (neg, rest) = match body.split_first() {
                    Some((Token::Minus, r)) => (true, r),
                    _ => (false, &body[..]),
                };
                match rest {
                    [t] => match token_value(t) {
                        Some((k, b)) => {
                            if k != kind {
                                fails.push(format!("{} {:x} printed as {} lexes as {}", kind, bits, printed, k));
                            } else if b != mag {
                                fails.push(format!("{} {:x} printed as {} lexes as {:x}", kind, bits, printed, b));
                            } else if neg != sign && !(mag == 0 && !is_float) {
                                fails.push(format!("{} {:x} printed as {} loses its sign", kind, bits, printed));
                            }
                        }
                        None => fails.push(format!("{} {:x} printed as {} is not a numeric token", kind, bits, printed)),
                    },
                    _ => fails.push(format!("{} {:x} printed as {} lexes as {}", kind, bits, printed, shown)),
                }
            }
            _ => fails.push(format!("{} {:x} printed as {} does not lex: {}", kind, bits, printed, shown)),
        }
    }
    let orc = if fails.is_empty() { "ok".to_string() } else { format!("FAIL:fmt {}", fails[0]) };
    (printed, orc)
}

/// `C10.sweep32 \t <stride> \t <offset>`: every finite non-negative single `offset + k * stride`: its `Display` digits
/// are read the way the lexer reads a literal (`str::parse::<f64>` — `calculate_float64_from_parts` — then `as f32`).
/// Observation: the bit patterns for which that is not the value again (in the whole range: `15ae43fd` alone). Oracle:
/// the real formatter prints each of those with a text that the real lexer reads back as the value (every other single
/// is printed with its `Display` digits — `literal_tables_as_modelled`, `C10.fmt` — which were just read back).
pub fn run_sweep32(stride: u32, offset: u32) -> (String, String) {
    if stride == 0 {
        return (String::new(), "SKIP:bad request".into());
    }
    let threads = 4u32;
    let mut bad: Vec<(u32, String, u32)> = Vec::new();
    std::thread::scope(|sc| {
        let hs: Vec<_> = (0..threads)
            .map(|t| {
                sc.spawn(move || {
                    use std::fmt::Write;
                    let mut out = Vec::new();
                    let mut s = String::new();
                    let mut b = offset as u64 + t as u64 * stride as u64;
                    while b < 0x7f80_0000 {
                        let v = f32::from_bits(b as u32);
                        s.clear();
                        let _ = write!(s, "{}", v);
                        let back = s.parse::<f64>().map(|d| (d as f32).to_bits()).unwrap_or(u32::MAX);
                        if back != b as u32 {
                            out.push((b as u32, s.clone(), back));
                        }
                        b += stride as u64 * threads as u64;
                    }
                    out
                })
            })
            .collect();
        for h in hs {
            if let Ok(v) = h.join() {
                bad.extend(v);
            }
        }
    });
    bad.sort();
    let obs = bad.iter().map(|(b, _, _)| format!("{:08x}", b)).collect::<Vec<_>>().join(",");
    // the singles whose Display digits round twice are the ones `format_literal` must not print with those digits: the
    // real formatter on exactly these values (both single-precision kinds, both targets, both signs); the printed text,
    // lexed by the real lexer, must be the value again (`run_fmt`)
    let mut hist = Hist::default();
    for (b, _, _) in &bad {
        for kind in ["Float32", "Float16"] {
            for tgt in ["dx", "msl"] {
                for bits in [*b as u64, *b as u64 | 1 << 31] {
                    let disp = display_of(kind, bits);
                    let d64 = display64_of(kind, bits);
                    let (_, orc) = run_fmt(tgt, kind, &format!("{:x}", bits), &disp, d64.as_deref(), &mut hist);
                    if orc != "ok" {
                        return (obs, orc);
                    }
                }
            }
        }
    }
    (obs, "ok".to_string())
}

// ------------------------------------------------------------------------------------------------
// generators
// ------------------------------------------------------------------------------------------------

/// a finite, non-negative bit pattern of the format, biased to the edges of every class
fn gen_float_bits(rng: &mut Rng, f: Fmt, hist: &mut Hist) -> u64 {
    let fbits = f.p - 1;
    let inf = f.inf();
    let one = ((1u64 << (f.ebits - 1)) - 1) << fbits;
    match rng.below(12) {
        0..=3 => {
            hist.add("bits.random");
            rng.below(inf)
        }
        4 => {
            hist.add("bits.subnormal");
            rng.below(1u64 << fbits)
        }
        5 => {
            hist.add("bits.edge");
            *rng.pick(&[0, 1, 2, (1u64 << fbits) - 1, 1u64 << fbits, (1u64 << fbits) + 1, one - 1, one, one + 1, inf - 2, inf - 1])
        }
        6 | 7 => {
            hist.add("bits.integer");
            // a whole number: k random leading bits, binade up to 2^70 (the i64 boundary of format_literal is 2^63)
            let e = rng.below(71);
            let k = rng.below(fbits as u64 + 1).min(e) as u32;
            let frac = if k == 0 { 0 } else { rng.below(1u64 << k) << (fbits - k) };
            ((one >> fbits) + e) << fbits | frac
        }
        8 => {
            hist.add("bits.near_2^63");
            let e = 61 + rng.below(5);
            let frac = *rng.pick(&[0u64, 1, (1u64 << fbits) - 1, 1u64 << (fbits - 1)]);
            ((one >> fbits) + e) << fbits | frac
        }
        9 => {
            hist.add("bits.short_decimal");
            // a value with a short decimal spelling
            let n = rng.below(100000) as f64;
            let s = 10f64.powi(rng.range(-12, 12) as i32);
            if f.p == 53 { (n * s).to_bits() } else { ((n * s) as f32).to_bits() as u64 }
        }
        10 => {
            hist.add("bits.binade_random");
            let e = rng.below((1u64 << f.ebits) - 1);
            e << fbits | rng.below(1u64 << fbits)
        }
        _ => {
            hist.add("bits.double_rounding_neighbourhood");
            // the only single whose shortest decimal reads back differently through a double: 7.038531e-26
            if f.p == 24 { 0x15ae43fd + rng.below(5) - 2 } else { (f32::from_bits(0x15ae43fd) as f64).to_bits() + rng.below(3) - 1 }
        }
    }
}

/// a source spelling whose value is exactly the given bit pattern
fn spell_float(kind: &str, bits: u64, rng: &mut Rng) -> String {
    let v: f64 = if kind == "Float16" || kind == "Float32" { f32::from_bits(bits as u32) as f64 } else { f64::from_bits(bits) };
    let sfx = match kind {
        "Float16" => *rng.pick(&["h", "H"]),
        "Float32" => *rng.pick(&["f", "F"]),
        "Float64" => *rng.pick(&["l", "L"]),
        _ => "",
    };
    // exponent form (shortest digits of the double), or the plain decimal form when that is short
    let e = format!("{:e}", v);
    let plain = format!("{}", v);
    let body = if plain.len() <= 24 && rng.chance(1, 2) {
        if plain.contains('.') { plain } else { format!("{}.0", plain) }
    } else if rng.chance(1, 3) {
        e.replace('e', "E")
    } else {
        e
    };
    format!("{}{}", body, sfx)
}

fn gen_emit_literal(rng: &mut Rng, hist: &mut Hist) -> String {
    match rng.below(10) {
        0..=2 => gen_int(rng, hist),
        3 => gen_float(rng, hist),
        4 => {
            // small integers in every base and suffix (array sizes, enum values, template arguments)
            let v = match rng.below(3) {
                0 => rng.range(1, 64) as u64,
                1 => rng.range(1, 65536) as u64,
                _ => rng.below(1u64 << 31),
            };
            let body = match rng.below(3) {
                0 => format!("{}", v),
                1 => format!("0x{:x}", v),
                _ => format!("0{:o}", v),
            };
            hist.add("lit.small_int");
            format!("{}{}", body, rng.pick(&["", "", "u", "U"]))
        }
        _ => {
            let kind = *rng.pick(&["Float", "Float16", "Float32", "Float32", "Float64"]);
            let f = if kind == "Float16" || kind == "Float32" { F32 } else { F64 };
            let bits = gen_float_bits(rng, f, hist);
            hist.add(&format!("lit.bits.{}", kind));
            spell_float(kind, bits, rng)
        }
    }
}

pub fn generate(args: &Args, rng: &mut Rng, out: &mut Out, hist: &mut Hist) -> (u64, u64) {
    // (4) literals through the whole compiler: every context, every target
    let n_emit = if args.thorough() { 200_000 } else { 9_000 };
    let n_emit = args.n.map(|n| n / 4).unwrap_or(n_emit);
    let mut emitted = 0u64;
    let mut tries = 0u64;
    while emitted < n_emit && tries < n_emit * 20 {
        tries += 1;
        let mut lit = gen_emit_literal(rng, hist);
        let tgt = *rng.pick(&[Tgt::Dx, Tgt::Dx, Tgt::Msl, Tgt::Msl, Tgt::Vk]);
        // half of the cases in the 12 original contexts, half in the declaration / statement forms of TEMPLATES
        let ctx = if rng.chance(1, 2) {
            *rng.pick(&["stmt", "stmt", "stmt", "neg", "init", "initf", "initneg", "enumcast", "arr", "enumv", "targ", "incl", "def", "paste"])
        } else {
            let t = rng.pick(TEMPLATES);
            if t.1 {
                // integer-only forms: sizes, labels, attribute arguments (1 .. 2^16, every base, with and without `u`)
                let v = if rng.chance(1, 2) { rng.range(1, 64) as u64 } else { rng.range(1, 65536) as u64 };
                let body = match rng.below(3) {
                    0 => format!("{}", v),
                    1 => format!("0x{:x}", v),
                    _ => format!("0{:o}", v),
                };
                lit = format!("{}{}", body, rng.pick(&["", "", "u", "U"]));
            }
            t.0
        };
        let field = format!("{}.{}", tgt.name(), ctx);
        let (obs, orc) = run_emit(&field, &lit, hist);
        if orc.starts_with("SKIP:") && !orc.starts_with("SKIP:rejected") {
            // the context does not apply to this literal: not a case
            continue;
        }
        emitted += 1;
        hist.add(&format!("emit.ctx.{}", ctx));
        hist.add(&format!("emit.tgt.{}", tgt.name()));
        out.case(&format!("C10.emit\t{}\t{}", field, lit), &obs, &orc);
    }
    // (5) the formatter alone on random-bit values of every literal kind
    let n_fmt = if args.thorough() { 400_000 } else { 16_000 };
    let n_fmt = args.n.map(|n| n).unwrap_or(n_fmt);
    for _ in 0..n_fmt {
        let kind = *rng.pick(FMT_KINDS);
        let tgt = *rng.pick(&[Tgt::Dx, Tgt::Msl]);
        let bits: u64 = match kind {
            "Int" | "IntU64" | "IntS64" => match rng.below(4) {
                0 => rng.next(),
                1 => rng.below(1000),
                2 => *rng.pick(&[0, 1, 7, 8, 9, 10, i32::MAX as u64, 1 << 31, u32::MAX as u64, 1 << 32, i64::MAX as u64, 1 << 63, u64::MAX]),
                _ => rng.next() >> rng.below(64),
            },
            "IntU32" => match rng.below(3) {
                0 => rng.below(1 << 32),
                1 => rng.below(100),
                _ => *rng.pick(&[0, 1, 8, 10, i32::MAX as u64, 1 << 31, u32::MAX as u64]),
            },
            "Float" | "Float64" => {
                let b = gen_float_bits(rng, F64, hist);
                let b = if rng.chance(1, 12) { F64.inf() } else { b };
                if rng.chance(1, 3) { b | 1 << 63 } else { b }
            }
            _ => {
                let b = gen_float_bits(rng, F32, hist);
                let b = if rng.chance(1, 12) { F32.inf() } else { b };
                if rng.chance(1, 3) { b | 1 << 31 } else { b }
            }
        };
        if tgt == Tgt::Msl && kind == "Float64" && bits & !(1u64 << 63) == F64.inf() {
            // `write_infinity_f64` panics by design ("invalid msl"): Metal has no double and the Metal generator builds no
            // Float64 literal (fix 9824ce3; `msl_double_literal_rejected`), so this AST node is not an input of the formatter
            continue;
        }
        let disp = display_of(kind, bits);
        let d64 = display64_of(kind, bits);
        let (obs, orc) = run_fmt(tgt.name(), kind, &format!("{:x}", bits), &disp, d64.as_deref(), hist);
        let tail = d64.map(|d| format!("\t{}", d)).unwrap_or_default();
        out.case(&format!("C10.fmt\t{}\t{}\t{:x}\t{}{}", tgt.name(), kind, bits, disp, tail), &obs, &orc);
    }
    // (5b) all singles (thorough) or every 61st (quick): Display digits read back through the double
    let (stride, offset) = if args.thorough() { (1u32, 0u32) } else { (61, rng.below(61) as u32) };
    if args.n.is_none() {
        let (obs, orc) = run_sweep32(stride, offset);
        out.case(&format!("C10.sweep32\t{}\t{}", stride, offset), &obs, &orc);
        hist.add("fmt.sweep32");
    }
    (emitted, n_fmt)
}

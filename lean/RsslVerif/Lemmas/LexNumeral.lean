import RsslVerif.Lemmas.LitFormat
/-!
# Maximal munch for numerals (C10: a floating literal is read as ONE floating literal)

`Numeral` is the decimal floating grammar of the property text,

    digits "." digits* [exponent] [suffix]   |   digits exponent [suffix]
    exponent = ("e" | "E") ["+" | "-"] digits          suffix = h H f F l L

as an inductive type with its spelling `Numeral.bytes`. `numeral_one_token`: for every numeral and every text that
follows it and does not continue it (`Boundary`: the end, or a byte that is neither an identifier character nor `#`),
`token_intermediate` on numeral ++ follower returns one token, consumes exactly the numeral, and the token is the float
literal of the suffix' kind carrying `nearest64` of the numeral's digits and exponent.
-/
set_option linter.unusedSimpArgs false
namespace RsslVerif.Model.Lexer
open RsslVerif.Gen.LexTables RsslVerif.Spec

/-- the exponent letter as written -/
inductive ExpLetter where
  | e | E
  deriving DecidableEq, Repr

def ExpLetter.byte : ExpLetter → UInt8
  | .e => 101
  | .E => 69

/-- the sign of the exponent as written -/
inductive SignSpelling where
  | absent | plus | minus
  deriving DecidableEq, Repr

def SignSpelling.bytes : SignSpelling → Bytes
  | .absent => []
  | .plus => [43]
  | .minus => [45]

/-- exponent part: letter, sign, at least one digit -/
structure ExpPart where
  letter : ExpLetter
  sign : SignSpelling
  d : Nat
  ds : List Nat
  deriving Repr

def ExpPart.bytes (x : ExpPart) : Bytes := x.letter.byte :: (x.sign.bytes ++ (x.d :: x.ds).map digitByte)

/-- the exponent the lexer computes (saturating at `i64::MAX`, then negated for `-`) -/
def ExpPart.value (x : ExpPart) : Int :=
  if x.sign = .minus then -((satExp (x.d :: x.ds) : Nat) : Int) else ((satExp (x.d :: x.ds) : Nat) : Int)

/-- a suffix letter: the type it names and whether it is written in upper case -/
structure SuffixSpelling where
  ty : FloatType
  upper : Bool
  deriving Repr

def SuffixSpelling.byte : SuffixSpelling → UInt8
  | ⟨.Half, false⟩ => 104
  | ⟨.Half, true⟩ => 72
  | ⟨.Float, false⟩ => 102
  | ⟨.Float, true⟩ => 70
  | ⟨.Double, false⟩ => 108
  | ⟨.Double, true⟩ => 76

def suffixBytes : Option SuffixSpelling → Bytes
  | none => []
  | some s => [s.byte]

/-- **the decimal floating numerals**: `point` = `digits "." digits* [exponent] [suffix]` (the fraction digits may be
absent: `1.`), `expo` = `digits exponent [suffix]` (no point: the exponent is mandatory) -/
inductive Numeral where
  | point (w : Nat) (ws : List Nat) (fr : List Nat) (ex : Option ExpPart) (sfx : Option SuffixSpelling)
  | expo (w : Nat) (ws : List Nat) (ex : ExpPart) (sfx : Option SuffixSpelling)
  deriving Repr

def expBytes : Option ExpPart → Bytes
  | none => []
  | some x => x.bytes

/-- the spelling -/
def Numeral.bytes : Numeral → Bytes
  | .point w ws fr ex sfx => (w :: ws).map digitByte ++ 46 :: (fr.map digitByte ++ (expBytes ex ++ suffixBytes sfx))
  | .expo w ws ex sfx => (w :: ws).map digitByte ++ (ex.bytes ++ suffixBytes sfx)

/-- every digit is a decimal digit -/
def Numeral.WF : Numeral → Prop
  | .point w ws fr ex _ => (∀ x ∈ w :: ws, x < 10) ∧ (∀ x ∈ fr, x < 10) ∧ (∀ x, ex = some x → ∀ y ∈ x.d :: x.ds, y < 10)
  | .expo w ws ex _ => (∀ x ∈ w :: ws, x < 10) ∧ (∀ y ∈ ex.d :: ex.ds, y < 10)

/-- significant digits: whole part then fraction -/
def Numeral.digits : Numeral → List Nat
  | .point w ws fr _ _ => (w :: ws) ++ fr
  | .expo w ws _ _ => w :: ws

def Numeral.fracLen : Numeral → Nat
  | .point _ _ fr _ _ => fr.length
  | .expo _ _ _ _ => 0

def Numeral.expValue : Numeral → Int
  | .point _ _ _ ex _ => (ex.map ExpPart.value).getD 0
  | .expo _ _ ex _ => ex.value

def Numeral.suffixType : Numeral → Option FloatType
  | .point _ _ _ _ sfx => sfx.map (·.ty)
  | .expo _ _ _ sfx => sfx.map (·.ty)

/-- the one token a numeral is: the float literal of its suffix' kind with the double nearest to
`digits × 10^(exponent − |fraction|)` (narrowed once for `f` / `h` by `mkFloatToken`) -/
def Numeral.token (n : Numeral) : Token :=
  mkFloatToken (Dec2Bin.nearest64 n.digits (n.expValue - (n.fracLen : Nat))) n.suffixType

/-! ## the tail: suffix and follower -/

theorem suffix_noDigit (sfx : Option SuffixSpelling) (rest : Bytes) (h : Boundary rest) :
    NoDigitHead (suffixBytes sfx ++ rest) := by
  match sfx with
  | none => simpa [suffixBytes] using h.noDigit
  | some ⟨.Half, false⟩ => intro b r hb; simp [suffixBytes, SuffixSpelling.byte] at hb; rw [← hb.1]; decide
  | some ⟨.Half, true⟩ => intro b r hb; simp [suffixBytes, SuffixSpelling.byte] at hb; rw [← hb.1]; decide
  | some ⟨.Float, false⟩ => intro b r hb; simp [suffixBytes, SuffixSpelling.byte] at hb; rw [← hb.1]; decide
  | some ⟨.Float, true⟩ => intro b r hb; simp [suffixBytes, SuffixSpelling.byte] at hb; rw [← hb.1]; decide
  | some ⟨.Double, false⟩ => intro b r hb; simp [suffixBytes, SuffixSpelling.byte] at hb; rw [← hb.1]; decide
  | some ⟨.Double, true⟩ => intro b r hb; simp [suffixBytes, SuffixSpelling.byte] at hb; rw [← hb.1]; decide

theorem suffix_head' (sfx : Option SuffixSpelling) (rest : Bytes) (h : Boundary rest) :
    ∀ b r, suffixBytes sfx ++ rest = b :: r → b.toNat ≠ 101 ∧ b.toNat ≠ 69 ∧ b.toNat ≠ 35 := by
  intro b r hb
  match sfx with
  | none =>
    simp [suffixBytes] at hb
    have := h b r hb
    exact ⟨(identChar_e this.1).1, (identChar_e this.1).2, this.2⟩
  | some ⟨.Half, false⟩ => simp [suffixBytes, SuffixSpelling.byte] at hb; rw [← hb.1]; decide
  | some ⟨.Half, true⟩ => simp [suffixBytes, SuffixSpelling.byte] at hb; rw [← hb.1]; decide
  | some ⟨.Float, false⟩ => simp [suffixBytes, SuffixSpelling.byte] at hb; rw [← hb.1]; decide
  | some ⟨.Float, true⟩ => simp [suffixBytes, SuffixSpelling.byte] at hb; rw [← hb.1]; decide
  | some ⟨.Double, false⟩ => simp [suffixBytes, SuffixSpelling.byte] at hb; rw [← hb.1]; decide
  | some ⟨.Double, true⟩ => simp [suffixBytes, SuffixSpelling.byte] at hb; rw [← hb.1]; decide

theorem floatType_suffix' (sfx : Option SuffixSpelling) (rest : Bytes) (h : Boundary rest) :
    opt (floatType (suffixBytes sfx ++ rest)) (suffixBytes sfx ++ rest) = (rest, sfx.map (·.ty)) := by
  match sfx with
  | some ⟨.Half, false⟩ => simp [suffixBytes, SuffixSpelling.byte, floatType, floatTypeTable, floatTypeFrom, opt]
  | some ⟨.Half, true⟩ => simp [suffixBytes, SuffixSpelling.byte, floatType, floatTypeTable, floatTypeFrom, opt]
  | some ⟨.Float, false⟩ => simp [suffixBytes, SuffixSpelling.byte, floatType, floatTypeTable, floatTypeFrom, opt]
  | some ⟨.Float, true⟩ => simp [suffixBytes, SuffixSpelling.byte, floatType, floatTypeTable, floatTypeFrom, opt]
  | some ⟨.Double, false⟩ => simp [suffixBytes, SuffixSpelling.byte, floatType, floatTypeTable, floatTypeFrom, opt]
  | some ⟨.Double, true⟩ => simp [suffixBytes, SuffixSpelling.byte, floatType, floatTypeTable, floatTypeFrom, opt]
  | none => simpa [suffixBytes, floatSuffix] using floatType_suffix none rest h

/-! ## the exponent part -/

theorem digitByte_toNat (d : Nat) (h : d < 10) : (digitByte d).toNat = 48 + d := by
  unfold digitByte; simp [UInt8.toNat_ofNat]; omega

theorem sign_spelled (s : SignSpelling) (d : Nat) (hd : d < 10) (tl : Bytes) :
    opt (sign (s.bytes ++ digitByte d :: tl)) (s.bytes ++ digitByte d :: tl) =
      (digitByte d :: tl, match s with | .absent => none | .plus => some false | .minus => some true) := by
  cases s with
  | absent =>
    have := digitByte_toNat d hd
    have h1 : (digitByte d).toNat ≠ 43 := by omega
    have h2 : (digitByte d).toNat ≠ 45 := by omega
    simp [SignSpelling.bytes, sign, opt, wrongChars, h1, h2]
  | plus => simp [SignSpelling.bytes, sign, opt]
  | minus => simp [SignSpelling.bytes, sign, opt]

theorem floatExponent_part (x : ExpPart) (hx : ∀ y ∈ x.d :: x.ds, y < 10) (tl : Bytes) (ht : NoDigitHead tl) :
    floatExponent (x.bytes ++ tl) = .ok (tl, x.value) := by
  have hs := sign_spelled x.sign x.d (hx x.d (by simp)) (x.ds.map digitByte ++ tl)
  have hd := digitSequence_digits x.d x.ds hx tl ht
  have hl : x.letter.byte.toNat = 101 ∨ x.letter.byte.toNat = 69 := by
    cases x.letter <;> simp [ExpLetter.byte]
  simp only [List.map_cons, List.cons_append] at hd
  simp only [ExpPart.bytes, List.cons_append, List.map_cons, List.append_assoc, floatExponent, hl, if_true]
  rw [hs]
  simp only [hd, ExpPart.value]
  cases x.sign <;> simp

/-! ## `literal_float` from its parts -/

/-- the second half of `literal_float`: mantissa and exponent read, the tail is a suffix and a boundary -/
theorem literalFloat_of_parts {inp i2 tl rest : Bytes} {hasF : Bool} {l r : List Nat} {exv : Option Int}
    {ty : Option FloatType}
    (hm : floatMantissa inp = .ok (i2, (hasF, l, r)))
    (hex : opt (floatExponent i2) i2 = (tl, exv))
    (hne : ¬ (hasF = false ∧ exv = none))
    (hhead : ∀ b q, tl = b :: q → b.toNat ≠ 35)
    (hty : opt (floatType tl) tl = (rest, ty))
    (hb : Boundary rest) :
    literalFloat inp = .ok (rest, mkFloatToken (float64FromParts l r (exv.getD 0)) ty) := by
  unfold literalFloat
  rw [hm]
  have hinf := stripInf_none tl hhead
  simp only [hex, hne, if_false, floatInf, hinf, hty]
  cases rest with
  | nil => simp
  | cons c r5 =>
    have := (hb c r5 rfl).1
    simp [this]

theorem digitSequence_none (i : Bytes) (h : NoDigitHead i) : opt (digitSequence i) i = (i, none) := by
  cases i with
  | nil => simp [digitSequence, digitWith, endOfStream, opt]
  | cons b r => simp [digitSequence, digitWith, h b r rfl, wrongChars, opt]

/-- `digits "." digits*` followed by something that is not a digit -/
theorem floatMantissa_point (w : Nat) (ws fr : List Nat) (hw : ∀ x ∈ w :: ws, x < 10) (hf : ∀ x ∈ fr, x < 10)
    (tl : Bytes) (ht : NoDigitHead tl) :
    floatMantissa ((w :: ws).map digitByte ++ 46 :: (fr.map digitByte ++ tl)) = .ok (tl, (true, w :: ws, fr)) := by
  have h46 : NoDigitHead (46 :: (fr.map digitByte ++ tl)) := by
    intro b q hq; simp at hq; rw [← hq.1]; decide
  have hwd := digitSequence_digits w ws hw _ h46
  have hfc : fractionalConstant ((w :: ws).map digitByte ++ 46 :: (fr.map digitByte ++ tl)) = .ok (tl, (w :: ws, fr)) := by
    unfold fractionalConstant
    rw [hwd]
    simp only [opt]
    cases fr with
    | nil =>
      have := digitSequence_none tl ht
      simp only [opt] at this
      simp only [List.map_nil, List.nil_append]
      split at this <;> simp_all
    | cons f fs =>
      rw [digitSequence_digits f fs hf tl ht]
      simp
  unfold floatMantissa
  rw [hfc]
  simp [opt]

/-- `digits` followed by an exponent letter: no fraction -/
theorem floatMantissa_whole (w : Nat) (ws : List Nat) (hw : ∀ x ∈ w :: ws, x < 10) (c : UInt8) (tl : Bytes)
    (hc : decDigit? c = none) (h46 : c.toNat ≠ 46) :
    floatMantissa ((w :: ws).map digitByte ++ c :: tl) = .ok (c :: tl, (false, w :: ws, [])) := by
  have hnd : NoDigitHead (c :: tl) := by
    intro b q hq; simp at hq; rw [← hq.1]; exact hc
  have hwd := digitSequence_digits w ws hw _ hnd
  have hfc : fractionalConstant ((w :: ws).map digitByte ++ c :: tl) = otherTokenChars (c :: tl) := by
    unfold fractionalConstant
    rw [hwd]
    simp [opt, h46]
  unfold floatMantissa
  rw [hfc]
  simp only [opt, otherTokenChars]
  rw [hwd]

/-! ## the statement -/

theorem expBytes_head_noDigit (ex : Option ExpPart) (tl : Bytes) (ht : NoDigitHead tl) : NoDigitHead (expBytes ex ++ tl) := by
  cases ex with
  | none => simpa [expBytes] using ht
  | some x =>
    intro b q hq
    simp [expBytes, ExpPart.bytes] at hq
    rw [← hq.1]
    cases x.letter <;> decide

/-- **numeral_one_token** over `literal_float` -/
theorem literalFloat_numeral (n : Numeral) (hwf : n.WF) (rest : Bytes) (hb : Boundary rest) :
    literalFloat (n.bytes ++ rest) = .ok (rest, n.token) := by
  cases n with
  | point w ws fr ex sfx =>
    obtain ⟨hw, hf, hx⟩ := hwf
    have hnd := suffix_noDigit sfx rest hb
    have hsh := suffix_head' sfx rest hb
    have hty := floatType_suffix' sfx rest hb
    have hm := floatMantissa_point w ws fr hw hf (expBytes ex ++ (suffixBytes sfx ++ rest))
      (expBytes_head_noDigit ex _ hnd)
    have hbytes : (Numeral.point w ws fr ex sfx).bytes ++ rest =
        (w :: ws).map digitByte ++ 46 :: (fr.map digitByte ++ (expBytes ex ++ (suffixBytes sfx ++ rest))) := by
      simp [Numeral.bytes]
    rw [hbytes]
    cases ex with
    | none =>
      have hex := floatExponent_none (suffixBytes sfx ++ rest) (fun b q hq => ⟨(hsh b q hq).1, (hsh b q hq).2.1⟩)
      have := literalFloat_of_parts (exv := none) (ty := sfx.map (·.ty)) hm (by simpa [expBytes] using hex) (by simp)
        (fun b q hq => (hsh b q hq).2.2) hty hb
      rw [this]
      simp [Numeral.token, Numeral.digits, Numeral.expValue, Numeral.fracLen, Numeral.suffixType, float64FromParts]
    | some x =>
      have hxe := floatExponent_part x (hx x rfl) (suffixBytes sfx ++ rest) hnd
      have hex : opt (floatExponent (expBytes (some x) ++ (suffixBytes sfx ++ rest))) (expBytes (some x) ++ (suffixBytes sfx ++ rest)) =
          (suffixBytes sfx ++ rest, some x.value) := by
        simp only [expBytes, hxe, opt]
      have := literalFloat_of_parts (ty := sfx.map (·.ty)) hm hex (by simp)
        (fun b q hq => (hsh b q hq).2.2) hty hb
      rw [this]
      simp [Numeral.token, Numeral.digits, Numeral.expValue, Numeral.fracLen, Numeral.suffixType, float64FromParts]
  | expo w ws ex sfx =>
    obtain ⟨hw, hx⟩ := hwf
    have hnd := suffix_noDigit sfx rest hb
    have hsh := suffix_head' sfx rest hb
    have hty := floatType_suffix' sfx rest hb
    have hbytes : (Numeral.expo w ws ex sfx).bytes ++ rest =
        (w :: ws).map digitByte ++ ex.letter.byte :: ((ex.sign.bytes ++ (ex.d :: ex.ds).map digitByte) ++ (suffixBytes sfx ++ rest)) := by
      simp [Numeral.bytes, ExpPart.bytes]
    have hc : decDigit? ex.letter.byte = none ∧ ex.letter.byte.toNat ≠ 46 := by
      cases ex.letter <;> exact ⟨by decide, by decide⟩
    have hm := floatMantissa_whole w ws hw ex.letter.byte
      ((ex.sign.bytes ++ (ex.d :: ex.ds).map digitByte) ++ (suffixBytes sfx ++ rest)) hc.1 hc.2
    have hxe := floatExponent_part ex hx (suffixBytes sfx ++ rest) hnd
    have hex : opt (floatExponent (ex.letter.byte :: ((ex.sign.bytes ++ (ex.d :: ex.ds).map digitByte) ++ (suffixBytes sfx ++ rest))))
        (ex.letter.byte :: ((ex.sign.bytes ++ (ex.d :: ex.ds).map digitByte) ++ (suffixBytes sfx ++ rest))) =
          (suffixBytes sfx ++ rest, some ex.value) := by
      have : ex.letter.byte :: ((ex.sign.bytes ++ (ex.d :: ex.ds).map digitByte) ++ (suffixBytes sfx ++ rest)) =
          ex.bytes ++ (suffixBytes sfx ++ rest) := by simp [ExpPart.bytes]
      rw [this, hxe]
      simp [opt]
    rw [hbytes]
    have := literalFloat_of_parts (ty := sfx.map (·.ty)) hm hex (by simp)
      (fun b q hq => (hsh b q hq).2.2) hty hb
    rw [this]
    simp [Numeral.token, Numeral.digits, Numeral.expValue, Numeral.fracLen, Numeral.suffixType, float64FromParts]

/-- a numeral starts with a digit -/
theorem Numeral.bytes_head (n : Numeral) (hwf : n.WF) (rest : Bytes) :
    ∃ b r, n.bytes ++ rest = b :: r ∧ 48 ≤ b.toNat ∧ b.toNat ≤ 57 := by
  cases n with
  | point w ws fr ex sfx =>
    exact ⟨digitByte w, _, by simp [Numeral.bytes]; rfl, digitByte_range w (hwf.1 w (by simp))⟩
  | expo w ws ex sfx =>
    exact ⟨digitByte w, _, by simp [Numeral.bytes]; rfl, digitByte_range w (hwf.1 w (by simp))⟩

/-- **numeral_one_token**: `token_intermediate` on numeral ++ follower is the numeral's one token and leaves exactly
the follower -/
theorem numeral_one_token (n : Numeral) (hwf : n.WF) (rest : Bytes) (hb : Boundary rest) (inc : Bool) :
    tokenIntermediate (n.bytes ++ rest) inc = .ok (rest, n.token) := by
  obtain ⟨b, r, hbr, hd⟩ := n.bytes_head hwf rest
  have h := literalFloat_numeral n hwf rest hb
  rw [hbr] at h ⊢
  exact token_of_float_ok inc hd h

end RsslVerif.Model.Lexer

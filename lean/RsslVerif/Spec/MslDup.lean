import RsslVerif.Model.MslDup
/-!
# C02 — what "evaluating an operand once" means, for every meaning of calls and operators

A deliberately weak reading of the typed IR, enough to say what repetition (or reordering) of an operand can change:
* a small set of constructors (`strictPure`) evaluates its operand fields left to right and then computes a value from its
  payload, the operand values and the store *without writing*;
* an `IntrinsicOp` whose operator is in `pureOps` (the arithmetic, bitwise, comparison and boolean operators: everything but
  increments, assignments and the helper / mesh forms) evaluates its operands left to right, may stop after any of them
  (`Interp.early`: the short circuit of `&&` / `||` — allowed for every operator, which only makes the reading weaker) and
  computes its value without writing;
* `TernaryConditional` evaluates its condition and then ONE of the two other operands (`Interp.choose`);
* every other constructor (assignments, `++`, calls, sequences, object members) is an arbitrary function of its fields and
  the store (`Interp.other`: it may run its operands in any order, any number of times, and write anything).
The theorems of `Thm/C02Dup` hold for every `Interp`.
-/
namespace RsslVerif.Spec.MslDup
open RsslVerif.Gen.MslDupSites RsslVerif.Gen.MslGenTables RsslVerif.Model.MslDup

/-- constructors of `ir::Expression` whose own step has no effect and runs every operand exactly once: leaves, member /
element / component selection, conversions, numeric constructors, `sizeof` -/
def strictPure : List String :=
  ["Literal", "Variable", "MemberVariable", "Global", "ConstantVariable", "EnumValue", "Swizzle", "MatrixSwizzle",
   "ArraySubscript", "StructMember", "ObjectMember", "Cast", "SizeOf", "Constructor"]

/-- operators of `ir::IntrinsicOp` without an effect of their own (our reading; the others: `++` / `--`, the assignments,
`MakeSigned*`, `MeshOutput*`) -/
def pureOps : List String :=
  ["Plus", "Minus", "LogicalNot", "BitwiseNot", "Add", "Subtract", "Multiply", "Divide", "Modulus", "LeftShift", "RightShift",
   "BitwiseAnd", "BitwiseOr", "BitwiseXor", "BooleanAnd", "BooleanOr", "LessThan", "LessEqual", "GreaterThan", "GreaterEqual",
   "Equality", "Inequality"]

/-- the operator with index `p` in `intrinsicOpNames` is one of `pureOps` -/
def pureOpIdx (p : Nat) : Bool :=
  match RsslVerif.Gen.MslGenTables.intrinsicOpNames[p]? with
  | some n => pureOps.contains n
  | none => false

structure Interp (Val Store : Type) where
  /-- a strict pure constructor's step (also the final step of a pure operator): payload, operand values, the store (read
  only); `none` = undefined -/
  step : String → List Nat → List Val → Store → Option Val
  /-- a pure operator (index in `intrinsicOpNames`) may produce its value after the operands evaluated so far -/
  early : Nat → List Val → Store → Option Val
  /-- which branch a condition value selects -/
  choose : Val → Option Bool
  /-- any other constructor -/
  other : String → DFields → Store → Option (Val × Store)

variable {Val Store : Type}

mutual
def eval (I : Interp Val Store) : DExpr → Store → Option (Val × Store)
  | .node c fs, σ =>
    if strictPure.contains c then
      match evalFields I fs σ with
      | none => none
      | some (vs, σ1) => match I.step c fs.payloads vs σ1 with
        | none => none
        | some v => some (v, σ1)
    else if c = "IntrinsicOp" then
      match fs with
      | .payload p (.many es .nil) => if pureOpIdx p then evalLazy I p es [] σ else I.other c fs σ
      | _ => I.other c fs σ
    else if c = "TernaryConditional" then
      match fs with
      | .one cond (.one t (.one f .nil)) =>
        match eval I cond σ with
        | none => none
        | some (v, σ1) =>
          match I.choose v with
          | none => none
          | some true => eval I t σ1
          | some false => eval I f σ1
      | _ => I.other c fs σ
    else I.other c fs σ
/-- the operands of a pure operator, left to right; the operator may produce its value after any of them -/
def evalLazy (I : Interp Val Store) (p : Nat) : DExprs → List Val → Store → Option (Val × Store)
  | .nil, acc, σ => (I.step "IntrinsicOp" [p] acc σ).map (fun v => (v, σ))
  | .cons e r, acc, σ =>
    match eval I e σ with
    | none => none
    | some (v, σ1) =>
      match I.early p (acc ++ [v]) σ1 with
      | some w => some (w, σ1)
      | none => evalLazy I p r (acc ++ [v]) σ1
def evalFields (I : Interp Val Store) : DFields → Store → Option (List Val × Store)
  | .nil, σ => some ([], σ)
  | .payload _ r, σ => evalFields I r σ
  | .one e r, σ =>
    match eval I e σ with
    | none => none
    | some (v, σ1) => match evalFields I r σ1 with
      | none => none
      | some (vs, σ2) => some (v :: vs, σ2)
  | .many es r, σ =>
    match evalList I es σ with
    | none => none
    | some (ws, σ1) => match evalFields I r σ1 with
      | none => none
      | some (vs, σ2) => some (ws ++ vs, σ2)
def evalList (I : Interp Val Store) : DExprs → Store → Option (List Val × Store)
  | .nil, σ => some ([], σ)
  | .cons e r, σ =>
    match eval I e σ with
    | none => none
    | some (v, σ1) => match evalList I r σ1 with
      | none => none
      | some (vs, σ2) => some (v :: vs, σ2)
end

/-- the operand written `n` times in a braced list: evaluated `n` times, left to right -/
def evalRepeat (I : Interp Val Store) (e : DExpr) : Nat → Store → Option (List Val × Store)
  | 0, σ => some ([], σ)
  | n + 1, σ =>
    match eval I e σ with
    | none => none
    | some (v, σ1) => match evalRepeat I e n σ1 with
      | none => none
      | some (vs, σ2) => some (v :: vs, σ2)

def ctorOf (c : String) : Option Ctor := irExpressionCtors.find? (fun k => k.name == c)

mutual
/-- the tree is an `ir::Expression`: every node is a constructor of the enum with its number of fields, expressions
exactly at the expression-typed fields -/
def wf : DExpr → Bool
  | .node c fs =>
    match ctorOf c with
    | none => false
    | some k => k.arity == fs.length && wfFields k.exprFields 0 fs
def wfFields (exprFields : List Nat) (i : Nat) : DFields → Bool
  | .nil => true
  | .payload _ r => (!exprFields.contains i) && wfFields exprFields (i + 1) r
  | .one e r => exprFields.contains i && wf e && wfFields exprFields (i + 1) r
  | .many es r => exprFields.contains i && wfList es && wfFields exprFields (i + 1) r
def wfList : DExprs → Bool
  | .nil => true
  | .cons e r => wf e && wfList r
end

/-- a side-effect test (as a table) is sound: every constructor it accepts is strict and pure, and it recurses into
EVERY expression-typed field of that constructor -/
def Sound (rows : List GuardRow) : Bool :=
  rows.all (fun r => strictPure.contains r.ctor &&
    match ctorOf r.ctor with
    | none => false
    | some k => k.arity == r.arity && k.exprFields.all (fun j => r.recursed.contains j))

/-- a row of a local test of the floating-point `%=` arm is sound: the constructor is strict and pure, or `?:`, or an
`IntrinsicOp` restricted to operators without an effect of their own; and EVERY expression-typed field of the constructor
is handed to one of the tests -/
def soundRow (r : PlaceRow) : Bool :=
  match ctorOf r.ctor with
  | none => false
  | some k =>
    k.arity == r.arity && k.exprFields.all (fun j => r.self.contains j || r.other.contains j || r.allOf.contains j) &&
      (if r.ops.isEmpty then strictPure.contains r.ctor || (r.ctor == "TernaryConditional" && r.allOf.isEmpty)
       else r.ctor == "IntrinsicOp" && r.ops.all pureOps.contains && r.self.isEmpty && r.other.isEmpty)

/-- every table of a chain of tests (`is_plain_place` → `is_plain_index`; `is_free_of_writes`) is sound -/
def SoundTabs (tabs : List (List PlaceRow)) : Bool := tabs.all (fun rows => rows.all soundRow)

/-- the clauses of the braced list a struct cast is written as: the operand itself, or the operand below a cast to the
element's type (`Cast(member_type, expr)`, payload = the type) -/
def clauseExpr (e : DExpr) : Clause → DExpr
  | .copy => e
  | .convert t => .node "Cast" (.payload t (.one e .nil))

/-- the clauses evaluated left to right -/
def evalClauses (I : Interp Val Store) (e : DExpr) : List Clause → Store → Option (List Val × Store)
  | [], σ => some ([], σ)
  | c :: cs, σ =>
    match eval I (clauseExpr e c) σ with
    | none => none
    | some (v, σ1) => match evalClauses I e cs σ1 with
      | none => none
      | some (vs, σ2) => some (v :: vs, σ2)

/-- the value a clause has when the operand's value is `v` and evaluating the operand leaves the store `σ` -/
def clauseVal (I : Interp Val Store) (v : Val) (σ : Store) : Clause → Option Val
  | .copy => some v
  | .convert t => I.step "Cast" [t] [v] σ

def mapOptL {α β : Type} (f : α → Option β) : List α → Option (List β)
  | [] => some []
  | a :: r => match f a, mapOptL f r with
    | some b, some l => some (b :: l)
    | _, _ => none

end RsslVerif.Spec.MslDup

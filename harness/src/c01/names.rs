//! Name-hygiene stream of C01 (`C01.fn` programs; seeded mutant C01-4).
//!
//! "Every use refers to the entity it referred to in the source" is a premise of C01's text leg: the exporter prints every
//! identifier from `NameMap::build`.  The other streams never need a renamed local, so a name map that hands two variables of
//! one function the same name went unnoticed.  Here the locals and parameters carry names the map must rename — words reserved
//! in HLSL that RSSL accepts as identifiers (`pass`, `texture`, `sampler`, ..., intrinsic names), names of functions / static
//! globals that a body uses — next to source locals that are literally called `<name>_<k>`, in outer / inner blocks, as
//! parameters, in `for` initialisers, in shadowing chains, while earlier functions of the module consume `<name>_0 ..`.
//! The IR evaluator goes by variable ids; the text evaluator resolves the emitted identifiers by C block scoping
//! (scopes.rs): if two entities share a name, or a use is captured, the two disagree on the grid.
use crate::util::Rng;

/// reserved in HLSL (keyword-like and intrinsic names of the exporter's reserved list), accepted by rssl as identifiers
pub const RESERVED: [&str; 12] = ["pass", "texture", "sampler", "string", "technique", "vector", "matrix", "abs", "min", "lerp", "dot", "select"];
/// a function and a static global that a body uses (`user`): their names are taken for every local of the module
pub const PRELUDE: &str = "static int gv = 11;\n\nint helper(int a)\n{\n    return a * 2 + 1;\n}\n\nint user(int a)\n{\n    return helper(a) + gv;\n}\n\n";

pub const GRID: [(i32, i32); 5] = [(10, 0), (0, 1), (-7, 3), (2, -5), (1000, 77)];

pub fn grid_text() -> String {
    GRID.iter().map(|(a, b)| format!("i:{:08x},i:{:08x}", *a as u32, *b as u32)).collect::<Vec<_>>().join(";")
}

/// earlier functions whose local / parameter `b` takes `b_0`, `b_1`, ... in registry order
fn consumers(b: &str, n: usize) -> String {
    let mut s = String::new();
    for i in 0..n {
        if i % 2 == 0 {
            s.push_str(&format!("int c{i}(int x)\n{{\n    int {b} = x + {i};\n    return {b} * 2;\n}}\n\n"));
        } else {
            s.push_str(&format!("int c{i}(int {b})\n{{\n    return {b} + {i};\n}}\n\n"));
        }
    }
    s
}

pub const VARIANTS: [&str; 13] = [
    "outerQ-innerB", "outerB-innerQ", "paramQ-innerB", "paramB-innerQ", "same-block", "for-init", "chain", "siblings", "inner-first",
    "if-else", "loop-body", "qfunction", "qglobal",
];

/// the function under test: `B` = the name the map must rename, `Q` = a source name of the form `B_k`
fn victim(variant: &str, b: &str, q: &str) -> String {
    let body = match variant {
        "outerQ-innerB" => format!("int f1(int x, int y)\n{{\n    int {q} = x;\n    {{\n        int {b} = y + 5;\n        {q} += {b} * 3;\n    }}\n    return {q};\n}}\n"),
        "outerB-innerQ" => format!("int f1(int x, int y)\n{{\n    int {b} = x;\n    {{\n        int {q} = y + 5;\n        {b} += {q} * 3;\n    }}\n    return {b};\n}}\n"),
        "paramQ-innerB" => format!("int f1(int {q}, int y)\n{{\n    {{\n        int {b} = y + 5;\n        {q} += {b} * 3;\n    }}\n    return {q};\n}}\n"),
        "paramB-innerQ" => format!("int f1(int {b}, int y)\n{{\n    int r = {b};\n    {{\n        int {q} = y + 5;\n        r += {q} * 3 + {b};\n    }}\n    return r;\n}}\n"),
        "same-block" => format!("int f1(int x, int y)\n{{\n    int {q} = x;\n    int {b} = y + 5;\n    {q} += {b} * 3;\n    return {q} - {b};\n}}\n"),
        "for-init" => format!("int f1(int x, int y)\n{{\n    int {q} = x;\n    for (int {b} = 0; {b} < 3; ++{b})\n    {{\n        {q} += {b} + y;\n    }}\n    return {q};\n}}\n"),
        "chain" => format!(
            "int f1(int x, int y)\n{{\n    int {b} = x;\n    int r = 0;\n    {{\n        int {b} = y + 2;\n        r += {b};\n        {{\n            int {q} = 7;\n            int {b} = 3;\n            r = r * {b} + {q};\n        }}\n        r += {b} * 5;\n    }}\n    return r + {b};\n}}\n"
        ),
        "siblings" => format!(
            "int f1(int x, int y)\n{{\n    int r = x;\n    {{\n        int {b} = y;\n        r += {b};\n    }}\n    {{\n        int {q} = 9;\n        {{\n            int {b} = 4;\n            r = r * {q} + {b};\n        }}\n        r -= {q};\n    }}\n    return r;\n}}\n"
        ),
        "inner-first" => format!("int f1(int x, int y)\n{{\n    int r = x;\n    {{\n        int {b} = y + 1;\n        {{\n            int {q} = 2;\n            r += {b} * {q};\n            {b} += {q};\n        }}\n        r += {b};\n    }}\n    return r;\n}}\n"),
        "if-else" => format!(
            "int f1(int x, int y)\n{{\n    int {q} = x;\n    if (y > 0)\n    {{\n        int {b} = y * 2;\n        {q} += {b};\n    }}\n    else\n    {{\n        int {b} = 3 - y;\n        {q} -= {b};\n    }}\n    return {q};\n}}\n"
        ),
        "loop-body" => format!(
            "int f1(int x, int y)\n{{\n    int {q} = x;\n    int i = 0;\n    while (i < 3)\n    {{\n        int {b} = i + y;\n        {q} = {q} * 2 + {b};\n        ++i;\n    }}\n    return {q};\n}}\n"
        ),
        // `Q` is a *function* that a body uses; the local `B` is renamed around it
        "qfunction" => format!(
            "int {q}(int a)\n{{\n    return a + 100;\n}}\n\nint f1(int x, int y)\n{{\n    int r = {q}(x);\n    {{\n        int {b} = y + 5;\n        r += {b} * 3 + {q}({b});\n    }}\n    return r;\n}}\n"
        ),
        // `Q` is a static *global* that the body reads and writes while the renamed local `B` is in scope
        "qglobal" => format!(
            "static int {q} = 4;\n\nint f1(int x, int y)\n{{\n    int r = x + {q};\n    {{\n        int {b} = y + 5;\n        {q} += {b};\n        r += {b} * 3 + {q};\n    }}\n    return r - {q};\n}}\n"
        ),
        _ => String::new(),
    };
    body
}

/// (shape, source): every base name x variant x number of earlier consumers x index of the `B_k` source name
pub fn stream() -> Vec<(String, String)> {
    let mut out = Vec::new();
    let mut bases: Vec<&str> = RESERVED.to_vec();
    bases.push("helper");
    bases.push("gv");
    for (bi, b) in bases.iter().enumerate() {
        let user_defined = *b == "helper" || *b == "gv";
        for (vi, variant) in VARIANTS.iter().enumerate() {
            for n in 0..3usize {
                for k in 0..3usize {
                    // the full (n, k) square for three bases, a rotating third of it for the others
                    if bi % 5 != 0 && (n * 3 + k + bi + vi) % 3 != 0 {
                        continue;
                    }
                    let q = format!("{}_{}", b, k);
                    let mut src = String::new();
                    if user_defined {
                        src.push_str(PRELUDE);
                    }
                    src.push_str(&consumers(b, n));
                    src.push_str(&victim(variant, b, &q));
                    out.push((format!("{}:{}:n{}:k{}", variant, b, n, k), src));
                }
            }
        }
    }
    out
}

// ------------------------------------------------------------------------------------------------ random modules

struct G<'r> {
    rng: &'r mut Rng,
    pool: Vec<String>,
    scopes: Vec<Vec<String>>,
    out: String,
}

impl<'r> G<'r> {
    fn visible(&self) -> Vec<String> {
        let mut v: Vec<String> = Vec::new();
        for s in &self.scopes {
            for n in s {
                if !v.contains(n) {
                    v.push(n.clone());
                }
            }
        }
        v
    }

    fn pick_visible(&mut self) -> String {
        let mut v = self.visible();
        v.push("gv".to_string());
        v[(self.rng.next() % v.len() as u64) as usize].clone()
    }

    fn fresh(&mut self) -> Option<String> {
        for _ in 0..6 {
            let n = self.pool[(self.rng.next() % self.pool.len() as u64) as usize].clone();
            if !self.scopes.last().unwrap().contains(&n) {
                return Some(n);
            }
        }
        None
    }

    fn line(&mut self, depth: usize, s: &str) {
        for _ in 0..depth {
            self.out.push_str("    ");
        }
        self.out.push_str(s);
        self.out.push('\n');
    }

    fn block(&mut self, depth: usize, budget: &mut u32) {
        let n = 2 + self.rng.next() % 3;
        for _ in 0..n {
            if *budget == 0 {
                break;
            }
            *budget -= 1;
            match self.rng.next() % 10 {
                0..=2 => {
                    if let Some(name) = self.fresh() {
                        let c = self.rng.next() % 9;
                        let v = self.pick_visible();
                        // the initialiser is written before the name exists (never mentions it)
                        let v = if v == name { "r".to_string() } else { v };
                        self.line(depth, &format!("int {} = {} + {};", name, v, c));
                        self.scopes.last_mut().unwrap().push(name);
                    }
                }
                3..=4 => {
                    let v = self.pick_visible();
                    let c = 2 + self.rng.next() % 5;
                    self.line(depth, &format!("r = r * {} + {};", c, v));
                }
                5 => {
                    let v = self.pick_visible();
                    let w = self.pick_visible();
                    self.line(depth, &format!("{} += r - {};", v, w));
                }
                6 => {
                    let v = self.pick_visible();
                    self.line(depth, &format!("r += user({});", v));
                }
                7 if depth < 4 => {
                    self.line(depth, "{");
                    self.scopes.push(Vec::new());
                    self.block(depth + 1, budget);
                    self.scopes.pop();
                    self.line(depth, "}");
                }
                8 if depth < 4 => {
                    self.scopes.push(Vec::new());
                    if let Some(name) = self.fresh() {
                        self.line(depth, &format!("for (int {0} = 0; {0} < 2; ++{0})", name));
                        self.scopes.last_mut().unwrap().push(name);
                    } else {
                        self.line(depth, "for (int ii = 0; ii < 2; ++ii)");
                    }
                    // the outermost block of the body is the scope of the init-declaration (no redeclaration there)
                    self.line(depth, "{");
                    self.block(depth + 1, budget);
                    self.line(depth, "}");
                    self.scopes.pop();
                }
                9 if depth < 4 => {
                    let v = self.pick_visible();
                    self.line(depth, &format!("if ({} > r)", v));
                    self.line(depth, "{");
                    self.scopes.push(Vec::new());
                    self.block(depth + 1, budget);
                    self.scopes.pop();
                    self.line(depth, "}");
                    if self.rng.next() % 2 == 0 {
                        self.line(depth, "else");
                        self.line(depth, "{");
                        self.scopes.push(Vec::new());
                        self.block(depth + 1, budget);
                        self.scopes.pop();
                        self.line(depth, "}");
                    }
                }
                _ => {
                    let v = self.pick_visible();
                    self.line(depth, &format!("r -= {};", v));
                }
            }
        }
    }
}

/// a module of 2..4 functions whose parameters and locals are drawn from one small pool: two reserved words, their
/// `_0 .. _2` forms, the used function / global of the prelude and their `_0` / `_1` forms, and two plain names
pub fn random_module(rng: &mut Rng) -> String {
    let b1 = RESERVED[(rng.next() % RESERVED.len() as u64) as usize];
    let b2 = RESERVED[(rng.next() % RESERVED.len() as u64) as usize];
    let mut pool: Vec<String> = Vec::new();
    for b in [b1, b2] {
        for n in [b.to_string(), format!("{}_0", b), format!("{}_1", b), format!("{}_2", b), format!("{}_1_0", b)] {
            if !pool.contains(&n) {
                pool.push(n);
            }
        }
    }
    for n in ["helper", "helper_0", "helper_1", "gv", "gv_0", "user_0", "va", "vb"] {
        pool.push(n.to_string());
    }
    let nf = 2 + rng.next() % 3;
    let mut src = String::from(PRELUDE);
    for fi in 0..nf {
        let mut g = G { rng: &mut *rng, pool: pool.clone(), scopes: vec![Vec::new()], out: String::new() };
        let np = g.rng.next() % 3;
        let mut params = Vec::new();
        for _ in 0..np {
            if let Some(n) = g.fresh() {
                g.scopes[0].push(n.clone());
                params.push(format!("int {}", n));
            }
        }
        params.push("int r".to_string());
        let name = if fi + 1 == nf { "f1".to_string() } else { format!("m{}", fi) };
        g.line(0, &format!("int {}({})", name, params.join(", ")));
        g.line(0, "{");
        let mut budget = 14;
        g.block(1, &mut budget);
        let v = g.pick_visible();
        g.line(1, &format!("return r + {};", v));
        g.line(0, "}");
        src.push_str(&g.out);
        src.push('\n');
    }
    src
}

// ------------------------------------------------------------------------------------------------ usage positions
//
// Seeded mutant C01-5: `NameMap::build` reserves for local variables only the names of the functions / global variables that
// `GlobalUsageAnalysis` reports as used by some body.  If `gather_usage_*` does not descend into one syntactic position (the
// seed: the index of `ArraySubscript`), a symbol mentioned only there is not reported, a local keeps / receives its name and
// captures the reference in the emitted text.  This stream puts the *only* reference to a global / function of the module at
// every position the usage analysis visits (the positions of C02's table `Model.Usage.bodyPositions` and the remaining
// descended fields of `Gen.UsageTables.exprArms / stmtArms / initArms / forInitArms`), in two forms:
//   (A) the symbol is literally called `B_k` and a local `B` (a word the map must rename) is in scope at the reference: if the
//       symbol is not reported used, the local becomes `B_k` and the reference denotes the local;
//   (B) the local is called like the symbol and the reference sits in the local's own initialiser (`int slot = v[slot];`,
//       the seed's witness): rssl resolves the initialiser before the name exists, C / HLSL after — if the local is not renamed
//       the emitted initialiser reads the uninitialised local.

/// `$R` = an int-valued read of the symbol (`Q` for a global, `Q(2)` for a function), `$Q` = the bare name.
/// (code, needs the vector stream, global only, statements inside f1 while the local is in scope)
const USE_POSITIONS: [(&str, bool, bool, &str); 64] = [
    // statements
    ("xs", false, false, "r += $R;"),
    ("vi", false, false, "int t = $R;\nr += t;"),
    ("vi-second-declarator", false, false, "int t = 1, u = $R;\nr += t + u;"),
    ("bl", false, false, "{\n    r += $R;\n}"),
    ("bl-nested", false, false, "{\n    {\n        r += $R;\n    }\n}"),
    ("ic", false, false, "if ($R > 5)\n{\n    r += 1;\n}"),
    ("ib", false, false, "if (x > -100)\n{\n    r += $R;\n}"),
    ("ec", false, false, "if ($R > 5)\n{\n    r += 1;\n}\nelse\n{\n    r += 2;\n}"),
    ("et", false, false, "if (y > 0)\n{\n    r += $R;\n}\nelse\n{\n    r += 2;\n}"),
    ("ee", false, false, "if (y > 0)\n{\n    r += 2;\n}\nelse\n{\n    r += $R;\n}"),
    ("ee-elseif-cond", false, false, "if (y > 50)\n{\n    r += 2;\n}\nelse if ($R > 5)\n{\n    r += 3;\n}"),
    ("fi", false, false, "int i = 0;\nfor (i = $R & 3; i < 5; ++i)\n{\n    r += i;\n}"),
    ("fd", false, false, "for (int i = $R & 3; i < 5; ++i)\n{\n    r += i;\n}"),
    ("fd-second", false, false, "for (int i = 0, j = $R & 3; i < j + 2; ++i)\n{\n    r += i + j;\n}"),
    ("fc", false, false, "for (int i = 0; i < ($R & 3); ++i)\n{\n    r += 2;\n}"),
    ("fa", false, false, "for (int i = 0; i < 4; i += ($R & 1) + 1)\n{\n    r += 2;\n}"),
    ("fb", false, false, "for (int i = 0; i < 2; ++i)\n{\n    r += $R;\n}"),
    ("wc", false, false, "int i = 0;\nwhile (i < ($R & 3))\n{\n    ++i;\n    r += 2;\n}"),
    ("wb", false, false, "int i = 0;\nwhile (i < 2)\n{\n    ++i;\n    r += $R;\n}"),
    ("db", false, false, "int i = 0;\ndo\n{\n    ++i;\n    r += $R;\n}\nwhile (i < 2);"),
    ("dc", false, false, "int i = 0;\ndo\n{\n    ++i;\n    r += 2;\n}\nwhile (i < ($R & 3));"),
    ("sx", false, false, "switch ($R & 3)\n{\n    case 2:\n    r += 1;\n    break;\n    default:\n    r += 7;\n    break;\n}"),
    ("sb", false, false, "switch (x & 1)\n{\n    case 0:\n    r += $R;\n    break;\n    default:\n    r -= $R;\n    break;\n}"),
    ("rt", false, false, "return r + $R;"),
    ("rt-in-if", false, false, "if (y > 0)\n{\n    return $R;\n}"),
    // expressions
    ("tc", false, false, "r += ($R > 5) ? 3 : 4;"),
    ("tt", false, false, "r += (y > 0) ? $R : 4;"),
    ("tf", false, false, "r += (y > 0) ? 4 : $R;"),
    ("sq-last", false, false, "r += (x += 1, $R);"),
    ("sq-first", false, false, "r += ($R, x);"),
    ("ia", false, false, "r += twice($R);"),
    ("ia-nested", false, false, "r += twice(twice($R));"),
    ("ia-second", false, false, "r += add2(x, $R);"),
    ("ia-builtin", false, false, "r += abs($R);"),
    ("ia-builtin-second", false, false, "r += max(x, $R);"),
    ("cs", false, false, "r += (int)(float)$R;"),
    ("cs-bool", false, false, "r += ((bool)$R) ? 1 : 2;"),
    ("op-neg", false, false, "r += -$R;"),
    ("op-left", false, false, "r += $R * 2;"),
    ("op-right", false, false, "r += 2 * $R;"),
    ("op-assign", false, false, "r = $R;"),
    ("op-and", false, false, "r += (x > 0 && $R > 5) ? 1 : 2;"),
    ("op-or", false, false, "r += (x > 0 || $R > 5) ? 1 : 2;"),
    ("op-deep", false, false, "r += ((x + 1) * (y - (3 + ($R ^ 1))));"),
    // the global is written (left operand of an assignment, ++ / --, out / inout argument)
    ("wr", false, true, "$Q = r;"),
    ("wr-compound", false, true, "$Q += 2;"),
    ("wr-preinc", false, true, "++$Q;"),
    ("wr-postinc", false, true, "r += $Q++;"),
    ("wr-inout", false, true, "bump($Q);"),
    ("wr-out", false, true, "setout($Q);"),
    // vector stream: arrays, vectors, constructors, aggregates, structs, methods
    ("si", true, false, "int v[4] = { 1, 2, 3, 4 };\nr += v[$R & 3];"),
    ("si-direct", true, false, "int v[8] = { 1, 2, 3, 4, 5, 6, 7, 8 };\nr += v[($R + x) & 7];"),
    ("si-write", true, false, "int v[4] = { 1, 2, 3, 4 };\nv[$R & 3] = 7;\nr += v[0] + v[1] * 2 + v[2] * 3 + v[3] * 4;"),
    ("si-vector", true, false, "int4 w = int4(1, 2, 3, 4);\nr += w[$R & 3];"),
    ("si-nested", true, false, "int v[4] = { 1, 2, 3, 0 };\nr += v[v[$R & 3]];"),
    ("ct", true, false, "int2 c = int2(x, $R);\nr += c.y;"),
    ("sw-ct", true, false, "r += int2(x, $R).y;"),
    ("sw-cast", true, false, "r += ((int3)$R).z;"),
    ("ai", true, false, "int a2[2] = { x, $R };\nr += a2[1];"),
    ("ai-struct", true, false, "Pair s = { x, $R };\nr += s.n;"),
    ("ia-method", true, false, "Pair s = { x, 1 };\nr += s.get($R);"),
    ("sm-of-call", true, false, "r += mk($R).n;"),
    ("da", true, false, "r += dflt(x);"),
    // the default argument mentions the symbol while an earlier *parameter* of the same function is the renamed local
    ("da-param", true, false, "r += dflt(x);"),
];

/// (B): `int Q = <E>;` — the reference sits in the initialiser of a local called like the symbol
const OWN_INIT: [(&str, bool, &str, &str); 20] = [
    ("own:vi", false, "", "int $Q = $R + 1;"),
    ("own:neg", false, "", "int $Q = -$R;"),
    ("own:tc", false, "", "int $Q = ($R > 5) ? 3 : 4;"),
    ("own:tt", false, "", "int $Q = (y > 0) ? $R : 4;"),
    ("own:tf", false, "", "int $Q = (y > 0) ? 4 : $R;"),
    ("own:sq", false, "", "int $Q = (x += 1, $R);"),
    ("own:ia", false, "", "int $Q = twice($R);"),
    ("own:ia-nested", false, "", "int $Q = twice(twice($R));"),
    ("own:ia-builtin", false, "", "int $Q = max(x, $R);"),
    ("own:cs", false, "", "int $Q = (int)(float)$R;"),
    ("own:second-declarator", false, "", "int t = 1, $Q = $R + t;"),
    ("own:fd", false, "", "for (int $Q = $R & 3; $Q < 5; ++$Q)\n{\n    r += $Q;\n}\nint $Q = 1;"),
    ("own:inner-block", false, "", "int t = 0;\n{\n    int $Q = $R + 1;\n    t = $Q;\n}\nint $Q = t;"),
    ("own:si", true, "int v[4] = { 1, 2, 3, 4 };", "int $Q = v[$R & 3];"),
    ("own:si-vector", true, "int4 w = int4(1, 2, 3, 4);", "int $Q = w[$R & 3];"),
    ("own:si-nested", true, "int v[4] = { 1, 2, 3, 0 };", "int $Q = v[v[$R & 3]];"),
    ("own:sw-ct", true, "", "int $Q = int2(x, $R).y;"),
    ("own:ct", true, "", "int2 c = int2(x, $R);\nint $Q = c.y;"),
    ("own:ai-struct", true, "Pair s = { x, 1 };", "int $Q = s.get($R);"),
    ("own:sm-of-call", true, "", "int $Q = mk($R).n;"),
];

/// (code, definition of the global `$Q`, statements): the global is the object of a subscript / swizzle / member access
const OBJECT_POSITIONS: [(&str, &str, &str); 9] = [
    ("ab", "static int $Q[4] = { 6, 7, 8, 9 };", "r += $Q[1];"),
    ("ab-dynamic", "static int $Q[4] = { 6, 7, 8, 9 };", "r += $Q[x & 3];"),
    ("ab-write", "static int $Q[4] = { 6, 7, 8, 9 };", "$Q[2] = r;"),
    ("ab-index-both", "static int $Q[4] = { 2, 7, 8, 9 };", "r += $Q[$Q[0] & 3];"),
    ("sw", "static int2 $Q = int2(6, 9);", "r += $Q.y;"),
    ("sw-write", "static int2 $Q = int2(6, 9);", "$Q.x = r;"),
    ("mx", "static float2x2 $Q = float2x2(1.0f, 2.0f, 3.0f, 4.0f);", "r += (int)$Q._m01;"),
    ("sm", "static Pair $Q = { 6, 9 };", "r += $Q.n;"),
    ("sm-method", "static Pair $Q = { 6, 9 };", "r += $Q.get(1);"),
];

const USE_HELPERS: &str = "int twice(int a)\n{\n    return a * 2;\n}\n\nint add2(int a, int b)\n{\n    return a + b * 3;\n}\n\nvoid bump(inout int a)\n{\n    a += 1;\n}\n\nvoid setout(out int a)\n{\n    a = 17;\n}\n\n";
const USE_VHELPERS: &str = "struct Pair\n{\n    int m;\n    int n;\n\n    int get(int k)\n    {\n        return m * 2 + n + k;\n    }\n};\n\nPair mk(int a)\n{\n    Pair p = { 1, a };\n    return p;\n}\n\n";

fn indent(lines: &str) -> String {
    lines.lines().map(|l| format!("    {}\n", l)).collect()
}

fn symbol_def(q: &str, function: bool) -> String {
    if function {
        format!("int {q}(int a)\n{{\n    return a + 100;\n}}\n\n")
    } else {
        format!("static int {q} = 6;\n\n")
    }
}

/// (shape, source, vector stream?): the function under test is `f1(int x, int y)`
pub fn usage_stream() -> Vec<(String, String, bool)> {
    let mut out = Vec::new();
    // (A) a renamed local `B` in scope, the symbol is called `B_k`
    for (bi, b) in ["pass", "texture", "min"].iter().enumerate() {
        for function in [false, true] {
            for k in 0..2usize {
                for (pi, (code, vector, global_only, body)) in USE_POSITIONS.iter().enumerate() {
                    if (*global_only && function) || (bi > 0 && (pi + bi + k) % 3 != 0) {
                        continue;
                    }
                    let q = format!("{}_{}", b, k);
                    let r = if function { format!("{}(2)", q) } else { q.clone() };
                    let mut src = String::new();
                    src.push_str(USE_HELPERS);
                    if *vector {
                        src.push_str(USE_VHELPERS);
                    }
                    src.push_str(&symbol_def(&q, function));
                    if *code == "da" {
                        src.push_str(&format!("int dflt(int a, int b = {r})\n{{\n    return a * 2 + b;\n}}\n\n"));
                    }
                    if *code == "da-param" {
                        src.push_str(&format!("int dflt(int {b}, int b = {r})\n{{\n    return {b} * 2 + b;\n}}\n\n"));
                    }
                    src.push_str(&consumers(b, k));
                    let stmts = body.replace("$R", &r).replace("$Q", &q);
                    let after = if *code == "rt" { String::new() } else { format!("    r -= {b};\n    return r;\n") };
                    src.push_str(&format!(
                        "int f1(int x, int y)\n{{\n    int r = x;\n    int {b} = y + 5;\n    r += {b} * 3;\n{}{}}}\n",
                        indent(&stmts),
                        after
                    ));
                    out.push((format!("use:{}:{}:{}:k{}", code, if function { "function" } else { "global" }, b, k), src, *vector));
                }
            }
        }
    }
    // (A') the symbol is a global of array / vector / matrix / struct type and the reference is the *object* field of a
    // subscript / swizzle / matrix swizzle / member access (C02's `readPaths`)
    for b in ["pass", "vector"] {
        for k in 0..2usize {
            for (code, def, body) in OBJECT_POSITIONS.iter() {
                let q = format!("{}_{}", b, k);
                let mut src = String::new();
                src.push_str(USE_HELPERS);
                src.push_str(USE_VHELPERS);
                src.push_str(&def.replace("$Q", &q));
                src.push_str("\n\n");
                src.push_str(&consumers(b, k));
                src.push_str(&format!(
                    "int f1(int x, int y)\n{{\n    int r = x;\n    int {b} = y + 5;\n    r += {b} * 3;\n{}    r -= {b};\n    return r;\n}}\n",
                    indent(&body.replace("$Q", &q))
                ));
                out.push((format!("obj:{}:global:{}:k{}", code, b, k), src, true));
            }
        }
    }
    // (B) the local is called like the symbol and mentions it in its own initialiser
    for q in ["slot", "gv2"] {
        for function in [false, true] {
            for (code, vector, pre, body) in OWN_INIT.iter() {
                let r = if function { format!("{}(2)", q) } else { q.to_string() };
                let mut src = String::new();
                src.push_str(USE_HELPERS);
                if *vector {
                    src.push_str(USE_VHELPERS);
                }
                src.push_str(&symbol_def(q, function));
                let stmts = format!("{}{}{}", pre, if pre.is_empty() { "" } else { "\n" }, body).replace("$R", &r).replace("$Q", q);
                src.push_str(&format!("int f1(int x, int y)\n{{\n    int r = x;\n{}    r += {q} * 3;\n    return r;\n}}\n", indent(&stmts)));
                out.push((format!("{}:{}:{}", code, if function { "function" } else { "global" }, q), src, *vector));
            }
        }
    }
    out
}

pub fn vgrid_text() -> String {
    GRID.iter().map(|(a, b)| format!("i:{:08x},i:{:08x}", *a as u32, *b as u32)).collect::<Vec<_>>().join(";")
}

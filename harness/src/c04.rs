//! C04: emitted DirectX HLSL is accepted by the front end and is a fixpoint.
//!
//! request : C04.fix \t <gen:<seed> | disk:<root>|<entry> | text:<hex of source>>
//! observe : first-generation digest, or `reject:<stage>` when the source itself is not accepted
//! oracle  : compile(P, dx, no-pipeline) = G1; compile(G1.text, dx, no-pipeline) must succeed and be
//!           byte-identical to G1, with every resource on the same binding slot (group, name, location, count).
use crate::compile_util::*;
use crate::declgen;
use crate::progen::*;
use crate::util::*;

fn first_generation(id: &str) -> Option<CompileOutcome> {
    if let Some(seed) = id.strip_prefix("gen:") {
        let seed: u64 = seed.parse().ok()?;
        let prog = gen_program(&mut Rng::new(seed), &GenOpts::default());
        Some(compile_src(&render(&prog, &|_| true), Tgt::Dx, Mode::NoPipeline))
    } else if let Some(seed) = id.strip_prefix("decl:") {
        let seed: u64 = seed.parse().ok()?;
        Some(compile_src(&declgen::gen_source(&mut Rng::new(seed)), Tgt::Dx, Mode::NoPipeline))
    } else if let Some(rest) = id.strip_prefix("disk:") {
        let (root, entry) = rest.split_once('|')?;
        Some(compile_disk(root, entry, Tgt::Dx, Mode::NoPipeline))
    } else if let Some(h) = id.strip_prefix("text:") {
        let bytes = unhex(h)?;
        Some(compile_src(&String::from_utf8_lossy(&bytes), Tgt::Dx, Mode::NoPipeline))
    } else {
        None
    }
}

fn first_diff(a: &str, b: &str) -> String {
    for (i, (la, lb)) in a.lines().zip(b.lines()).enumerate() {
        if la != lb {
            return format!("line {}: `{}` became `{}`", i + 1, la.trim(), lb.trim());
        }
    }
    format!("line counts {} vs {}", a.lines().count(), b.lines().count())
}

fn run_one(id: &str, out: &mut Out, hist: &mut Hist) {
    let req = format!("C04.fix\t{}", id);
    let Some(g1) = first_generation(id) else {
        out.case(&req, "bad-request", "SKIP:bad request");
        return;
    };
    match g1 {
        CompileOutcome::Err(e) => {
            hist.add("source-rejected");
            let stage = if e.contains("hlsl generate") || e.contains("hlsl format") { "export" } else { "front-end" };
            out.case(&req, &format!("reject:{}", stage), "SKIP:source not accepted");
        }
        CompileOutcome::Panic(p) => {
            hist.add("panic-first-generation");
            out.case(&req, "panic", &format!("FAIL:panic {}", p));
        }
        CompileOutcome::Ok(ps) => {
            let p1 = &ps[0];
            let text1 = p1.text();
            let g2 = compile_src(&text1, Tgt::Dx, Mode::NoPipeline);
            let oracle = match &g2 {
                CompileOutcome::Ok(ps2) => {
                    let p2 = &ps2[0];
                    if p2.data != p1.data {
                        hist.add("not-fixpoint-text");
                        format!("FAIL:second generation differs: {}", first_diff(&text1, &p2.text()))
                    } else if p2.slots != p1.slots {
                        hist.add("not-fixpoint-slots");
                        format!("FAIL:binding slots differ between generations: {:?} vs {:?}", p1.slots, p2.slots)
                    } else {
                        hist.add("fixpoint");
                        "ok".to_string()
                    }
                }
                CompileOutcome::Err(e) => {
                    hist.add("output-rejected");
                    format!("FAIL:emitted HLSL is rejected: {}", one_line(&e.chars().take(200).collect::<String>()))
                }
                CompileOutcome::Panic(p) => {
                    hist.add("panic-second-generation");
                    format!("FAIL:panic {}", p)
                }
            };
            out.case(&req, &format!("ok:{}", p1.digest()), &oracle);
        }
    }
}

/// debugging aid: `harness c04 dump <id>` prints source, both generations and metadata
fn dump(id: &str) {
    let src = if let Some(seed) = id.strip_prefix("decl:") {
        declgen::gen_source(&mut Rng::new(seed.parse().unwrap()))
    } else if let Some(seed) = id.strip_prefix("gen:") {
        render(&gen_program(&mut Rng::new(seed.parse().unwrap()), &GenOpts::default()), &|_| true)
    } else {
        String::new()
    };
    eprintln!("=== source\n{}", src);
    match compile_src(&src, Tgt::Dx, Mode::NoPipeline) {
        CompileOutcome::Ok(ps) => {
            eprintln!("=== generation 1\n{}\n=== metadata 1\n{}", ps[0].text(), ps[0].metadata);
            match compile_src(&ps[0].text(), Tgt::Dx, Mode::NoPipeline) {
                CompileOutcome::Ok(p2) => eprintln!("=== generation 2\n{}\n=== metadata 2\n{}", p2[0].text(), p2[0].metadata),
                other => eprintln!("=== generation 2: {:?}", other),
            }
        }
        other => eprintln!("=== generation 1: {:?}", other),
    }
}

pub fn run(args: &Args, out: &mut Out) {
    let mut hist = Hist::default();
    if args.extra.first().map(|s| s == "dump").unwrap_or(false) {
        dump(&args.extra[1]);
        return;
    }
    if let Some(lines) = args.request_lines() {
        for line in lines {
            if let Some(id) = line.strip_prefix("C04.fix\t") {
                run_one(id, out, &mut hist);
            }
        }
        out.stat(&format!("{{\"mode\":\"replay\",\"hist\":{}}}", hist.json()));
        return;
    }
    let repo = std::env::var("VERIF_REPO").unwrap_or_else(|_| "/repo".into());
    let mut rng = Rng::new(args.seed);
    let n = args.n.unwrap_or(if args.thorough() { 5000 } else { 300 });
    for _ in 0..n {
        run_one(&format!("decl:{}", rng.next() >> 16), out, &mut hist);
    }
    for _ in 0..n / 3 {
        run_one(&format!("gen:{}", rng.next() >> 16), out, &mut hist);
    }
    let corpus = repo_corpus(&repo);
    let take = if args.thorough() { corpus.len() } else { corpus.len().min(31) };
    let step = (corpus.len() / take.max(1)).max(1);
    for (i, (root, entry)) in corpus.iter().enumerate() {
        if i % step == 0 {
            run_one(&format!("disk:{}|{}", root, entry), out, &mut hist);
        }
    }
    out.stat(&format!("{{\"generated\":{},\"hist\":{}}}", n + n / 3, hist.json()));
}

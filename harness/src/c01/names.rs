//! Name-hygiene stream of C01 (`C01.fn` programs; seeded mutant C01-4).
//!
//! "Every use refers to the entity it referred to in the source" is a premise of C01's text leg: the exporter prints every
//! identifier from `NameMap::build`.  The other streams never need a renamed local, so a name map that hands two variables of
//! one function the same name went unnoticed.  Here the locals and parameters carry names the map must rename — words reserved
//! in HLSL that RSSL accepts as identifiers (`pass`, `texture`, `sampler`, ..., intrinsic names), names of functions / static
//! globals that a body uses — next to source locals that are literally called `<name>_<k>`, in outer / inner blocks, as
//! parameters, in `for` initialisers, in shadowing chains, while earlier functions of the module consume `<name>_0 ..`.
//! The IR evaluator goes by variable ids; the text evaluator resolves the emitted identifiers by C block scoping
//! (scopes.rs): if two entities share a name, or a use is captured, the two disagree on the grid.
use crate::util::Rng;

/// reserved in HLSL (keyword-like and intrinsic names of the exporter's reserved list), accepted by rssl as identifiers
pub const RESERVED: [&str; 12] = ["pass", "texture", "sampler", "string", "technique", "vector", "matrix", "abs", "min", "lerp", "dot", "select"];
/// a function and a static global that a body uses (`user`): their names are taken for every local of the module
pub const PRELUDE: &str = "static int gv = 11;\n\nint helper(int a)\n{\n    return a * 2 + 1;\n}\n\nint user(int a)\n{\n    return helper(a) + gv;\n}\n\n";

pub const GRID: [(i32, i32); 5] = [(10, 0), (0, 1), (-7, 3), (2, -5), (1000, 77)];

pub fn grid_text() -> String {
    GRID.iter().map(|(a, b)| format!("i:{:08x},i:{:08x}", *a as u32, *b as u32)).collect::<Vec<_>>().join(";")
}

/// earlier functions whose local / parameter `b` takes `b_0`, `b_1`, ... in registry order
fn consumers(b: &str, n: usize) -> String {
    let mut s = String::new();
    for i in 0..n {
        if i % 2 == 0 {
            s.push_str(&format!("int c{i}(int x)\n{{\n    int {b} = x + {i};\n    return {b} * 2;\n}}\n\n"));
        } else {
            s.push_str(&format!("int c{i}(int {b})\n{{\n    return {b} + {i};\n}}\n\n"));
        }
    }
    s
}

pub const VARIANTS: [&str; 13] = [
    "outerQ-innerB", "outerB-innerQ", "paramQ-innerB", "paramB-innerQ", "same-block", "for-init", "chain", "siblings", "inner-first",
    "if-else", "loop-body", "qfunction", "qglobal",
];

/// the function under test: `B` = the name the map must rename, `Q` = a source name of the form `B_k`
fn victim(variant: &str, b: &str, q: &str) -> String {
    let body = match variant {
        "outerQ-innerB" => format!("int f1(int x, int y)\n{{\n    int {q} = x;\n    {{\n        int {b} = y + 5;\n        {q} += {b} * 3;\n    }}\n    return {q};\n}}\n"),
        "outerB-innerQ" => format!("int f1(int x, int y)\n{{\n    int {b} = x;\n    {{\n        int {q} = y + 5;\n        {b} += {q} * 3;\n    }}\n    return {b};\n}}\n"),
        "paramQ-innerB" => format!("int f1(int {q}, int y)\n{{\n    {{\n        int {b} = y + 5;\n        {q} += {b} * 3;\n    }}\n    return {q};\n}}\n"),
        "paramB-innerQ" => format!("int f1(int {b}, int y)\n{{\n    int r = {b};\n    {{\n        int {q} = y + 5;\n        r += {q} * 3 + {b};\n    }}\n    return r;\n}}\n"),
        "same-block" => format!("int f1(int x, int y)\n{{\n    int {q} = x;\n    int {b} = y + 5;\n    {q} += {b} * 3;\n    return {q} - {b};\n}}\n"),
        "for-init" => format!("int f1(int x, int y)\n{{\n    int {q} = x;\n    for (int {b} = 0; {b} < 3; ++{b})\n    {{\n        {q} += {b} + y;\n    }}\n    return {q};\n}}\n"),
        "chain" => format!(
            "int f1(int x, int y)\n{{\n    int {b} = x;\n    int r = 0;\n    {{\n        int {b} = y + 2;\n        r += {b};\n        {{\n            int {q} = 7;\n            int {b} = 3;\n            r = r * {b} + {q};\n        }}\n        r += {b} * 5;\n    }}\n    return r + {b};\n}}\n"
        ),
        "siblings" => format!(
            "int f1(int x, int y)\n{{\n    int r = x;\n    {{\n        int {b} = y;\n        r += {b};\n    }}\n    {{\n        int {q} = 9;\n        {{\n            int {b} = 4;\n            r = r * {q} + {b};\n        }}\n        r -= {q};\n    }}\n    return r;\n}}\n"
        ),
        "inner-first" => format!("int f1(int x, int y)\n{{\n    int r = x;\n    {{\n        int {b} = y + 1;\n        {{\n            int {q} = 2;\n            r += {b} * {q};\n            {b} += {q};\n        }}\n        r += {b};\n    }}\n    return r;\n}}\n"),
        "if-else" => format!(
            "int f1(int x, int y)\n{{\n    int {q} = x;\n    if (y > 0)\n    {{\n        int {b} = y * 2;\n        {q} += {b};\n    }}\n    else\n    {{\n        int {b} = 3 - y;\n        {q} -= {b};\n    }}\n    return {q};\n}}\n"
        ),
        "loop-body" => format!(
            "int f1(int x, int y)\n{{\n    int {q} = x;\n    int i = 0;\n    while (i < 3)\n    {{\n        int {b} = i + y;\n        {q} = {q} * 2 + {b};\n        ++i;\n    }}\n    return {q};\n}}\n"
        ),
        // `Q` is a *function* that a body uses; the local `B` is renamed around it
        "qfunction" => format!(
            "int {q}(int a)\n{{\n    return a + 100;\n}}\n\nint f1(int x, int y)\n{{\n    int r = {q}(x);\n    {{\n        int {b} = y + 5;\n        r += {b} * 3 + {q}({b});\n    }}\n    return r;\n}}\n"
        ),
        // `Q` is a static *global* that the body reads and writes while the renamed local `B` is in scope
        "qglobal" => format!(
            "static int {q} = 4;\n\nint f1(int x, int y)\n{{\n    int r = x + {q};\n    {{\n        int {b} = y + 5;\n        {q} += {b};\n        r += {b} * 3 + {q};\n    }}\n    return r - {q};\n}}\n"
        ),
        _ => String::new(),
    };
    body
}

/// (shape, source): every base name x variant x number of earlier consumers x index of the `B_k` source name
pub fn stream() -> Vec<(String, String)> {
    let mut out = Vec::new();
    let mut bases: Vec<&str> = RESERVED.to_vec();
    bases.push("helper");
    bases.push("gv");
    for (bi, b) in bases.iter().enumerate() {
        let user_defined = *b == "helper" || *b == "gv";
        for (vi, variant) in VARIANTS.iter().enumerate() {
            for n in 0..3usize {
                for k in 0..3usize {
                    // the full (n, k) square for three bases, a rotating third of it for the others
                    if bi % 5 != 0 && (n * 3 + k + bi + vi) % 3 != 0 {
                        continue;
                    }
                    let q = format!("{}_{}", b, k);
                    let mut src = String::new();
                    if user_defined {
                        src.push_str(PRELUDE);
                    }
                    src.push_str(&consumers(b, n));
                    src.push_str(&victim(variant, b, &q));
                    out.push((format!("{}:{}:n{}:k{}", variant, b, n, k), src));
                }
            }
        }
    }
    out
}

// ------------------------------------------------------------------------------------------------ random modules

struct G<'r> {
    rng: &'r mut Rng,
    pool: Vec<String>,
    scopes: Vec<Vec<String>>,
    out: String,
}

impl<'r> G<'r> {
    fn visible(&self) -> Vec<String> {
        let mut v: Vec<String> = Vec::new();
        for s in &self.scopes {
            for n in s {
                if !v.contains(n) {
                    v.push(n.clone());
                }
            }
        }
        v
    }

    fn pick_visible(&mut self) -> String {
        let mut v = self.visible();
        v.push("gv".to_string());
        v[(self.rng.next() % v.len() as u64) as usize].clone()
    }

    fn fresh(&mut self) -> Option<String> {
        for _ in 0..6 {
            let n = self.pool[(self.rng.next() % self.pool.len() as u64) as usize].clone();
            if !self.scopes.last().unwrap().contains(&n) {
                return Some(n);
            }
        }
        None
    }

    fn line(&mut self, depth: usize, s: &str) {
        for _ in 0..depth {
            self.out.push_str("    ");
        }
        self.out.push_str(s);
        self.out.push('\n');
    }

    fn block(&mut self, depth: usize, budget: &mut u32) {
        let n = 2 + self.rng.next() % 3;
        for _ in 0..n {
            if *budget == 0 {
                break;
            }
            *budget -= 1;
            match self.rng.next() % 10 {
                0..=2 => {
                    if let Some(name) = self.fresh() {
                        let c = self.rng.next() % 9;
                        let v = self.pick_visible();
                        // the initialiser is written before the name exists (never mentions it)
                        let v = if v == name { "r".to_string() } else { v };
                        self.line(depth, &format!("int {} = {} + {};", name, v, c));
                        self.scopes.last_mut().unwrap().push(name);
                    }
                }
                3..=4 => {
                    let v = self.pick_visible();
                    let c = 2 + self.rng.next() % 5;
                    self.line(depth, &format!("r = r * {} + {};", c, v));
                }
                5 => {
                    let v = self.pick_visible();
                    let w = self.pick_visible();
                    self.line(depth, &format!("{} += r - {};", v, w));
                }
                6 => {
                    let v = self.pick_visible();
                    self.line(depth, &format!("r += user({});", v));
                }
                7 if depth < 4 => {
                    self.line(depth, "{");
                    self.scopes.push(Vec::new());
                    self.block(depth + 1, budget);
                    self.scopes.pop();
                    self.line(depth, "}");
                }
                8 if depth < 4 => {
                    self.scopes.push(Vec::new());
                    if let Some(name) = self.fresh() {
                        self.line(depth, &format!("for (int {0} = 0; {0} < 2; ++{0})", name));
                        self.scopes.last_mut().unwrap().push(name);
                    } else {
                        self.line(depth, "for (int ii = 0; ii < 2; ++ii)");
                    }
                    // the outermost block of the body is the scope of the init-declaration (no redeclaration there)
                    self.line(depth, "{");
                    self.block(depth + 1, budget);
                    self.line(depth, "}");
                    self.scopes.pop();
                }
                9 if depth < 4 => {
                    let v = self.pick_visible();
                    self.line(depth, &format!("if ({} > r)", v));
                    self.line(depth, "{");
                    self.scopes.push(Vec::new());
                    self.block(depth + 1, budget);
                    self.scopes.pop();
                    self.line(depth, "}");
                    if self.rng.next() % 2 == 0 {
                        self.line(depth, "else");
                        self.line(depth, "{");
                        self.scopes.push(Vec::new());
                        self.block(depth + 1, budget);
                        self.scopes.pop();
                        self.line(depth, "}");
                    }
                }
                _ => {
                    let v = self.pick_visible();
                    self.line(depth, &format!("r -= {};", v));
                }
            }
        }
    }
}

/// a module of 2..4 functions whose parameters and locals are drawn from one small pool: two reserved words, their
/// `_0 .. _2` forms, the used function / global of the prelude and their `_0` / `_1` forms, and two plain names
pub fn random_module(rng: &mut Rng) -> String {
    let b1 = RESERVED[(rng.next() % RESERVED.len() as u64) as usize];
    let b2 = RESERVED[(rng.next() % RESERVED.len() as u64) as usize];
    let mut pool: Vec<String> = Vec::new();
    for b in [b1, b2] {
        for n in [b.to_string(), format!("{}_0", b), format!("{}_1", b), format!("{}_2", b), format!("{}_1_0", b)] {
            if !pool.contains(&n) {
                pool.push(n);
            }
        }
    }
    for n in ["helper", "helper_0", "helper_1", "gv", "gv_0", "user_0", "va", "vb"] {
        pool.push(n.to_string());
    }
    let nf = 2 + rng.next() % 3;
    let mut src = String::from(PRELUDE);
    for fi in 0..nf {
        let mut g = G { rng: &mut *rng, pool: pool.clone(), scopes: vec![Vec::new()], out: String::new() };
        let np = g.rng.next() % 3;
        let mut params = Vec::new();
        for _ in 0..np {
            if let Some(n) = g.fresh() {
                g.scopes[0].push(n.clone());
                params.push(format!("int {}", n));
            }
        }
        params.push("int r".to_string());
        let name = if fi + 1 == nf { "f1".to_string() } else { format!("m{}", fi) };
        g.line(0, &format!("int {}({})", name, params.join(", ")));
        g.line(0, "{");
        let mut budget = 14;
        g.block(1, &mut budget);
        let v = g.pick_visible();
        g.line(1, &format!("return r + {};", v));
        g.line(0, "}");
        src.push_str(&g.out);
        src.push('\n');
    }
    src
}

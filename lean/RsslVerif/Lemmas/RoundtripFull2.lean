import RsslVerif.Lemmas.RoundtripFull1
/-! Round trip for the full expression model: position / level consistency, the cast alternative on parenthesised
operands, well-formed trees, first token of a printed sub-expression. -/
set_option linter.unusedSimpArgs false
set_option linter.unusedVariables false
namespace RsslVerif.Lemmas.RoundtripFull
open RsslVerif.Gen.FmtTables RsslVerif.Gen.ParseTables RsslVerif.Gen.SyntaxTables RsslVerif.Model.Format
open RsslVerif.Model.FormatFull RsslVerif.Model.ParseFull RsslVerif.Lemmas.FmtParseTables

variable (W : List String)

/-! ## Where the formatter leaves a child unparenthesised, the parser reads that position at a level that covers it -/

theorem pos_prefix (op : UnOp) (x : XExpr) (hop : isPostfix op = false)
    (h : needParen x.prec (unPrec op) prefixOperandSide = false) : x.lvl ≤ 2 := by
  cases op <;> simp [isPostfix] at hop <;>
  (cases x with
   | lit l => simp only [XExpr.prec, XExpr.lvl, litPrec] at h ⊢ <;> generalize litNegative l = b at h ⊢ <;> cases b <;> revert h <;> decide
   | un o _ => cases o <;> simp only [XExpr.prec, XExpr.lvl] at h ⊢ <;> revert h <;> decide
   | bin o _ _ => cases o <;> simp only [XExpr.prec, XExpr.lvl] at h ⊢ <;> revert h <;> decide
   | _ => simp only [XExpr.prec, XExpr.lvl] at h ⊢ <;> revert h <;> decide)

theorem pos_postfix (op : UnOp) (x : XExpr) (hop : isPostfix op = true)
    (h : needParen x.prec (unPrec op) postfixOperandSide = false) : x.lvl ≤ 1 := by
  cases op <;> simp [isPostfix] at hop <;>
  (cases x with
   | lit l => simp only [XExpr.prec, XExpr.lvl, litPrec] at h ⊢ <;> generalize litNegative l = b at h ⊢ <;> cases b <;> revert h <;> decide
   | un o _ => cases o <;> simp only [XExpr.prec, XExpr.lvl] at h ⊢ <;> revert h <;> decide
   | bin o _ _ => cases o <;> simp only [XExpr.prec, XExpr.lvl] at h ⊢ <;> revert h <;> decide
   | _ => simp only [XExpr.prec, XExpr.lvl] at h ⊢ <;> revert h <;> decide)

theorem pos_binL (op : BinOp) (x : XExpr) (h : needParen x.prec (binPrec op) binLeftSide = false) :
    (binLevel op ≠ 14 → x.lvl ≤ binLevel op ∧ (x.lvl = 15 → binLevel op = 15)) ∧ (binLevel op = 14 → x.lvl ≤ 12) := by
  cases op <;>
  (cases x with
   | lit l => simp only [XExpr.prec, XExpr.lvl, litPrec] at h ⊢ <;> generalize litNegative l = b at h ⊢ <;> cases b <;> revert h <;> decide
   | un o _ => cases o <;> simp only [XExpr.prec, XExpr.lvl] at h ⊢ <;> revert h <;> decide
   | bin o _ _ => cases o <;> simp only [XExpr.prec, XExpr.lvl] at h ⊢ <;> revert h <;> decide
   | _ => simp only [XExpr.prec, XExpr.lvl] at h ⊢ <;> revert h <;> decide)

theorem pos_binR (op : BinOp) (x : XExpr) (h : needParen x.prec (binPrec op) binRightSide = false) :
    (binLevel op ≠ 14 → x.lvl ≤ binLevel op - 1) ∧ (binLevel op = 14 → x.lvl ≤ 14) := by
  cases op <;>
  (cases x with
   | lit l => simp only [XExpr.prec, XExpr.lvl, litPrec] at h ⊢ <;> generalize litNegative l = b at h ⊢ <;> cases b <;> revert h <;> decide
   | un o _ => cases o <;> simp only [XExpr.prec, XExpr.lvl] at h ⊢ <;> revert h <;> decide
   | bin o _ _ => cases o <;> simp only [XExpr.prec, XExpr.lvl] at h ⊢ <;> revert h <;> decide
   | _ => simp only [XExpr.prec, XExpr.lvl] at h ⊢ <;> revert h <;> decide)

theorem pos_ternC (x : XExpr) (h : needParen x.prec precTernaryConditional ternCondSide = false) : x.lvl ≤ 12 := by
  cases x with
  | lit l => simp only [XExpr.prec, XExpr.lvl, litPrec] at h ⊢ <;> generalize litNegative l = b at h ⊢ <;> cases b <;> revert h <;> decide
  | un o _ => cases o <;> simp only [XExpr.prec, XExpr.lvl] at h ⊢ <;> revert h <;> decide
  | bin o _ _ => cases o <;> simp only [XExpr.prec, XExpr.lvl] at h ⊢ <;> revert h <;> decide
  | _ => simp only [XExpr.prec, XExpr.lvl] at h ⊢ <;> revert h <;> decide

theorem pos_ternA (x : XExpr) (h : needParen x.prec precTernaryConditional ternTrueSide = false) : x.lvl ≤ 14 := by
  cases x with
  | lit l => simp only [XExpr.prec, XExpr.lvl, litPrec] at h ⊢ <;> generalize litNegative l = b at h ⊢ <;> cases b <;> revert h <;> decide
  | un o _ => cases o <;> simp only [XExpr.prec, XExpr.lvl] at h ⊢ <;> revert h <;> decide
  | bin o _ _ => cases o <;> simp only [XExpr.prec, XExpr.lvl] at h ⊢ <;> revert h <;> decide
  | _ => simp only [XExpr.prec, XExpr.lvl] at h ⊢ <;> revert h <;> decide

theorem pos_ternB (x : XExpr) (h : needParen x.prec precTernaryConditional ternFalseSide = false) :
    x.lvl ≤ 14 ∧ (x.lvl = 14 → falseIsAssignmentX x = true) := by
  cases x with
  | lit l => simp only [XExpr.prec, XExpr.lvl, litPrec, falseIsAssignmentX] at h ⊢ <;> generalize litNegative l = b at h ⊢ <;> cases b <;> revert h <;> decide
  | un o _ => cases o <;> simp only [XExpr.prec, XExpr.lvl, falseIsAssignmentX] at h ⊢ <;> revert h <;> decide
  | bin o _ _ => cases o <;> simp only [XExpr.prec, XExpr.lvl, falseIsAssignmentX] at h ⊢ <;> revert h <;> decide
  | _ => simp only [XExpr.prec, XExpr.lvl, falseIsAssignmentX] at h ⊢ <;> revert h <;> decide

theorem pos_postfixLike (x : XExpr) (side : Side) (hs : side = .Left ∨ side = .Middle)
    (h : needParen x.prec 2 side = false) : x.lvl ≤ 1 := by
  rcases hs with rfl | rfl <;>
  (cases x with
   | lit l => simp only [XExpr.prec, XExpr.lvl, litPrec] at h ⊢ <;> generalize litNegative l = b at h ⊢ <;> cases b <;> revert h <;> decide
   | un o _ => cases o <;> simp only [XExpr.prec, XExpr.lvl] at h ⊢ <;> revert h <;> decide
   | bin o _ _ => cases o <;> simp only [XExpr.prec, XExpr.lvl] at h ⊢ <;> revert h <;> decide
   | _ => simp only [XExpr.prec, XExpr.lvl] at h ⊢ <;> revert h <;> decide)

theorem pos_arg (x : XExpr) (h : needParen x.prec callArgPrec callArgSide = false) : x.lvl ≤ 14 := by
  cases x with
  | lit l => simp only [XExpr.prec, XExpr.lvl, litPrec] at h ⊢ <;> generalize litNegative l = b at h ⊢ <;> cases b <;> revert h <;> decide
  | un o _ => cases o <;> simp only [XExpr.prec, XExpr.lvl] at h ⊢ <;> revert h <;> decide
  | bin o _ _ => cases o <;> simp only [XExpr.prec, XExpr.lvl] at h ⊢ <;> revert h <;> decide
  | _ => simp only [XExpr.prec, XExpr.lvl] at h ⊢ <;> revert h <;> decide

theorem pos_castOperand (x : XExpr) (h : needParen x.prec precCast castOperandSide = false) : x.lvl ≤ 2 := by
  cases x with
  | lit l => simp only [XExpr.prec, XExpr.lvl, litPrec] at h ⊢ <;> generalize litNegative l = b at h ⊢ <;> cases b <;> revert h <;> decide
  | un o _ => cases o <;> simp only [XExpr.prec, XExpr.lvl] at h ⊢ <;> revert h <;> decide
  | bin o _ _ => cases o <;> simp only [XExpr.prec, XExpr.lvl] at h ⊢ <;> revert h <;> decide
  | _ => simp only [XExpr.prec, XExpr.lvl] at h ⊢ <;> revert h <;> decide

/-- the extra parentheses of the conditional's last operand go around an unparenthesised assignment -/
theorem falseIsAssignmentX_spec (x : XExpr) (h : falseIsAssignmentX x = true) :
    needParen x.prec precTernaryConditional ternFalseSide = false ∧ x.lvl = 14 := by
  cases x with
  | bin o _ _ => cases o <;> simp only [XExpr.prec, XExpr.lvl, falseIsAssignmentX] at h ⊢ <;> revert h <;> decide
  | _ => simp [falseIsAssignmentX] at h

/-- every child position has an outer precedence of at least 2, and at 2 the side is `Left` or `Middle`: a
parenthesised child has precedence at least 3 -/
def PosOk (outer : Nat) (side : Side) : Prop := 3 ≤ outer ∨ (outer = 2 ∧ (side = .Left ∨ side = .Middle))

theorem needParen_prec {p outer : Nat} {side : Side} (hpo : PosOk outer side) (h : needParen p outer side = true) :
    3 ≤ p := by
  unfold needParen at h
  rcases hpo with h3 | ⟨rfl, hs⟩
  · split at h
    · omega
    · split at h
      · cases h
      · omega
  · split at h
    · omega
    · split at h
      · cases h
      · have : p = 2 := by omega
        subst this
        rcases hs with rfl | rfl <;> revert h <;> decide

/-! ## The cast alternative on a parenthesised operand -/

theorem modAfterStep_none (u : Tok) (h1 : u ≠ .p .Const) (h2 : u ≠ .p .Volatile) : modAfterStep u = none := by
  cases u with
  | p k => cases k <;> first | rfl | simp_all
  | _ => rfl

theorem takeModsBefore_stop (t : Tok) (rest : List Tok) (h : modBeforeStep t = .stop) :
    takeModsBefore (t :: rest) = ([], t :: rest) := by
  simp [takeModsBefore, h]

theorem takeModsAfter_stop (u : Tok) (rest : List Tok) (h1 : u ≠ .p .Const) (h2 : u ≠ .p .Volatile) :
    takeModsAfter (u :: rest) = ([], u :: rest) := by
  simp [takeModsAfter, modAfterStep_none u h1 h2]

theorem parseTArgsReq_notlt (f : Nat) (u : Tok) (rest : List Tok) (h : u.isLt = false) :
    parseTArgsReq W f (u :: rest) = none := by
  cases f with
  | zero => simp [parseTArgsReq]
  | succ f =>
    unfold parseTArgsReq
    cases u <;> simp_all [Tok.isLt]

/-- an abstract declarator in front of a token that is neither `*`, `&` nor `[` is empty -/
theorem parseDecl_abs_stop (f : Nat) (u : Tok) (rest : List Tok)
    (h1 : u ≠ .p .Asterix) (h2 : u ≠ .p .Ampersand) (h3 : u ≠ .p .LeftSquareBracket) :
    parseDecl W f true (u :: rest) = none ∨ parseDecl W f true (u :: rest) = some (.empty, u :: rest) := by
  cases f with
  | zero => left; simp [parseDecl]
  | succ f =>
    unfold parseDecl
    split
    · rename_i heq; simp at heq; exact absurd heq.1 h1
    · rename_i heq; simp at heq; exact absurd heq.1 h1
    · rename_i heq; simp at heq; exact absurd heq.1 h2
    · rename_i heq; simp at heq; exact absurd heq.1 h2
    · simp only [if_true]
      cases f with
      | zero => left; simp [parseArrDims]
      | succ f =>
        right
        unfold parseArrDims
        split
        · rename_i heq; simp at heq; exact absurd heq.1 h3
        · rfl

theorem parseTyId_badhead (f : Nat) (sym : Bool) (t : Tok) (rest : List Tok) (hs : modBeforeStep t = .stop)
    (hid : ∀ n, t ≠ .id n) : parseTyId W f sym (t :: rest) = none := by
  cases f with
  | zero => simp [parseTyId]
  | succ f =>
    unfold parseTyId
    rw [takeModsBefore_stop t rest hs]
    split
    · rename_i heq; simp at heq; exact absurd heq.2.1 (hid _)
    · rfl

theorem parseTyId_notW (f : Nat) (n : String) (rest : List Tok) (hs : modBeforeStep (.id n) = .stop)
    (hw : W.contains n = false) : parseTyId W f true (.id n :: rest) = none := by
  cases f with
  | zero => simp [parseTyId]
  | succ f =>
    unfold parseTyId
    rw [takeModsBefore_stop _ rest hs]
    have : ¬ n ∈ W := by simpa using hw
    simp [this]

/-- a name followed by a token that continues no type: the type is the bare name -/
theorem parseTyId_short (f : Nat) (sym : Bool) (n : String) (u : Tok) (rest : List Tok)
    (hs : modBeforeStep (.id n) = .stop) (h0 : u.isLt = false)
    (h1 : u ≠ .p .Asterix) (h2 : u ≠ .p .Ampersand) (h3 : u ≠ .p .LeftSquareBracket)
    (h4 : u ≠ .p .Const) (h5 : u ≠ .p .Volatile) :
    parseTyId W f sym (.id n :: u :: rest) = none ∨
    parseTyId W f sym (.id n :: u :: rest) = some (.mk [] n .nil .empty, u :: rest) := by
  cases f with
  | zero => left; simp [parseTyId]
  | succ f =>
    unfold parseTyId
    rw [takeModsBefore_stop _ _ hs]
    simp only []
    split
    · left; rfl
    · simp only [parseTArgsReq_notlt W f u rest h0, takeModsAfter_stop u rest h4 h5]
      rcases parseDecl_abs_stop W f u rest h1 h2 h3 with h | h
      · left; simp [h]
      · right; simp [h]

/-- after a type name: a token that neither continues the type (`<`, `*`, `&`, `[`, `const`, `volatile`) nor closes
the cast's parenthesis -/
def secondSafe (t : Tok) : Bool :=
  !(t.isLt || t == .p .Asterix || t == .p .Ampersand || t == .p .LeftSquareBracket || t == .p .Const ||
    t == .p .Volatile || t == .p .RightParen)

/-- a parenthesised text that does not start like a type: its first token is neither a modifier nor a name in `W`
(or the name is directly followed by a token no type continues with) -/
def castDeadB : List Tok → Bool
  | [] => false
  | t :: rest =>
    match modBeforeStep t with
    | .stop =>
      match t with
      | .id n => !W.contains n || (match rest with | u :: _ => secondSafe u | [] => false)
      | _ => true
    | _ => false

theorem castDead_of_B (ts more : List Tok) (h : castDeadB W ts = true) : CastDead W (ts ++ more) := by
  intro f term
  cases f with
  | zero => simp [castAlt]
  | succ f =>
    unfold castAlt
    cases ts with
    | nil => simp [castDeadB] at h
    | cons t rest =>
      simp only [castDeadB] at h
      split at h
      · rename_i hstop
        cases t with
        | id n =>
          simp only [Bool.or_eq_true, Bool.not_eq_true'] at h
          rcases h with h | h
          · simp [parseTyId_notW W f n _ hstop h]
          · cases rest with
            | nil => simp at h
            | cons u rest' =>
              simp only [secondSafe, Bool.not_eq_true', Bool.or_eq_false_iff, beq_eq_false_iff_ne, ne_eq] at h
              obtain ⟨⟨⟨⟨⟨⟨h1, h2⟩, h3⟩, h4⟩, h5⟩, h6⟩, h7⟩ := h
              rcases parseTyId_short W f true n u (rest' ++ more) hstop h1 h2 h3 h4 h5 h6 with hh | hh
              · simp [hh]
              · simp only [List.cons_append, hh]
                split
                · rename_i heq; simp at heq; exact absurd heq.2.1 h7
                · rfl
        | _ => simp [parseTyId_badhead W f true _ _ hstop (by intro n hn; cases hn)]
      · cases h


end RsslVerif.Lemmas.RoundtripFull

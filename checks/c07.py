"""C07 — compilation is deterministic."""
T = "RsslVerif.Thm.C07."


def custom(ctx):
    if not ctx.harness_build():
        return
    import os
    corpus = os.path.join(os.path.dirname(os.path.dirname(os.path.abspath(__file__))), "corpus", "C07.txt")
    if os.path.exists(corpus) and os.path.getsize(corpus) > 0:
        cases, _ = ctx.run_harness(["c07", "--requests", corpus])
        ctx.correspond(cases, compare_model=False)
    cases, stats = ctx.run_harness(["c07", "--tier", ctx.tier, "--seed", str(ctx.seed)])
    ctx.stats.extend(stats)
    ctx.correspond(cases, compare_model=False)
    ctx.extra["model_comparison"] = "none: the model has no bytes to predict; the run below is the property's own oracle"


def shrink(req):
    """history requests: drop one item of the sequence at a time (two items is the smallest history)"""
    f = req.split("\t")
    if f[0] != "C07.history" or len(f) <= 3:
        return
    for i in range(1, len(f)):
        yield "\t".join(f[:i] + f[i + 1:])


def nontrivial(req, obs):
    if req.startswith("C07.history"):
        # both back ends are in the sequence and at least one item is an accepted program
        return "backends=2" in obs and "ok[" in obs
    # accepted-program streams: the compilation succeeded; diagnostics streams: the program really is rejected
    if "\tdiag:" in req or "\tsrc:" in req:
        return obs.startswith("err")
    return obs.startswith("ok")


SPEC = {
    "id": "C07",
    "gens": ["HashSites", "EnumRange", "GlobalState", "Reserved", "UsageTables"],
    "lean_modules": ["RsslVerif.Thm.C07", "RsslVerif.Lemmas.EnumRange", "RsslVerif.Model.History", "RsslVerif.Model.MemoDfs", "RsslVerif.Thm.C02", "RsslVerif.Thm.C15"],
    "theorems": [T + n for n in [
        "sort_perm_invariant", "collectSort_perm_invariant", "sortBy_key_perm_invariant",
        "lookup_perm_invariant", "fold_perm_invariant", "firstFailure_ok_perm_invariant", "firstFailure_perm_invariant",
        # tie: inventory of hash-ordered traversals, each with the fingerprint and the effects of its body
        "hash_sites_covered", "site_effects_reviewed", "classified_all_current",
        "scoped_declarations_unobserved", "no_other_nondeterminism",
        # worked example of a commutative fold: Context::end_enum transcribed (Model/EnumRange.lean)
        "end_enum_shape_as_modelled", "end_enum_type_or_error_order_independent", "end_enum_panics_order_independent",
        "gather_panic_message_order_dependent", "end_enum_order_independent", "end_enum_promotion_total",
        "blame_first_order_dependent",
        # history independence: no process-wide state (tie: Gen.GlobalState), and what that buys (Model/History.lean)
        "history_independent_of_stateless", "runSeq_eq_map_fresh", "history_independent_of_no_state",
        "real_reserved_set_history_independent", "once_lock_history_dependent",
        "no_process_wide_state", "no_ambient_inputs", "global_state_scan_not_empty",
        # the usage fixpoint on CYCLIC tables: tie of the loop text, order independence for every well-formed table,
        # a call cycle satisfying the hypotheses, and the seeded memoising DFS (Model/MemoDfs.lean) order dependent on one
        "usage_recurse_shape_as_modelled", "usage_fixpoint_total_and_order_independent",
        "usage_fixpoint_order_independent_on_cycle", "memo_dfs_order_dependent_on_cycle",
        "memo_dfs_set_order_dependent_on_cycle",
        # several KINDS of implicit parameters in one closed usage set (lane index / lane count / mesh output / globals):
        # order independence for every program and set, an instance with the regenerated variant order and intrinsic
        # table, and the self-mutation `sort the globals only` order dependent exactly when two built-in kinds meet
        "required_kinds_order_independent", "required_kinds_instance", "globals_only_sort_order_dependent",
        "sortGlobalsOnly_eq_on_globals"]] + [
        "RsslVerif.Lemmas.EnumRange.foldl_perm_of_invariant",
        # the two non-trivial sites are proved order independent over the models of the code itself
        "RsslVerif.Thm.C02.closure_order_independent",      # usage-analysis fixpoint (recurse) vs key iteration order;
        # hypothesis WF only (no acyclicity): see usage_fixpoint_order_independent_on_cycle for a 2-cycle instance
        "RsslVerif.Thm.C02.recurse_terminates", "RsslVerif.Thm.C02.close_is_reachability",
        "RsslVerif.Thm.C02.required_order_independent",     # required_globals collect + sort
        "RsslVerif.Thm.C15.build_scope_order_independent",  # NameMap::build vs scope-map and key-map iteration order
    ],
    "harness": "c07",
    "custom": custom,
    "nontrivial": nontrivial,
    "shrink": shrink,
    "rule": "accepted programs: generated shader files (up to 10 resources, 6 helpers with call graphs, 5 static globals threaded on "
            "Metal, 3 pipelines) x 4 targets, name-clash programs, programs whose functions share their name with a struct / enum / "
            "cbuffer of the same scope (accepted since fix 31dddea) x 4 targets, programs through the code of fix batch 3 (fix3:<seed>: "
            "enum values that share their name with a constant buffer block declared before or after the enum - the order that "
            "reached assert_eq!(symbols.len(), 1) in end_enum until fe5dd8d - in the global scope and 0-2 namespaces, 2-7 values "
            "per enum, int and uint backed enums next to int / uint / bool operands and literals, float remainder assignments, "
            "casts to and from one component vectors, struct casts, 17 digit float literals, four component swizzles) x 4 "
            "targets, buffer addresses in 2-4 bind groups with tied inline "
            "descriptor slots x {vk, vkba}, plus the repository's own inputs under tests/ x {dx, msl}, each "
            "compiled 5 times in one process and once in each of 3 fresh processes; programs with CALL CYCLES (cycle:<seed>, 24 quick / "
            "300 thorough + 6 corpus entries: 1-6 cycles of 1-4 mutually recursive functions through forward declarations, self "
            "recursion, chords, calls between cycles, cycles in namespaces, every member with its own globals / resources directly "
            "and through helper chains of depth 1-3, sometimes a helper chain of depth 9-24, static globals initialised by a call "
            "of a helper or of a cycle member, 1-2 entry points) x 4 targets (Metal shows the closed usage sets as implicit "
            "parameter lists and is_used; the HLSL targets are the control), each compiled 8 times in one process and once in each "
            "of 3 fresh processes, a failure quotes the first differing emitted line and the program; programs whose functions need SEVERAL "
            "KINDS of implicit parameters on Metal (wave:<seed>, 30 quick / 300 thorough + 11 corpus entries: 3-9 helpers reading "
            "WaveGetLaneIndex / WaveGetLaneCount, 3-6 globals of 7 kinds, calls of earlier helpers, default arguments on the "
            "definition that read a lane intrinsic and a global, helpers in namespaces, static globals initialised from a lane "
            "intrinsic or a helper call, compute pipelines, mesh + pixel pipelines with SetMeshOutputCounts in helpers, task + mesh "
            "+ pixel pipelines with DispatchMesh in the task shader or a helper of it) x 4 "
            "targets, 8 + 3 compilations each; rejected programs: 119 generated families (3 of them reject through the "
            "CONFIGURATION: 3-6 invalid client defines after well-formed and repeated ones, no file under the entry name, "
            "well-formed defines that make the source ill-formed in 3-6 places; a failure quotes the define list) "
            "with >= 3 interchangeable offenders each (lexer, preprocessor, parser, 99 of 109 TyperError variants incl. enum "
            "range / conflicts, overload ambiguity with candidate lists, redefinitions, and every rejection introduced by fix batches 2 and 3 (enum value named like a namespace, swizzles "
            "of more than four components, Metal remainder assignments whose target or right operand writes); "
            "layout check; pipeline errors; exporter "
            "errors on every target) and the 504 rejected inputs of the repository's typer tests, each compiled 8 times in one "
            "process and once in each of 3 fresh processes; all digests (sources, stages, metadata, state, fully rendered "
            "diagnostics) must be equal; non-trivial = the compilation succeeded (accepted streams) / was rejected (diagnostics streams). "
            "History independence (C07.history, 60 quick / 400 thorough sequences of 2-6 requests + 4 corpus sequences): programs "
            "declaring identifiers that exactly ONE back end reserves (taken from the RESERVED_NAMES tables of the tree under check, "
            "287 names, ~1290 (name, role) pairs the front end accepts as local / function / struct / global / parameter / member) "
            "for an HLSL target and for Metal, mixed with other targets, no-pipeline mode, the same input with a client define, other "
            "such programs, generated / name-clash / shared-name programs, rejected programs and (thorough) the repository's inputs: "
            "every item is compiled alone in a fresh process, after the others in fresh processes in 4 orders (as listed, reversed, "
            "rotated, shuffled), and in the long-running harness process; each result must equal the item's alone-in-a-fresh-process "
            "result; a failure is shrunk to the shortest sequence and names the first differing emitted line; non-trivial = both "
            "back ends in the sequence and an accepted item",
    "level_text": "Proof of the logic, test of the runtime: every shape of hash-iteration site (collect+sort with an antisymmetric "
                  "order or an injective key, insert under distinct keys, commutative fold, check-only loop) is proved invariant "
                  "under every permutation of the iteration order; Context::end_enum - five loops over a Vec drained from a HashMap "
                  "- is transcribed (Model/EnumRange.lean, compared with the regenerated Gen.EnumRange: range loop, selection, "
                  "conversion arms, and the text of the promotion and reinsertion loops) and proved order "
                  "independent as a whole, including the location and payload of its range error, for EVERY parent scope "
                  "(since fix fe5dd8d removed assert_eq!(symbols.len(), 1) the vector of a name may also hold a constant "
                  "buffer block; the promotion and reinsertion iterations commute on every state, so the only hypotheses "
                  "left are integer-like values and distinct value ids; end_enum_promotion_total: no panic when every name "
                  "has an entry of any length); the translator's inventory of "
                  "traversals of hash ordered containers (HashMap/HashSet and Vecs filled from them) in the current source is "
                  "proved to contain only reviewed sites WITH THE REVIEWED BODY (fingerprint per loop body), and a body that can "
                  "leave early, builds a diagnostic or keeps a first value is never accepted as a commutative fold. The usage "
                  "fixpoint (GlobalUsageAnalysis::recurse, hash order of the keys and of every required set): the text of the "
                  "loop in the current source is tied to the C02 transcription (usage_recurse_shape_as_modelled over the "
                  "regenerated Gen.UsageTables.recurseShape), and that transcription is proved total and order independent for "
                  "EVERY well-formed table - the hypothesis is `every mentioned symbol has an entry, sets duplicate free`, "
                  "nothing excludes call cycles (usage_fixpoint_total_and_order_independent; "
                  "usage_fixpoint_order_independent_on_cycle instantiates it on a 2-cycle and shows each member ends with "
                  "the other member's global); the seeded single-pass memoising DFS is transcribed (Model/MemoDfs.lean) and "
                  "proved to depend on the key order and on the set order on a table with a 2-cycle. The implicit parameter list "
                  "of a Metal function (analyse_globals: one entry per global, lane intrinsic and mesh intrinsic of the closed "
                  "usage set, then sort()): for EVERY program and every two walks of a set, whatever kinds it mixes, the "
                  "sorted lists are equal (required_kinds_order_independent over the C02 transcription, whose variant order "
                  "and intrinsic table are regenerated); required_kinds_instance evaluates it on a set with both lane "
                  "intrinsics, the mesh intrinsic and two globals; the self-mutation `sort the globals only` is transcribed "
                  "and proved order dependent on such a set and equal to the real sort on lists of globals only. History "
                  "independence: a process whose step never reads process-wide state gives every request, after any history "
                  "and in any permutation, its fresh-process result (proved for all step functions, Model/History.lean); the "
                  "regenerated inventory Gen.GlobalState proves the premise about the source: no `static` item at all, no "
                  "thread_local!/lazy_static!, no OnceLock/OnceCell/LazyLock/Mutex/RwLock/Atomic*/Once/UnsafeCell/Arc, no "
                  "Box::leak/mem::forget/unsafe, no environment/clock/process/thread/randomness/hasher-state/address reads, "
                  "only path dependencies and no build scripts; the seeded OnceLock variant is transcribed and proved history "
                  "DEPENDENT with the regenerated reserved lists (`main` on Metal after one HLSL request). The actual "
                  "SipHash seeds are runtime behaviour no model exhibits: they are exercised by repeated in-process and "
                  "fresh-process compilations of accepted and rejected programs compared byte for byte; what a process "
                  "keeps between two compilations is exercised by request sequences compared with fresh processes.",
    "trusted_base": [
        "Lean 4.33 kernel; axioms propext / Classical.choice / Quot.sound only",
        "tools/gens/c07.py: heuristic inventory (regular expressions per file and function) of traversals of hash ordered "
        "containers: names bound to hash types, hash-returning functions, std::mem::take/clone/reference of them, Vecs filled "
        "inside such a traversal in the same function; per-site body fingerprint and effect flags; uses of "
        "clocks/randomness/threads/env; consumers of ScopedDeclarations.variables. Not followed: hash ordered Vecs returned "
        "from a function or pushed into a field",
        "the classification of a site into a shape in Thm/C07.lean `classified` is a reviewed reading of the (fingerprinted) "
        "body, not a theorem about the Rust code, except for the transcribed ones: end_enum (Model/EnumRange, tie "
        "end_enum_shape_as_modelled), the usage-analysis fixpoint (C02 model, tie usage_recurse_shape_as_modelled: five regular "
        "expressions over the whitespace-normalised body of `recurse` in tools/gens/c02.py) and required_globals (C02 model), "
        "NameMap::build (C15 model)",
        "Model/MemoDfs.lean is a negative example (the seeded variant), fuelled with |table| + 1; nothing positive rests on it",
        "hypotheses of end_enum_order_independent are typer invariants read off the code: enum values are integer-like, value "
        "ids distinct (nothing is assumed about the parent scope or the names any more); end_enum_promotion_total assumes "
        "that every enumerator name has an entry in the parent scope (register_enum_value pushes one)",
        "Rust's sort/sort_by return a sorted permutation; HashMap = finite map with unspecified iteration order",
        "tools/gens/c07.py GlobalState: regular expressions over the comment- and literal-stripped text of every non-test .rs "
        "file of the 10 compiler crates (`static NAME:` anywhere, state macros, shared-state type names, leak/unsafe, ambient "
        "reads) and the [dependencies] / build.rs of their manifests; state hidden behind a macro of an external crate would "
        "show up as an external dependency, state built by a proc-macro of the workspace itself would not be seen; "
        "metal_invoker (external process for Metal validation, not part of `compile`'s outputs) is not scanned",
        "Model/History.lean stepReal / stepOnceLock transcribe only the reserved-set part of NameMap::build (the full build "
        "is the C15 model); the step from `no static state in the source` to `the step function does not read state` is the "
        "language guarantee of safe Rust (assumption below), not a theorem",
    ],
    "assumptions": ["covered by the correspondence run and its oracle only (no Lean transcription): the handling of client defines and "
                    "of the entry file name in preprocess/src/preprocess.rs (no hash container is walked there: file_name_remap, "
                    "real_name_remap and pragma_once_files are only read by key - inventory Gen.HashSites), the entry point's "
                    "attribute parameters for the lane kinds in msl/src/generator/pipeline.rs (a walk over the already sorted Vec)",
                    "single-threaded safe Rust has no other source of nondeterminism than hash iteration order",
                    "safe Rust without `static` items, thread locals, leaks and ambient reads cannot carry information from one "
                    "call of `compile` to the next except through its arguments (the include handler is the caller's)"],
}

import RsslVerif.Model.Elab
import RsslVerif.Lemmas.Conv
/-! Lemmas about `Model.Conv.find` / `targetType` used by C03: inversion of `find`, and a complete description of the
type `get_target_type` computes for a conversion that `find` returned. Core Lean only. -/
namespace RsslVerif.Lemmas.ElabConv
open RsslVerif.Gen.RankTable RsslVerif.Gen.TypingTables RsslVerif.Model.Conv RsslVerif.Model.Overload
open RsslVerif.Model.IrTyping RsslVerif.Model.Elab

theorem find_inv {s d : ETy} {c : Conversion} (h : find s d = .ok (some c)) :
    ¬ (s.vt = .rvalue ∧ d.vt = .lvalue) ∧
    c.source = s ∧ c.valueCast = decide (s.vt = .lvalue ∧ d.vt = .rvalue) ∧
    dimensionCast s.ty.layer d.ty.layer (decide (d.vt = .lvalue)) = some c.dimCast ∧
    primaryCast s.ty.layer d.ty.layer = .ok (some c.primary) ∧
    ∃ mc, modifierCast s.ty.mod d.ty.mod (decide (d.vt = .lvalue)) = some mc ∧
      c.modCast = sharedModifierCast c.primary d.ty.mod mc := by
  unfold find at h
  split at h
  · simp at h
  · rename_i hv
    simp only [] at h
    split at h
    · simp at h
    · rename_i dc hdc
      split at h
      · simp at h
      · simp at h
      · rename_i pc hpc
        split at h
        · simp at h
        · rename_i mc hmc
          simp only [Except.ok.injEq, Option.some.injEq] at h
          subst h
          exact ⟨hv, rfl, rfl, hdc, hpc, mc, hmc, rfl⟩

theorem modifierCast_some {a b : Modifier} {lv : Bool} {mc : Option Modifier}
    (h : modifierCast a b lv = some mc) : (mc = some b ∧ a ≠ b) ∨ (mc = none ∧ a = b) := by
  unfold modifierCast at h
  split at h
  · rename_i hne
    split at h
    · simp at h
    · simp at h; exact Or.inl ⟨h.symm, hne⟩
  · rename_i he
    simp at h he
    exact Or.inr ⟨h.symm, he⟩

theorem primaryCast_some {sl dl : Layer} {p : PrimaryCast} (h : primaryCast sl dl = .ok (some (some p))) :
    p.dest = dl ∧ sl ≠ dl := by
  unfold primaryCast at h
  split at h
  · simp at h
  · rename_i hne
    refine ⟨?_, hne⟩
    repeat' split at h
    all_goals first | (simp at h; done) | (simp at h; rw [← h])


theorem primaryCast_none {sl dl : Layer} (h : primaryCast sl dl = .ok (some none)) :
    sl = dl ∨ (∃ s, sl.extractScalar = some s ∧ dl.extractScalar = some s) := by
  unfold primaryCast at h
  split at h
  · rename_i he; exact Or.inl he
  · split at h
    · split at h
      · split at h <;> simp at h
      · simp at h
    · split at h
      · rename_i ss ds h1 h2
        split at h
        · rename_i he; subst he; exact Or.inr ⟨ss, h1, h2⟩
        · split at h <;> simp at h
      · simp at h

/-- without a primary cast the rebuilt layer (source scalar at the cast's destination dimension) is the destination layer -/
theorem noPrimary_layer {sl dl : Layer} {lv : Bool} {dc : Option (Dim × Dim)}
    (h1 : dimensionCast sl dl lv = some dc) (h2 : primaryCast sl dl = .ok (some none)) :
    match (match dc with | some (_, b) => some b | none => sl.dim) with
    | some dm => ∃ ss, sl.extractScalar = some ss ∧ Layer.ofDim ss dm = dl
    | none => sl = dl := by
  rcases primaryCast_none h2 with rfl | ⟨ss, hs, hd⟩
  · have : dc = none := by
      unfold dimensionCast at h1; simp at h1; exact h1.symm
    subst this
    cases sl <;> simp [Layer.dim, Layer.extractScalar, Layer.ofDim]
  · cases sl <;> cases dl <;> simp [Layer.extractScalar] at hs hd
    all_goals (subst hs; subst hd)
    all_goals (simp [dimensionCast] at h1)
    all_goals (simp [Layer.dim, Layer.extractScalar, Layer.ofDim])
    all_goals (repeat' split at h1)
    all_goals (first | (simp at h1; done) | (simp at h1; subst h1; simp_all) | (subst h1; simp_all))

/-- towards an lvalue the layers agree up to `T` ~ `T1`, so no numeric conversion is involved -/
theorem lvalue_no_primary {sl dl : Layer} {dc : Option (Dim × Dim)} {pc : Option PrimaryCast}
    (h1 : dimensionCast sl dl true = some dc) (h2 : primaryCast sl dl = .ok (some pc)) : pc = none := by
  by_cases he : sl = dl
  · subst he; simp [primaryCast] at h2; exact h2.symm
  · cases sl <;> cases dl <;> simp [dimensionCast, he] at h1
    all_goals (repeat' split at h1)
    all_goals (first | (simp at h1; done) | skip)
    all_goals (simp_all [primaryCast, Layer.extractScalar])

/-- the part of `get_target_type` before the modifier cast, when there is no primary cast -/
def rebuilt (ty : ETy) (dc : Option (Dim × Dim)) : Except String ETy :=
  match (match dc with | some (_, d) => some d | none => ty.ty.layer.dim) with
  | some d =>
    match ty.ty.layer.extractScalar with
    | some s => .ok ⟨⟨ty.ty.mod, Layer.ofDim s d⟩, ty.vt⟩
    | none => .error "casting.rs: dimension cast on non numeric type"
  | none => .ok ty

theorem rebuilt_ok (ty : ETy) (dc : Option (Dim × Dim)) (dl : Layer)
    (hl : match (match dc with | some (_, b) => some b | none => ty.ty.layer.dim) with
      | some dm => ∃ ss, ty.ty.layer.extractScalar = some ss ∧ Layer.ofDim ss dm = dl
      | none => ty.ty.layer = dl) :
    ∃ b, rebuilt ty dc = .ok b ∧ b.vt = ty.vt ∧ b.ty.layer = dl ∧ b.ty.mod = ty.ty.mod := by
  unfold rebuilt
  generalize (match dc with | some (_, b) => some b | none => ty.ty.layer.dim) = dim at hl
  cases dim with
  | some dm =>
    obtain ⟨ss, hss, hof⟩ := hl
    exact ⟨⟨⟨ty.ty.mod, Layer.ofDim ss dm⟩, ty.vt⟩, by simp only [hss], rfl, hof, rfl⟩
  | none => exact ⟨ty, rfl, rfl, hl, rfl⟩

theorem targetType_noPrimary (c : Conversion) (h : c.primary = none) :
    targetType c = match rebuilt (if c.valueCast then ⟨c.source.ty, .rvalue⟩ else c.source) c.dimCast with
      | .error e => .error e
      | .ok t => match c.modCast with
        | some m => .ok ⟨⟨m, t.ty.layer⟩, t.vt⟩
        | none => .ok t := by
  unfold targetType rebuilt
  simp only [h]
  rfl

theorem ety_ext {a b : ETy} (h1 : a.vt = b.vt) (h2 : a.ty.layer = b.ty.layer) (h3 : a.ty.mod = b.ty.mod) : a = b := by
  obtain ⟨⟨am, al⟩, av⟩ := a
  obtain ⟨⟨bm, bl⟩, bv⟩ := b
  simp only at h1 h2 h3
  subst h1 h2 h3
  rfl

/-- **`find` is sound**: the conversion it returns produces exactly the requested type (and `get_target_type`
    does not panic on it) -/
theorem targetType_ok {s d : ETy} {c : Conversion} (h : find s d = .ok (some c)) : targetType c = .ok d := by
  obtain ⟨hv, hsrc, hvc, hdc, hpc, mc0, hmc, hshared⟩ := find_inv h
  obtain ⟨src, vc, dc, pc, mc⟩ := c
  simp only at hsrc hvc hdc hpc hshared
  subst hsrc
  -- value category after the value-type cast
  have hvt : (if vc = true then (⟨src.ty, .rvalue⟩ : ETy) else src).vt = d.vt ∧
      (if vc = true then (⟨src.ty, .rvalue⟩ : ETy) else src).ty = src.ty := by
    subst hvc
    cases hs : src.vt <;> cases hd : d.vt <;> simp_all
  generalize hty : (if vc = true then (⟨src.ty, .rvalue⟩ : ETy) else src) = ty at hvt
  cases pc with
  | some p =>
    obtain ⟨hdest, _⟩ := primaryCast_some hpc
    have hdr : d.vt = .rvalue := by
      cases hd : d.vt with
      | rvalue => rfl
      | lvalue =>
        simp only [hd, decide_true] at hdc
        have := lvalue_no_primary hdc hpc
        simp at this
    have hmcd : mc = some d.ty.mod ∨ (mc = none ∧ d.ty.mod = {}) := by
      subst hshared
      rcases modifierCast_some hmc with ⟨rfl, _⟩ | ⟨rfl, _⟩
      · exact Or.inl rfl
      · by_cases hd0 : d.ty.mod = {}
        · exact Or.inr ⟨by simp [sharedModifierCast, hd0], hd0⟩
        · exact Or.inl (by simp [sharedModifierCast, hd0])
    rcases hmcd with rfl | ⟨rfl, hd0⟩
    · have : targetType ⟨src, vc, dc, some p, some d.ty.mod⟩ = .ok ⟨⟨d.ty.mod, d.ty.layer⟩, .rvalue⟩ := by
        simp [targetType, hdest]
      rw [this]
      exact congrArg _ (ety_ext hdr.symm rfl rfl)
    · have : targetType ⟨src, vc, dc, some p, none⟩ = .ok ⟨⟨{}, d.ty.layer⟩, .rvalue⟩ := by
        simp [targetType, hdest]
      rw [this]
      exact congrArg _ (ety_ext hdr.symm rfl hd0.symm)
  | none =>
    have hmc' : mc = mc0 := by subst hshared; cases mc0 <;> simp [sharedModifierCast]
    subst hmc'
    have hl := noPrimary_layer hdc hpc
    obtain ⟨hvt1, hvt2⟩ := hvt
    rw [← hvt2] at hl
    obtain ⟨b, hb, hb1, hb2, hb3⟩ := rebuilt_ok ty dc d.ty.layer hl
    rw [targetType_noPrimary _ rfl]
    simp only [hty, hb]
    rcases modifierCast_some hmc with ⟨rfl, hne⟩ | ⟨rfl, heq⟩
    · exact congrArg Except.ok
        (ety_ext (a := ⟨⟨d.ty.mod, b.ty.layer⟩, b.vt⟩) (by simp only [hb1, hvt1]) hb2 rfl)
    · exact congrArg Except.ok (ety_ext (by rw [hb1, hvt1]) hb2 (by rw [hb3, hvt2, heq]))

end RsslVerif.Lemmas.ElabConv

//! Generator of whole shader files: resources, helper functions, entry points and pipelines.
//! Shared by the whole-compiler properties (C05 C07 C17 C18).
#![allow(dead_code)]

use crate::util::*;

#[derive(Clone, Debug, PartialEq)]
pub struct Resource {
    pub name: String,
    /// source spelling of the type, e.g. `Texture2D<float4>`; `cbuffer` for a cbuffer block
    pub ty: String,
    pub kind: String,
    pub group: Option<u32>,
    pub len: Option<u32>,
    pub static_sampler: bool,
    pub bindless: bool,
    /// a cbuffer block without members (`cbuffer X {}`): still a bound declaration on every target
    pub empty: bool,
}

#[derive(Clone, Debug, PartialEq)]
pub struct Func {
    pub name: String,
    /// indices of resources mentioned directly
    pub uses: Vec<usize>,
    /// indices of helper functions called (only lower indices: no recursion)
    pub calls: Vec<usize>,
    /// indices of the static globals `s_value<k>` the function reads and writes
    pub statics: Vec<usize>,
}

#[derive(Clone, Copy, Debug, PartialEq, Eq)]
pub enum PipeKind {
    Compute,
    VertexPixel,
    MeshPixel,
    TaskMesh,
}

#[derive(Clone, Debug, PartialEq)]
pub struct Entry {
    pub stage: &'static str,
    pub func: Func,
    pub threads: Option<(u32, u32, u32)>,
}

#[derive(Clone, Debug, PartialEq)]
pub struct Pipe {
    pub name: String,
    pub kind: PipeKind,
    /// indices into Program::entries, in property order
    pub stages: Vec<usize>,
    pub default_group: Option<u32>,
}

#[derive(Clone, Debug, PartialEq)]
pub struct Program {
    /// number of `static int s_value<k>` globals (threaded through functions as parameters on Metal)
    pub nstatics: usize,
    pub resources: Vec<Resource>,
    pub helpers: Vec<Func>,
    pub entries: Vec<Entry>,
    pub pipes: Vec<Pipe>,
    /// 0: all functions first, then all Pipeline blocks; 1: every Pipeline block directly follows the last of its entry
    /// points, so later entry points (and pipelines) are defined after earlier Pipeline blocks
    pub layout: u8,
}

pub const RES_KINDS: &[(&str, &str)] = &[
    ("Buffer", "Buffer<float4>"),
    ("RWBuffer", "RWBuffer<float4>"),
    ("ByteAddressBuffer", "ByteAddressBuffer"),
    ("RWByteAddressBuffer", "RWByteAddressBuffer"),
    ("BufferAddress", "BufferAddress"),
    ("RWBufferAddress", "RWBufferAddress"),
    ("StructuredBuffer", "StructuredBuffer<float4>"),
    ("RWStructuredBuffer", "RWStructuredBuffer<float4>"),
    ("Texture2D", "Texture2D<float4>"),
    ("Texture2DArray", "Texture2DArray<float4>"),
    ("RWTexture2D", "RWTexture2D<float4>"),
    ("TextureCube", "TextureCube<float4>"),
    ("Texture3D", "Texture3D<float4>"),
    ("RWTexture3D", "RWTexture3D<float4>"),
    ("ConstantBuffer", "ConstantBuffer<CbS>"),
    ("SamplerState", "SamplerState"),
    ("SamplerComparisonState", "SamplerComparisonState"),
    ("cbuffer", "cbuffer"),
];

pub struct GenOpts {
    pub max_resources: u64,
    pub max_helpers: u64,
    pub max_pipes: u64,
    pub allow_mesh: bool,
    pub share_entries: bool,
}

impl Default for GenOpts {
    fn default() -> Self {
        GenOpts { max_resources: 7, max_helpers: 4, max_pipes: 4, allow_mesh: true, share_entries: true }
    }
}

pub fn gen_program(rng: &mut Rng, opts: &GenOpts) -> Program {
    let nres = rng.below(opts.max_resources + 1) as usize;
    let mut resources = Vec::new();
    for i in 0..nres {
        let (kind, ty) = *rng.pick(RES_KINDS);
        let is_sampler = kind.starts_with("Sampler");
        let static_sampler = is_sampler && rng.chance(1, 2);
        let can_array = kind != "cbuffer" && !static_sampler && kind != "ConstantBuffer";
        let len = if can_array && rng.chance(1, 4) { Some(rng.range(1, 3) as u32) } else { None };
        let bindless = len.is_some() && rng.chance(1, 3) && !kind.contains("Address");
        resources.push(Resource {
            name: format!("g_r{}", i),
            ty: ty.to_string(),
            kind: kind.to_string(),
            group: if rng.chance(1, 3) { Some(rng.below(3) as u32) } else { None },
            len,
            static_sampler,
            bindless,
            empty: kind == "cbuffer" && rng.chance(1, 6),
        });
    }
    let nstatics = rng.below(5) as usize;
    let nh = rng.below(opts.max_helpers + 1) as usize;
    let mut helpers: Vec<Func> = Vec::new();
    for i in 0..nh {
        let f = gen_func(rng, format!("helper{}", i), nres, i, nstatics);
        helpers.push(f);
    }
    let np = rng.below(opts.max_pipes + 1) as usize;
    let mut entries: Vec<Entry> = Vec::new();
    let mut pipes = Vec::new();
    for i in 0..np {
        let kind = match rng.below(if opts.allow_mesh { 6 } else { 4 }) {
            0 | 1 => PipeKind::Compute,
            2 | 3 => PipeKind::VertexPixel,
            4 => PipeKind::MeshPixel,
            _ => PipeKind::TaskMesh,
        };
        let stage_names: &[&'static str] = match kind {
            PipeKind::Compute => &["Compute"],
            PipeKind::VertexPixel => &["Vertex", "Pixel"],
            PipeKind::MeshPixel => &["Mesh", "Pixel"],
            PipeKind::TaskMesh => &["Task", "Mesh"],
        };
        let mut stages = Vec::new();
        for st in stage_names {
            // optionally share an existing entry point of the same stage (not mesh: payload signatures differ)
            let reuse: Vec<usize> = entries
                .iter()
                .enumerate()
                .filter(|(_, e)| e.stage == *st && *st != "Mesh" && *st != "Task")
                .map(|(k, _)| k)
                .collect();
            if opts.share_entries && !reuse.is_empty() && rng.chance(1, 4) {
                stages.push(*rng.pick(&reuse));
                continue;
            }
            let k = entries.len();
            let prefix = match *st {
                "Compute" => "cs",
                "Vertex" => "vs",
                "Pixel" => "ps",
                "Mesh" => if kind == PipeKind::TaskMesh { "mst" } else { "ms" },
                _ => "ts",
            };
            let func = gen_func(rng, format!("{}_{}", prefix, k), nres, nh, nstatics);
            let threads = match *st {
                "Compute" => Some((1 << rng.below(4) as u32, 1 << rng.below(3) as u32, 1)),
                "Mesh" | "Task" => Some((64, 1, 1)),
                _ => None,
            };
            entries.push(Entry { stage: st, func, threads });
            stages.push(k);
        }
        // a Pipeline block may list its stage properties in any order (the compiler reports stages in declaration
        // order and emits Metal entry points in its own canonical order): list them reversed now and then
        if stages.len() == 2 && rng.chance(1, 3) {
            stages.reverse();
        }
        pipes.push(Pipe {
            name: format!("P{}", i),
            kind,
            stages,
            default_group: if rng.chance(1, 3) { Some(rng.below(3) as u32) } else { None },
        });
    }
    let layout = if rng.chance(1, 3) { 1 } else { 0 };
    Program { nstatics, resources, helpers, entries, pipes, layout }
}

fn gen_func(rng: &mut Rng, name: String, nres: usize, nhelpers_before: usize, nstatics: usize) -> Func {
    let mut uses = Vec::new();
    for r in 0..nres {
        if rng.chance(1, 3) {
            uses.push(r);
        }
    }
    let mut calls = Vec::new();
    for h in 0..nhelpers_before {
        if rng.chance(1, 3) {
            calls.push(h);
        }
    }
    let mut statics = Vec::new();
    for k in 0..nstatics {
        if rng.chance(1, 2) {
            statics.push(k);
        }
    }
    Func { name, uses, calls, statics }
}

fn body(p: &Program, f: &Func) -> String {
    let mut s = String::new();
    for r in &f.uses {
        let res = &p.resources[*r];
        if res.kind == "cbuffer" {
            if !res.empty {
                s.push_str(&format!("    {}_v;\n", res.name));
            }
        } else if res.len.is_some() {
            s.push_str(&format!("    {}[0u];\n", res.name));
        } else {
            s.push_str(&format!("    {};\n", res.name));
        }
    }
    for h in &f.calls {
        s.push_str(&format!("    {}();\n", p.helpers[*h].name));
    }
    for k in &f.statics {
        s.push_str(&format!("    s_value{} = s_value{} + 1;\n", k, k));
    }
    s
}

/// Render the program; `keep` selects which pipeline *definitions* are written (all functions stay)
pub fn render(p: &Program, keep: &dyn Fn(usize) -> bool) -> String {
    render_with(p, keep, &|_| String::new())
}

/// `render` with extra statements (returned by `extra` for each function name) placed at the start of
/// every function body; with an `extra` that returns nothing the output is byte-identical to `render`
pub fn render_with(p: &Program, keep: &dyn Fn(usize) -> bool, extra: &dyn Fn(&str) -> String) -> String {
    let body = |p: &Program, f: &Func| -> String { format!("{}{}", extra(&f.name), body(p, f)) };
    let mut s = String::new();
    s.push_str("struct CbS { float4 v; };\n");
    for k in 0..p.nstatics {
        s.push_str(&format!("static int s_value{} = 0;\n", k));
    }
    s.push_str("struct MeshVertex { float4 position : SV_Position; };\nstruct TaskPayload { uint start_location; };\ngroupshared TaskPayload lds_payload;\n");
    for r in &p.resources {
        if r.bindless {
            s.push_str("[[rssl::bindless]] ");
        }
        if let Some(g) = r.group {
            s.push_str(&format!("[[rssl::bind_group({})]] ", g));
        }
        if r.kind == "cbuffer" {
            if r.empty {
                s.push_str(&format!("cbuffer {} {{}}\n", r.name));
            } else {
                s.push_str(&format!("cbuffer {} {{ float4 {}_v; }}\n", r.name, r.name));
            }
            continue;
        }
        s.push_str(&format!("{} {}", r.ty, r.name));
        if let Some(n) = r.len {
            s.push_str(&format!("[{}]", n));
        }
        if r.static_sampler {
            s.push_str(" = StaticSampler { Filter = MIN_MAG_MIP_LINEAR; }");
        }
        s.push_str(";\n");
    }
    for h in &p.helpers {
        s.push_str(&format!("void {}() {{\n{}}}\n", h.name, body(p, h)));
    }
    let emit_entry = |s: &mut String, e: &Entry| {
        let b = body(p, &e.func);
        let n = &e.func.name;
        match e.stage {
            "Compute" => {
                let t = e.threads.unwrap();
                s.push_str(&format!(
                    "[numthreads({}, {}, {})]\nvoid {}(uint3 dtid : SV_DispatchThreadID) {{\n{}}}\n",
                    t.0, t.1, t.2, n, b
                ));
            }
            "Vertex" => s.push_str(&format!(
                "void {}(uint vid : SV_VertexID, out float4 o_pos : SV_Position) {{\n{}    o_pos = float4(0, 0, 0, 1);\n}}\n",
                n, b
            )),
            "Pixel" => s.push_str(&format!(
                "float4 {}(float4 i_pos : SV_Position) : SV_Target0 {{\n{}    return float4(0, 0, 0, 0);\n}}\n",
                n, b
            )),
            "Task" => s.push_str(&format!(
                "[numthreads(64, 1, 1)]\nvoid {}(uint3 dtid : SV_DispatchThreadID) {{\n{}    lds_payload.start_location = dtid.x;\n    DispatchMesh(4u, 1u, 1u, lds_payload);\n}}\n",
                n, b
            )),
            _ => {
                let payload = if n.starts_with("mst") { "    in payload TaskPayload data,\n" } else { "" };
                s.push_str(&format!(
                    "[numthreads(64, 1, 1)]\n[outputtopology(\"triangle\")]\nvoid {}(\n    uint3 dtid : SV_DispatchThreadID,\n{}    out vertices MeshVertex o_vertices[64],\n    out indices uint3 o_triangles[64]\n) {{\n{}    SetMeshOutputCounts(64, 64);\n    MeshVertex vertex;\n    vertex.position = float4(0, 0, 0, 1);\n    o_vertices[dtid.x] = vertex;\n    o_triangles[dtid.x] = uint3(0, 1, 2);\n}}\n",
                    n, payload, b
                ));
            }
        }
    };
    let emit_pipe = |s: &mut String, pipe: &Pipe| {
        s.push_str(&format!("Pipeline {}\n{{\n", pipe.name));
        for k in &pipe.stages {
            let e = &p.entries[*k];
            s.push_str(&format!("    {}Shader = {};\n", e.stage, e.func.name));
        }
        if let Some(g) = pipe.default_group {
            s.push_str(&format!("    DefaultBindGroup = {};\n", g));
        }
        s.push_str("}\n");
    };
    if p.layout == 1 {
        let mut done = vec![false; p.entries.len()];
        for (i, pipe) in p.pipes.iter().enumerate() {
            for k in &pipe.stages {
                if !done[*k] {
                    done[*k] = true;
                    emit_entry(&mut s, &p.entries[*k]);
                }
            }
            if keep(i) {
                emit_pipe(&mut s, pipe);
            }
        }
        for (k, e) in p.entries.iter().enumerate() {
            if !done[k] {
                emit_entry(&mut s, e);
            }
        }
    } else {
        for e in &p.entries {
            emit_entry(&mut s, e);
        }
        for (i, pipe) in p.pipes.iter().enumerate() {
            if keep(i) {
                emit_pipe(&mut s, pipe);
            }
        }
    }
    s
}

/// `P0:Compute=cs_0;P1:Vertex=vs_1,Pixel=ps_2` for the kept pipelines
pub fn describe_pipes(p: &Program, keep: &dyn Fn(usize) -> bool) -> String {
    let mut parts = Vec::new();
    for (i, pipe) in p.pipes.iter().enumerate() {
        if !keep(i) {
            continue;
        }
        let st: Vec<String> = pipe
            .stages
            .iter()
            .map(|k| format!("{}={}", p.entries[*k].stage, p.entries[*k].func.name))
            .collect();
        parts.push(format!("{}:{}", pipe.name, st.join(",")));
    }
    parts.join(";")
}

// ------------------------------------------------------------------------------------------------
// Layout-rich rendering (C14): the same programs spread over an entry file and included files, with
// object-like / function-like / concatenating macros, conditional blocks, multi-line constructs and
// expression statements that exercise `<`, `>`, `<<`, `>>`, template arguments and literals.
// ------------------------------------------------------------------------------------------------

pub struct LayoutOpts {
    /// put helpers and macros into `inc.rssl` (which may include `inc2.rssl`)
    pub include: bool,
    pub macros: bool,
    pub conditionals: bool,
}

fn gen_int_expr(rng: &mut Rng, depth: u32, locals: &[String], o: &LayoutOpts) -> String {
    if depth == 0 || rng.chance(1, 4) {
        return match rng.below(if o.macros { 5 } else { 3 }) {
            0 if !locals.is_empty() => rng.pick(locals).clone(),
            0 | 1 => format!("{}", rng.below(10)),
            2 => format!("0x{:x}", rng.below(64)),
            3 => "K_ONE".to_string(),
            _ => "CAT(K_, TWO)".to_string(),
        };
    }
    let a = gen_int_expr(rng, depth - 1, locals, o);
    let b = gen_int_expr(rng, depth - 1, locals, o);
    let tight = rng.chance(1, 3);
    let bin = |op: &str| if tight { format!("({}{}{})", a, op, b) } else { format!("({} {} {})", a, op, b) };
    match rng.below(if o.macros { 12 } else { 9 }) {
        0 => bin("+"),
        1 => bin("-"),
        2 => bin("*"),
        3 => bin(*rng.pick(&["&", "|", "^"])),
        4 => {
            let sh = rng.below(4);
            let op = *rng.pick(&["<<", ">>"]);
            if tight { format!("({}{}{})", a, op, sh) } else { format!("({} {} {})", a, op, sh) }
        }
        5 | 6 => {
            let op = *rng.pick(&["<", ">", "<=", ">=", "==", "!="]);
            let c = gen_int_expr(rng, depth - 1, locals, o);
            if tight { format!("({}{}{}?{}:{})", a, op, b, c, a) } else { format!("({} {} {} ? {} : {})", a, op, b, c, a) }
        }
        7 => format!("(int)((float){} * 1.5f)", a),
        8 => format!("(-{})", a),
        9 => {
            if rng.chance(1, 3) { format!("ADD(\n        {},\n        {})", a, b) } else { format!("ADD({}, {})", a, b) }
        }
        10 => format!("MAX({},{})", a, b),
        _ => {
            if o.include { format!("inc_helper({})", a) } else { format!("SQR({})", a) }
        }
    }
}

/// a `{ ... }` block of local declarations and assignments (no effect on the rest of the function)
pub fn gen_stmt_block(rng: &mut Rng, o: &LayoutOpts, tag: &str) -> String {
    let mut s = String::from("    {\n");
    let mut locals: Vec<String> = Vec::new();
    let n = rng.range(1, 4);
    for i in 0..n {
        let name = format!("t{}_{}", tag, i);
        match rng.below(8) {
            0 => {
                s.push_str(&format!("        float {} = {} * (float){};\n", name,
                    rng.pick(&["1.5", "0.25f", "2.", "1e-2", "3.0e+1f", ".5"]), gen_int_expr(rng, 1, &locals, o)));
                continue;
            }
            1 => {
                s.push_str(&format!("        vector<float, 2> {} = float2({}, 0.5);\n", name, rng.below(5)));
                continue;
            }
            2 => {
                s.push_str(&format!("        bool {} = {} < {} && {} >= {};\n", name,
                    gen_int_expr(rng, 1, &locals, o), gen_int_expr(rng, 1, &locals, o), rng.below(5), rng.below(5)));
                continue;
            }
            3 => {
                s.push_str(&format!("        float4 {} = float4({}, {}, 0, 1).{};\n", name, rng.below(5), rng.below(5),
                    rng.pick(&["xyzw", "wzyx", "xxyy"])));
                continue;
            }
            _ => {}
        }
        let d = rng.range(1, 3) as u32;
        let e = gen_int_expr(rng, d, &locals, o);
        s.push_str(&format!("        int {} = {};\n", name, e));
        if rng.chance(1, 3) {
            let e2 = gen_int_expr(rng, 1, &locals, o);
            let op = *rng.pick(&["+=", "-=", "*=", "<<=", ">>=", "&=", "|="]);
            let e2 = if op == "<<=" || op == ">>=" { format!("{}", rng.below(4)) } else { e2 };
            s.push_str(&format!("        {} {} {};\n", name, op, e2));
        }
        locals.push(name);
    }
    s.push_str("    }\n");
    s
}

fn macro_block(rng: &mut Rng) -> String {
    let mut s = String::new();
    s.push_str("#define K_ONE 1\n");
    s.push_str(if rng.chance(1, 2) { "#define K_TWO (K_ONE + K_ONE)\n" } else { "#define K_TWO 2 // two\n" });
    s.push_str(if rng.chance(1, 2) { "#define ADD(a, b) ((a) + (b))\n" } else { "#define ADD( a , b ) \\\n    ((a) + (b))\n" });
    s.push_str("#define MAX(a,b) ((a) > (b) ? (a) : (b))\n");
    s.push_str("#define SQR(x) ((x) * (x)) /* square */\n");
    s.push_str(if rng.chance(1, 2) { "#define CAT(a, b) a##b\n" } else { "#define CAT(a, b) a ## b\n" });
    s
}

/// Render `p` as a set of in-memory files; the first file is the entry file `main.rssl`
pub fn render_layout_files(p: &Program, rng: &mut Rng, o: &LayoutOpts) -> Vec<(String, String)> {
    let mut files: Vec<(String, String)> = Vec::new();
    let mut main = String::new();
    if rng.chance(1, 3) {
        main.push_str("// entry file\n\n");
    }
    let nested = o.include && rng.chance(1, 3);
    if o.include {
        main.push_str(if rng.chance(1, 4) { "#  include \"inc.rssl\"\n" } else { "#include \"inc.rssl\"\n" });
        // a second inclusion is cut off by `#pragma once`
        if rng.chance(1, 4) {
            main.push_str("#include \"inc.rssl\"\n");
        }
    }
    let mut inc = String::new();
    if o.include {
        inc.push_str("#pragma once\n");
        if nested {
            inc.push_str("#include \"inc2.rssl\"\n");
        }
    }
    let macros = if o.macros {
        macro_block(rng)
    } else {
        // the expression generator needs these names even without the macro forms
        String::from("static const int K_ONE = 1;\n")
    };
    let helper = "int inc_helper(int x) {\n    int y = x + K_ONE;\n    return y * 2;\n}\n";
    if o.include {
        if nested {
            files.push(("inc2.rssl".to_string(), format!("#pragma once\n{}", macros)));
        } else {
            inc.push_str(&macros);
        }
        inc.push_str("struct IncData { float4 a; uint b; };\n");
        inc.push_str(helper);
    } else {
        main.push_str(&macros);
    }
    if o.conditionals {
        match rng.below(3) {
            0 => main.push_str("#if K_ONE > 0 && defined(K_ONE)\nstatic const int c_sel = 1;\n#else\nstatic const int c_sel = 2 @ bad tokens here;\n#endif\n"),
            1 => main.push_str("#ifdef NOT_DEFINED_ANYWHERE\nthis is skipped ;;; ((\n#elif 1\nstatic const int c_sel = 3;\n#endif\n"),
            _ => main.push_str("#ifndef K_ONE_MISSING\nstatic const int c_sel = 4;\n#endif /* K_ONE_MISSING */\n"),
        }
    }
    let mut block_rng = rng.fork();
    let opts = LayoutOpts { include: o.include, macros: o.macros, conditionals: o.conditionals };
    let blocks = std::cell::RefCell::new(&mut block_rng);
    let text = render_with(p, &|_| true, &|fname: &str| {
        let mut r = blocks.borrow_mut();
        if r.chance(2, 3) { gen_stmt_block(&mut r, &opts, &fname.replace(|c: char| !c.is_ascii_alphanumeric(), "")) } else { String::new() }
    });
    main.push_str(&text);
    files.insert(0, ("main.rssl".to_string(), main));
    if o.include {
        files.insert(1, ("inc.rssl".to_string(), inc));
    }
    files
}

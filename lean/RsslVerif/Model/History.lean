/-!
# A process that compiles several requests one after the other

`rssl::compile` is a library call; a client may call it any number of times in one process (other targets of
the same input, other inputs, inputs that fail).  The property says that compiling the same inputs again "in
the same or in another process" gives the same bytes, so the result of a request must not depend on what the
process compiled BEFORE it.

A process is modelled as a step function over some process-wide state `σ` (everything that survives the
return of `compile`: `static` items with interior mutability, thread locals, leaked boxes).  The model has no
bytes to predict; it only fixes what "history independent" means and what is enough for it.
-/
namespace RsslVerif.Model.History

/-- the process after a sequence of requests: state left behind -/
def stateAfter {σ ρ β : Type} (step : σ → ρ → β × σ) (s : σ) : List ρ → σ
  | [] => s
  | r :: rs => stateAfter step (step s r).2 rs

/-- results of a sequence of requests compiled one after the other in one process started in state `s` -/
def runSeq {σ ρ β : Type} (step : σ → ρ → β × σ) (s : σ) : List ρ → List β
  | [] => []
  | r :: rs => (step s r).1 :: runSeq step (step s r).2 rs

/-- result of request `r` compiled after the history `h` in a process started in state `s` -/
def resultAfter {σ ρ β : Type} (step : σ → ρ → β × σ) (s : σ) (h : List ρ) (r : ρ) : β :=
  (step (stateAfter step s h) r).1

/-- result of request `r` compiled alone in a fresh process -/
def fresh {σ ρ β : Type} (step : σ → ρ → β × σ) (s₀ : σ) (r : ρ) : β := (step s₀ r).1

/-! ## The seeded variant C07-5: the reserved names of the FIRST `NameMap::build` of the process are kept in a
`static OnceLock` and used by every later build, whatever list the exporter passes -/

/-- a request: the reserved list its back end passes to `NameMap::build`, and the declared names -/
structure NameReq where
  reserved : List String
  names : List String
  deriving DecidableEq, Repr

/-- the part of name generation that reads the reserved set: a declared name that is reserved gets a suffix -/
def rename (reserved : List String) (names : List String) : List String :=
  names.map (fun n => if reserved.contains n then n ++ "_0" else n)

/-- what the code does: the set is built from the arguments of this call -/
def stepReal (_ : Unit) (r : NameReq) : List String × Unit := (rename r.reserved r.names, ())

/-- the seeded variant: `RESERVED_NAME_SET.get_or_init(|| reserved_names…)` -/
def stepOnceLock (s : Option (List String)) (r : NameReq) : List String × Option (List String) :=
  let set := match s with
    | some set => set
    | none => r.reserved
  (rename set r.names, some set)

end RsslVerif.Model.History

import RsslVerif.Lemmas.ProjX
import RsslVerif.Lemmas.ElabPlace
/-! Lemmas for C03 (fix batch 2), extended language: `check_mutable_place` establishes `Spec.ElabX.MutablePlace`; a place
that projects from a base makes the base a place; projection chains of the source language elaborate to projections of the
elaborated base; inversions of the assignment arm, of `++` / `--` and of `write_function`. Core Lean only. -/
namespace RsslVerif.Lemmas.PlaceX
open RsslVerif.Gen.RankTable RsslVerif.Gen.TypingTables RsslVerif.Model.Conv RsslVerif.Model.Overload
open RsslVerif.Model.IrTyping (FuncSig opReturn boolOf)
open RsslVerif.Model.Elab (Err enforceIncrement isOutputParam)
open RsslVerif.Model.IrTypingX RsslVerif.Model.ElabX RsslVerif.Model.StmtX RsslVerif.Spec.ElabX
open RsslVerif.Lemmas.ElabConv RsslVerif.Lemmas.ElabX RsslVerif.Lemmas.ElabFormsX RsslVerif.Lemmas.ElabExactX
open RsslVerif.Lemmas.ElabNewX RsslVerif.Lemmas.ElabSoundX RsslVerif.Lemmas.ProjX

variable {Γ : Env}

/-! ## `TypeRegistry::is_const` and `is_object` against their specifications -/

theorem isConstTy_true : ∀ (f : Nat) (t : Ty), isConstTy Γ f t = some true → ConstTy Γ t
  | 0, _, h => by simp [isConstTy] at h
  | f + 1, t, h => by
    simp only [isConstTy] at h
    split at h
    · simp at h; exact .mod h
    · rename_i hm
      split at h
      · rename_i id hl
        split at h
        · rename_i elem len ho
          exact .array (by simpa using hm) hl ho (isConstTy_true f elem h)
        · simp at h
      · simp at h

theorem isConstTy_false : ∀ (f : Nat) (t : Ty), isConstTy Γ f t = some false → ¬ ConstTy Γ t
  | 0, _, h => by simp [isConstTy] at h
  | f + 1, t, h => by
    intro hc
    simp only [isConstTy] at h
    split at h
    · rename_i hm
      simp at h
      cases hc with
      | mod h1 => rw [h1] at h; simp at h
      | array hm' _ _ _ => exact hm hm'
    · rename_i hm
      have hm' : t.mod = {} := by simpa using hm
      have hnc : t.mod.isConst = false := by rw [hm']
      split at h
      · rename_i id hl
        split at h
        · rename_i elem len ho
          cases hc with
          | mod h1 => rw [h1] at hnc; simp at hnc
          | array _ hl' ho' hce =>
            rw [hl] at hl'
            simp at hl'; subst hl'
            rw [ho] at ho'
            simp at ho'; obtain ⟨rfl, _⟩ := ho'
            exact isConstTy_false f elem h hce
        · rename_i hna
          cases hc with
          | mod h1 => rw [h1] at hnc; simp at hnc
          | array _ hl' ho' _ =>
            rw [hl] at hl'
            simp at hl'; subst hl'
            exact hna _ _ ho'
      · rename_i hno
        cases hc with
        | mod h1 => rw [h1] at hnc; simp at hnc
        | array _ hl' _ _ => exact hno _ hl'

/-- a const type is never reported as non-const, whatever the fuel -/
theorem isConstTy_of_const {f : Nat} {t : Ty} (hc : ConstTy Γ t) : isConstTy Γ f t ≠ some false :=
  fun h => isConstTy_false f t h hc

theorem isObjectTy_iff {l : Layer} : isObjectTy Γ l = true ↔ IsObject Γ l := by
  constructor
  · intro h
    unfold isObjectTy at h
    split at h
    · rename_i id
      split at h
      · rename_i ho; exact ⟨id, rfl, Or.inl ho⟩
      · rename_i k e ho; exact ⟨id, rfl, Or.inr ⟨k, e, ho⟩⟩
      · simp at h
    · simp at h
  · rintro ⟨id, rfl, ho | ⟨k, e, ho⟩⟩ <;> simp [isObjectTy, ho]

/-! ## the judgment is functional; objects of projections are typed -/

theorem hasType_fun {e : IExpr} {τ τ' : ETy} (h : HasType Γ e τ) (h' : HasType Γ e τ') : τ = τ' := by
  have e1 := typeOf_of_hasType e τ h
  have e2 := typeOf_of_hasType e τ' h'
  rw [e1] at e2; simpa using e2

theorem hasType_member_obj {o : IExpr} {sid idx : Nat} {τ : ETy} (h : HasType Γ (.member o sid idx) τ) :
    ∃ τo, HasType Γ o τo := by
  cases h with
  | member ho _ _ _ => exact ⟨_, ho⟩

theorem hasType_swizzle_obj {o : IExpr} {slots : List Nat} {τ : ETy} (h : HasType Γ (.swizzle o slots) τ) :
    ∃ τo, HasType Γ o τo := by
  cases h with
  | swizzleS ho _ _ _ => exact ⟨_, ho⟩
  | swizzleV ho _ _ _ => exact ⟨_, ho⟩

theorem hasType_mswizzle_obj {o : IExpr} {slots : List (Nat × Nat)} {τ : ETy} (h : HasType Γ (.mswizzle o slots) τ) :
    ∃ τo, HasType Γ o τo := by
  cases h with
  | mswizzle ho _ _ _ => exact ⟨_, ho⟩

theorem hasType_index_obj {o i : IExpr} {τ : ETy} (h : HasType Γ (.index o i) τ) : ∃ τo, HasType Γ o τo := by
  cases h with
  | indexV ho _ _ => exact ⟨_, ho⟩
  | indexM ho _ _ => exact ⟨_, ho⟩
  | indexA ho _ _ _ => exact ⟨_, ho⟩
  | indexR ho _ _ _ _ => exact ⟨_, ho⟩

/-! ## `check_mutable_place` establishes `MutablePlace` -/

theorem placeStep_ok {e : IExpr} {τ : ETy} {k : Unit → Except Err Unit} (he : HasType Γ e τ)
    (h : placeStep Γ e k = .ok ()) : τ.vt = .lvalue ∧ ¬ ConstTy Γ τ.ty ∧ k () = .ok () := by
  unfold placeStep at h
  rw [typeOf_of_hasType e τ he] at h
  simp only at h
  split at h
  · simp at h
  · rename_i hv
    split at h
    · simp at h
    · simp at h
    · rename_i hc
      exact ⟨by simpa using hv, isConstTy_false _ _ hc, h⟩

/-- a step of the loop never succeeds on an rvalue or on a const type -/
theorem placeStep_fails {e : IExpr} {τ : ETy} {k : Unit → Except Err Unit} (he : HasType Γ e τ)
    (hbad : τ.vt = .rvalue ∨ ConstTy Γ τ.ty) : placeStep Γ e k ≠ .ok () := by
  intro h
  obtain ⟨hv, hc, _⟩ := placeStep_ok he h
  rcases hbad with hr | hcc
  · rw [hr] at hv; simp at hv
  · exact hc hcc

theorem checkMutablePlace_sound : ∀ (e : IExpr) (τ : ETy), HasType Γ e τ → checkMutablePlace Γ e = .ok () →
    MutablePlace Γ e
  | .member o sid idx, τ, he, h => by
    simp only [checkMutablePlace] at h
    obtain ⟨hv, hc, hk⟩ := placeStep_ok he h
    obtain ⟨τo, ho⟩ := hasType_member_obj he
    exact .member he hv hc (checkMutablePlace_sound o τo ho hk)
  | .swizzle o slots, τ, he, h => by
    simp only [checkMutablePlace] at h
    obtain ⟨hv, hc, hk⟩ := placeStep_ok he h
    obtain ⟨τo, ho⟩ := hasType_swizzle_obj he
    exact .swizzle he hv hc (checkMutablePlace_sound o τo ho hk)
  | .mswizzle o slots, τ, he, h => by
    simp only [checkMutablePlace] at h
    obtain ⟨hv, hc, hk⟩ := placeStep_ok he h
    obtain ⟨τo, ho⟩ := hasType_mswizzle_obj he
    exact .mswizzle he hv hc (checkMutablePlace_sound o τo ho hk)
  | .index o i, τ, he, h => by
    simp only [checkMutablePlace] at h
    obtain ⟨hv, hc, hk⟩ := placeStep_ok he h
    obtain ⟨τo, ho⟩ := hasType_index_obj he
    simp only [typeOf_of_hasType o τo ho] at hk
    by_cases hob : isObjectTy Γ τo.ty.layer = true
    · exact .resourceElement he hv hc ho (isObjectTy_iff.mp hob)
    · simp only [hob] at hk
      exact .element he hv hc ho (fun hh => hob (isObjectTy_iff.mpr hh)) (checkMutablePlace_sound o τo ho hk)
  | .lit k, τ, he, h => by
    simp only [checkMutablePlace] at h
    obtain ⟨hv, hc, _⟩ := placeStep_ok he h
    exact .root he hv hc rfl
  | .var i, τ, he, h => by
    simp only [checkMutablePlace] at h
    obtain ⟨hv, hc, _⟩ := placeStep_ok he h
    exact .root he hv hc rfl
  | .tern c a b, τ, he, h => by
    simp only [checkMutablePlace] at h
    obtain ⟨hv, hc, _⟩ := placeStep_ok he h
    exact .root he hv hc rfl
  | .seq a b, τ, he, h => by
    simp only [checkMutablePlace] at h
    obtain ⟨hv, hc, _⟩ := placeStep_ok he h
    exact .root he hv hc rfl
  | .call f args, τ, he, h => by
    simp only [checkMutablePlace] at h
    obtain ⟨hv, hc, _⟩ := placeStep_ok he h
    exact .root he hv hc rfl
  | .cast t e, τ, he, h => by
    simp only [checkMutablePlace] at h
    obtain ⟨hv, hc, _⟩ := placeStep_ok he h
    exact .root he hv hc rfl
  | .op o args, τ, he, h => by
    simp only [checkMutablePlace] at h
    obtain ⟨hv, hc, _⟩ := placeStep_ok he h
    exact .root he hv hc rfl
  | .ctor t ar args, τ, he, h => by
    simp only [checkMutablePlace] at h
    obtain ⟨hv, hc, _⟩ := placeStep_ok he h
    exact .root he hv hc rfl

/-! ## places and projections -/

/-- a place is itself a non-const lvalue -/
theorem place_base {b : IExpr} {τ : ETy} (hp : MutablePlace Γ b) (hb : HasType Γ b τ) :
    τ.vt = .lvalue ∧ ¬ ConstTy Γ τ.ty := by
  cases hp with
  | member h hv hc _ => have := hasType_fun hb h; subst this; exact ⟨hv, hc⟩
  | swizzle h hv hc _ => have := hasType_fun hb h; subst this; exact ⟨hv, hc⟩
  | mswizzle h hv hc _ => have := hasType_fun hb h; subst this; exact ⟨hv, hc⟩
  | element h hv hc _ _ _ => have := hasType_fun hb h; subst this; exact ⟨hv, hc⟩
  | resourceElement h hv hc _ _ => have := hasType_fun hb h; subst this; exact ⟨hv, hc⟩
  | root h hv hc _ => have := hasType_fun hb h; subst this; exact ⟨hv, hc⟩

/-- **every object a place projects from is a place** (as long as no buffer / texture is subscripted on the way) -/
theorem place_of_proj {e b : IExpr} (hp : ProjOf Γ e b) : MutablePlace Γ e → MutablePlace Γ b := by
  induction hp with
  | refl => exact id
  | member _ ih =>
    intro h
    cases h with
    | member _ _ _ ho => exact ih ho
    | root _ _ _ hpj => simp [isProjection] at hpj
  | swizzle _ ih =>
    intro h
    cases h with
    | swizzle _ _ _ ho => exact ih ho
    | root _ _ _ hpj => simp [isProjection] at hpj
  | mswizzle _ ih =>
    intro h
    cases h with
    | mswizzle _ _ _ ho => exact ih ho
    | root _ _ _ hpj => simp [isProjection] at hpj
  | index _ hno ih =>
    intro h
    cases h with
    | element _ _ _ _ _ ho => exact ih ho
    | resourceElement _ _ _ hto hob => exact absurd hob (hno _ hto)
    | root _ _ _ hpj => simp [isProjection] at hpj

theorem projOf_trans {e m b : IExpr} (h1 : ProjOf Γ e m) (h2 : ProjOf Γ m b) : ProjOf Γ e b := by
  induction h1 with
  | refl => exact h2
  | member _ ih => exact .member (ih h2)
  | swizzle _ ih => exact .swizzle (ih h2)
  | mswizzle _ ih => exact .mswizzle (ih h2)
  | index _ hno ih => exact .index (ih h2) hno

/-- a place does not project from an rvalue or from a const object -/
theorem not_place_of_bad_base {e b : IExpr} {τ0 : ETy} (hp : ProjOf Γ e b) (hb : HasType Γ b τ0)
    (hbad : τ0.vt = .rvalue ∨ ConstTy Γ τ0.ty) : ¬ MutablePlace Γ e := by
  intro h
  obtain ⟨hv, hc⟩ := place_base (place_of_proj hp h) hb
  rcases hbad with hr | hcc
  · rw [hr] at hv; simp at hv
  · exact hc hcc

/-! ## source projection chains elaborate to projections of the elaborated base -/

/-- no subscript of the chain is applied to a buffer / texture (whose elements are not part of the value of the variable
    that holds the handle: `RWStructuredBuffer<float4> b; b[i].x = ..` writes through a read-only handle) -/
def NoResourceStep (dbg : Bool) (Γ : Env) : SExpr → List Proj → Prop
  | _, [] => True
  | e, .member n :: ps => NoResourceStep dbg Γ (.member e n) ps
  | e, .index i :: ps =>
    (∀ e' τ, elabE dbg Γ e = .ok (e', τ) → ¬ IsObject Γ τ.ty.layer) ∧ NoResourceStep dbg Γ (.index e i) ps

/-- chains of `.name` steps never subscript anything -/
theorem noResourceStep_members {dbg : Bool} : ∀ (names : List String) (e : SExpr),
    NoResourceStep dbg Γ e (memberChain names)
  | [], _ => trivial
  | n :: names, e => by
    simp only [memberChain, List.map, NoResourceStep]
    exact noResourceStep_members names (.member e n)

/-- numeric values are not objects -/
theorem numeric_not_object {l : Layer} (h : l.isNumeric = true) : ¬ IsObject Γ l := by
  rintro ⟨id, rfl, _⟩
  simp [Layer.isNumeric] at h

theorem elabMember_shape {name : String} {e n : IExpr} {τ τ' : ETy} (h : elabMember Γ name e τ = .ok (n, τ')) :
    ProjOf Γ n e := by
  unfold elabMember at h
  repeat' split at h
  all_goals (first | (simp at h; done) | skip)
  all_goals (simp only [Except.ok.injEq, Prod.mk.injEq] at h; obtain ⟨rfl, _⟩ := h)
  · exact .member (.refl _)
  · exact .swizzle (.refl _)
  · exact .swizzle (.refl _)
  · exact .mswizzle (.refl _)

theorem step_projOf {dbg : Bool} {e : SExpr} {p : Proj} {e0 : IExpr} {τ0 : ETy} {r : IExpr × ETy}
    (h0 : elabE dbg Γ e = .ok (e0, τ0)) (hn : NoResourceStep dbg Γ e [p])
    (h : elabE dbg Γ (applyProj e p) = .ok r) : ProjOf Γ r.1 e0 := by
  cases p with
  | member name =>
    obtain ⟨e1, τ1, n, τ', h1, hm, rfl⟩ := elabE_member_inv h
    rw [h0] at h1; simp at h1; obtain ⟨rfl, rfl⟩ := h1
    exact elabMember_shape hm
  | index i =>
    obtain ⟨a1, τa, i0, τi, n, τ', h1, hi, hx, rfl⟩ := elabE_index_inv h
    rw [h0] at h1; simp at h1; obtain ⟨rfl, rfl⟩ := h1
    obtain ⟨i', _, _, rfl, _, _, _⟩ := elabIndex_index_exact (elab_sound_any dbg i _ _ hi) hx
    refine .index (.refl _) ?_
    intro τo hto
    have := hasType_fun hto (elab_sound_any dbg e _ _ h0)
    subst this
    exact hn.1 _ _ h0

theorem noResourceStep_head {dbg : Bool} {e : SExpr} {p : Proj} {ps : List Proj}
    (h : NoResourceStep dbg Γ e (p :: ps)) :
    NoResourceStep dbg Γ e [p] ∧ NoResourceStep dbg Γ (applyProj e p) ps := by
  cases p with
  | member n => exact ⟨trivial, h⟩
  | index i => exact ⟨⟨h.1, trivial⟩, h.2⟩

/-- **the elaboration of `base.p₁.p₂…` projects from the elaboration of `base`** -/
theorem chain_projOf {dbg : Bool} : ∀ (ps : List Proj) (e : SExpr) (e0 : IExpr) (τ0 : ETy) (r : IExpr × ETy),
    elabE dbg Γ e = .ok (e0, τ0) → NoResourceStep dbg Γ e ps → elabE dbg Γ (applyChain e ps) = .ok r →
    ProjOf Γ r.1 e0
  | [], e, e0, τ0, r, h0, _, h => by
    simp only [applyChain] at h
    rw [h0] at h; simp at h; subst h; exact .refl _
  | p :: ps, e, e0, τ0, r, h0, hn, h => by
    simp only [applyChain] at h
    obtain ⟨hn1, hn2⟩ := noResourceStep_head hn
    obtain ⟨⟨e1, τ1⟩, h1⟩ := chain_base_ok ps (applyProj e p) r h
    exact projOf_trans (chain_projOf ps (applyProj e p) e1 τ1 r h1 hn2 h) (step_projOf h0 hn1 h1)

/-! ## inversions -/

/-- an accepted assignment ran `check_mutable_place` on its elaborated target -/
theorem elabE_assign_inv {dbg : Bool} {o : BinOp} {a b : SExpr} {r : IExpr × ETy} (ho : o.cls = .assign)
    (h : elabE dbg Γ (.bin o a b) = .ok r) :
    ∃ a' τa, elabE dbg Γ a = .ok (a', τa) ∧ checkMutablePlace Γ a' = .ok () := by
  simp only [elabE] at h
  split at h
  · simp at h
  · rename_i a1 τa ha
    split at h
    · simp at h
    · rename_i b1 τb hb
      simp only [ho] at h
      split at h
      · simp at h
      · rename_i n τn hn
        refine ⟨a1, τa, ha, ?_⟩
        unfold elabAssign at hn
        split at hn
        · simp at hn
        · split at hn
          · simp at hn
          · split at hn
            · simp at hn
            · rename_i hp; exact hp

/-- an accepted `++` / `--` ran `check_mutable_place` on its elaborated operand -/
theorem elabE_incr_inv {dbg : Bool} {o : UnOp} {e : SExpr} {r : IExpr × ETy}
    (ho : o = .prefixIncrement ∨ o = .prefixDecrement ∨ o = .postfixIncrement ∨ o = .postfixDecrement)
    (h : elabE dbg Γ (.un o e) = .ok r) :
    ∃ e' τ, elabE dbg Γ e = .ok (e', τ) ∧ checkMutablePlace Γ e' = .ok () := by
  simp only [elabE] at h
  split at h
  · simp at h
  · rename_i e1 τ1 h1
    split at h
    · simp at h
    · rename_i n τn hn
      refine ⟨e1, τ1, h1, ?_⟩
      rcases ho with rfl | rfl | rfl | rfl <;>
      · simp only [elabUn] at hn
        split at hn
        · simp at hn
        · split at hn
          · simp at hn
          · rename_i hp; exact hp

/-- inversion of `write_function` -/
theorem elabCall_inv {name : Nat} {args : IArgs} {ts : List ETy} {n : IExpr} {τ : ETy}
    (h : elabCall Γ name args ts = .ok (n, τ)) :
    ∃ id s as', resolve (candidates Γ name) ts = .selected id ∧ Γ.funcs[id]? = some s ∧
      castArgs s.params args ts = .ok as' ∧ checkOutArgs Γ s.params as' = .ok () ∧ n = .call id as' ∧ τ = s.ret.r := by
  unfold elabCall at h
  split at h
  · simp at h
  · simp at h
  · simp at h
  · rename_i id hsel
    split at h
    · simp at h
    · rename_i s hs
      split at h
      · simp at h
      · rename_i as' hca
        split at h
        · simp at h
        · rename_i hco
          simp only [Except.ok.injEq, Prod.mk.injEq] at h
          obtain ⟨rfl, rfl⟩ := h
          exact ⟨id, s, as', hsel, hs, hca, hco, rfl, rfl⟩

theorem elabE_call_inv {dbg : Bool} {name : Nat} {args : SArgs} {r : IExpr × ETy}
    (h : elabE dbg Γ (.call name args) = .ok r) :
    ∃ as1 ts, elabArgs dbg Γ args = .ok (as1, ts) ∧ elabCall Γ name as1 ts = .ok r := by
  simp only [elabE] at h
  split at h
  · simp at h
  · split at h
    · simp at h
    · split at h
      · simp at h
      · rename_i as1 ts ha
        split at h
        · simp at h
        · rename_i n τn hn
          obtain ⟨r1, r2⟩ := r
          obtain ⟨h1, h2⟩ := selfCheck_type h
          exact ⟨as1, ts, ha, by rw [hn, h1, h2]⟩

theorem checkOutArgs_places : ∀ (ps : List Param) (as : IArgs) (us : List ETy),
    HasArgs Γ as us → checkOutArgs Γ ps as = .ok () → OutArgsPlaces Γ ps as
  | [], _, _, _, _ => by simp [OutArgsPlaces]
  | _ :: _, .nil, _, _, _ => by simp [OutArgsPlaces]
  | p :: ps, .cons e r, _, hu, h => by
    cases hu with
    | cons he hr =>
      simp only [checkOutArgs] at h
      simp only [OutArgsPlaces]
      by_cases hio : isOutputParam p.io = true
      · simp only [hio, if_true] at h
        split at h
        · simp at h
        · rename_i hp
          exact ⟨fun _ => checkMutablePlace_sound e _ he hp, checkOutArgs_places ps r _ hr h⟩
      · simp only [hio] at h
        refine ⟨fun hh => absurd ?_ hio, checkOutArgs_places ps r _ hr (by simpa using h)⟩
        rw [RsslVerif.Lemmas.ElabPlace.isOutputParam_eq]; exact hh

/-- the argument at an `out` / `inout` position was checked -/
theorem checkOutArgs_get : ∀ (ps : List Param) (as : IArgs) (i : Nat) (p : Param) (e : IExpr),
    checkOutArgs Γ ps as = .ok () → ps[i]? = some p → as.toList[i]? = some e → p.io.needsLvalue = true →
    checkMutablePlace Γ e = .ok ()
  | [], _, i, p, e, _, hp, _, _ => by simp at hp
  | _ :: _, .nil, i, p, e, _, _, he, _ => by simp [IArgs.toList] at he
  | q :: ps, .cons a r, i, p, e, h, hp, he, hio => by
    simp only [checkOutArgs] at h
    cases i with
    | zero =>
      simp at hp; simp [IArgs.toList] at he; subst hp he
      rw [RsslVerif.Lemmas.ElabPlace.isOutputParam_eq, hio] at h
      simp only [if_true] at h
      split at h
      · simp at h
      · rename_i hp; exact hp
    | succ j =>
      simp at hp; simp [IArgs.toList] at he
      have hrest : checkOutArgs Γ ps r = .ok () := by
        split at h
        · split at h
          · simp at h
          · exact h
        · exact h
      exact checkOutArgs_get ps r j p e hrest hp he hio

/-- the cast argument at position `i` is the conversion of the elaborated argument at position `i` -/
theorem castArgs_get : ∀ (ps : List Param) (as : IArgs) (ts : List ETy) (as' : IArgs) (i : Nat) (p : Param) (e : IExpr) (t : ETy),
    castArgs ps as ts = .ok as' → ps[i]? = some p → as.toList[i]? = some e → ts[i]? = some t →
    ∃ e' t', as'.toList[i]? = some e' ∧ convert e t p.ety = .ok (some (e', t'))
  | q :: ps, .cons a r, u :: ts, as', i, p, e, t, h, hp, he, ht => by
    simp only [castArgs] at h
    split at h
    · simp at h
    · simp at h
    · rename_i a' t' hc
      split at h
      · simp at h
      · rename_i r' hr'
        simp at h; subst h
        cases i with
        | zero =>
          simp at hp ht; simp [IArgs.toList] at he; subst hp he ht
          exact ⟨a', t', by simp [IArgs.toList], hc⟩
        | succ j =>
          simp at hp ht; simp [IArgs.toList] at he
          obtain ⟨e', t'', h1, h2⟩ := castArgs_get ps r ts r' j p e t hr' hp he ht
          exact ⟨e', t'', by simpa [IArgs.toList] using h1, h2⟩
  | _, .nil, [], _, i, _, _, _, _, _, he, _ => by simp [IArgs.toList] at he
  | [], .cons _ _, _ :: _, _, _, _, _, _, h, _, _, _ => by simp [castArgs] at h
  | _, .cons _ _, [], _, _, _, _, _, h, _, _, _ => by simp [castArgs] at h
  | _, .nil, _ :: _, _, _, _, _, _, h, _, _, _ => by simp [castArgs] at h

def SArgs.toList : SArgs → List SExpr
  | .nil => []
  | .cons e r => e :: SArgs.toList r

theorem elabArgs_get {dbg : Bool} : ∀ (args : SArgs) (args' : IArgs) (ts : List ETy) (i : Nat) (e : SExpr),
    elabArgs dbg Γ args = .ok (args', ts) → (SArgs.toList args)[i]? = some e →
    ∃ e' τ, elabE dbg Γ e = .ok (e', τ) ∧ ts[i]? = some τ ∧ args'.toList[i]? = some e'
  | .nil, _, _, i, e, _, hi => by simp [SArgs.toList] at hi
  | .cons a r, args', ts, i, e, h, hi => by
    simp only [elabArgs] at h
    split at h
    · simp at h
    · rename_i a1 τ1 h1
      split at h
      · simp at h
      · rename_i r1 ts1 hr
        simp at h; obtain ⟨rfl, rfl⟩ := h
        cases i with
        | zero =>
          simp [SArgs.toList] at hi; subst hi
          exact ⟨a1, τ1, h1, by simp, by simp [IArgs.toList]⟩
        | succ j =>
          simp [SArgs.toList] at hi
          obtain ⟨e', τ, he, ht, ha⟩ := elabArgs_get r r1 ts1 j e hr hi
          exact ⟨e', τ, he, by simpa using ht, by simpa [IArgs.toList] using ha⟩

/-- a converted argument that is a place is the argument itself: `apply` only ever adds rvalue nodes -/
theorem place_not_converted {e e' : IExpr} {s d t : ETy} (he : HasType Γ e s)
    (hc : convert e s d = .ok (some (e', t))) (hp : MutablePlace Γ e') : e' = e := by
  obtain ⟨_, τ', h1, _, hor⟩ := convert_type he hc
  rcases hor with ⟨rfl, _⟩ | hr
  · rfl
  · obtain ⟨hv, _⟩ := place_base hp h1
    rw [hr] at hv; simp at hv

end RsslVerif.Lemmas.PlaceX

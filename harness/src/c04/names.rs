//! C04.names: name resolution of the emitted paths, entity by entity.
//!
//! request : C04.names \t <descriptor> \t <printed names>
//!   descriptor (tokens separated by one space), declarations in source order:
//!     ns N .. end            namespace N { .. }                      (nested, reopened, any name again)
//!     gv N                   static int N = <1000+id>;
//!     fn N P .. end          int N(int P) { int r_ = <1000+id>; .. return r_; }      (P = `-`: the parameter is `p_`)
//!     st N .. end            struct N { int a_; int i<1000+id>; int m_() { int r_ = 0; .. return a_; } };
//!     en N V .. end          enum N { V = <1000+id+1>, .. };
//!     td N <b> q .. ;        typedef PATH N;
//!     lv N                   int N = <1000+id>;                     (in a body)
//!     bl .. end              { .. }                                 (in a body)
//!     uv|uf|ut|ue|uy <b> q .. ;   a use of PATH in a body, K = 100000 + ordinal of the use:
//!                            `PATH = K;` | `r_ = PATH(K);` | `PATH tK; tK.a_ = K;` | `int eK = (int)PATH;` | `PATH yK = (PATH)0;`
//!     ug <b> q .. ;          static PATH gK;                         (a use at namespace level)
//!   <b> = `a` (`::`-prefixed) or `r` (relative); ids count the declared entities in order (fn: function and parameter,
//!   en: the enum and each value)
//!   printed names: the name the first generation prints for every ns / gv / fn + parameter / st / en + values / td / lv of
//!   the descriptor, in order (`-` = not printed); recomputed on replay (`?` as the whole field)
//! observe : `g1:u0=<e>,u1=<e>,.. g2:u0=<e>,..` — the entity every use refers to in the text of the first generation and
//!           in the text the compiler emits for that text (`v<id>` global / enum value, `f<id>` function, `t<id>` struct /
//!           enum, `l<id>` local / parameter), read from the emitted text alone: every declaration carries its id as a
//!           constant, every use its ordinal; `g2:reject` when the emitted text is refused; `g1:reject` when the source is.
//!           The Lean model (`Model.FixpointNames.predict`) predicts this string from the descriptor: its own table of
//!           scopes, `find_identifier` with the full-path retry on every enclosing scope, the emitted root-relative paths.
//! oracle  : (the property's own words) the emitted text is accepted by the front end and compiling it again gives the
//!           same bytes.  When it fails, the detail names — from the harness's own scope simulation of the exported
//!           program — the first use whose emitted path meets another entity first (`[names: captured ..]`): the class
//!           of the known finding "qualified names are printed relative".
use crate::compile_util::*;
use crate::util::*;

// ------------------------------------------------------------------------------------------------ descriptor

#[derive(Clone, Debug, PartialEq)]
pub struct Path {
    pub abs: bool,
    pub segs: Vec<String>,
}

impl Path {
    fn text(&self) -> String {
        format!("{}{}", if self.abs { "::" } else { "" }, self.segs.join("::"))
    }
    fn tokens(&self) -> String {
        format!("{} {} ;", if self.abs { "a" } else { "r" }, self.segs.join(" "))
    }
}

#[derive(Clone, Copy, Debug, PartialEq, Eq)]
pub enum UKind {
    V,
    F,
    T,
    E,
    Y,
    G,
}

impl UKind {
    fn token(self) -> &'static str {
        match self {
            UKind::V => "uv",
            UKind::F => "uf",
            UKind::T => "ut",
            UKind::E => "ue",
            UKind::Y => "uy",
            UKind::G => "ug",
        }
    }
    fn parse(t: &str) -> Option<UKind> {
        Some(match t {
            "uv" => UKind::V,
            "uf" => UKind::F,
            "ut" => UKind::T,
            "ue" => UKind::E,
            "uy" => UKind::Y,
            "ug" => UKind::G,
            _ => return None,
        })
    }
    fn name(self) -> &'static str {
        match self {
            UKind::V => "var",
            UKind::F => "fn",
            UKind::T | UKind::G => "struct",
            UKind::E => "enumval",
            UKind::Y => "enum",
        }
    }
}

#[derive(Clone, Debug, PartialEq)]
pub enum Node {
    Ns(String, Vec<Node>),
    Gv(String),
    Fn(String, String, Vec<Node>),
    St(String, Vec<Node>),
    En(String, Vec<String>),
    Td(String, Path),
    Lv(String),
    Bl(Vec<Node>),
    Use(UKind, Path),
}

pub fn tokens(nodes: &[Node]) -> String {
    let mut v: Vec<String> = Vec::new();
    fn go(nodes: &[Node], v: &mut Vec<String>) {
        for n in nodes {
            match n {
                Node::Ns(name, items) => {
                    v.push(format!("ns {}", name));
                    go(items, v);
                    v.push("end".into());
                }
                Node::Gv(name) => v.push(format!("gv {}", name)),
                Node::Fn(name, p, body) => {
                    v.push(format!("fn {} {}", name, p));
                    go(body, v);
                    v.push("end".into());
                }
                Node::St(name, body) => {
                    v.push(format!("st {}", name));
                    go(body, v);
                    v.push("end".into());
                }
                Node::En(name, vals) => v.push(format!("en {} {} end", name, vals.join(" "))),
                Node::Td(name, p) => v.push(format!("td {} {}", name, p.tokens())),
                Node::Lv(name) => v.push(format!("lv {}", name)),
                Node::Bl(body) => {
                    v.push("bl".into());
                    go(body, v);
                    v.push("end".into());
                }
                Node::Use(k, p) => v.push(format!("{} {}", k.token(), p.tokens())),
            }
        }
    }
    go(nodes, &mut v);
    v.join(" ")
}

fn parse_path(toks: &[&str], i: &mut usize) -> Option<Path> {
    let abs = match *toks.get(*i)? {
        "a" => true,
        "r" => false,
        _ => return None,
    };
    *i += 1;
    let mut segs = Vec::new();
    while *toks.get(*i)? != ";" {
        segs.push(toks[*i].to_string());
        *i += 1;
    }
    *i += 1;
    if segs.is_empty() {
        return None;
    }
    Some(Path { abs, segs })
}

fn parse_nodes(toks: &[&str], i: &mut usize, top: bool) -> Option<Vec<Node>> {
    let mut out = Vec::new();
    loop {
        let Some(t) = toks.get(*i) else {
            return if top { Some(out) } else { None };
        };
        *i += 1;
        match *t {
            "end" => return if top { None } else { Some(out) },
            "ns" => {
                let n = toks.get(*i)?.to_string();
                *i += 1;
                out.push(Node::Ns(n, parse_nodes(toks, i, false)?));
            }
            "gv" => {
                out.push(Node::Gv(toks.get(*i)?.to_string()));
                *i += 1;
            }
            "lv" => {
                out.push(Node::Lv(toks.get(*i)?.to_string()));
                *i += 1;
            }
            "fn" => {
                let n = toks.get(*i)?.to_string();
                let p = toks.get(*i + 1)?.to_string();
                *i += 2;
                out.push(Node::Fn(n, p, parse_nodes(toks, i, false)?));
            }
            "st" => {
                let n = toks.get(*i)?.to_string();
                *i += 1;
                out.push(Node::St(n, parse_nodes(toks, i, false)?));
            }
            "bl" => out.push(Node::Bl(parse_nodes(toks, i, false)?)),
            "en" => {
                let n = toks.get(*i)?.to_string();
                *i += 1;
                let mut vals = Vec::new();
                while *toks.get(*i)? != "end" {
                    vals.push(toks[*i].to_string());
                    *i += 1;
                }
                *i += 1;
                out.push(Node::En(n, vals));
            }
            "td" => {
                let n = toks.get(*i)?.to_string();
                *i += 1;
                out.push(Node::Td(n, parse_path(toks, i)?));
            }
            other => {
                let k = UKind::parse(other)?;
                out.push(Node::Use(k, parse_path(toks, i)?));
            }
        }
    }
}

pub fn parse(desc: &str) -> Option<Vec<Node>> {
    let toks: Vec<&str> = desc.split(' ').filter(|t| !t.is_empty()).collect();
    let mut i = 0;
    parse_nodes(&toks, &mut i, true)
}

fn is_name(s: &str) -> bool {
    let mut it = s.chars();
    match it.next() {
        Some(c) if c.is_ascii_alphabetic() => it.all(|c| c.is_ascii_alphanumeric() || c == '_'),
        _ => false,
    }
}

/// the names of a descriptor are identifiers the renderer does not use itself
fn well_formed(nodes: &[Node]) -> bool {
    fn ok(n: &str) -> bool {
        is_name(n)
            && !["r_", "p_", "a_", "m_", "end", "int", "static", "struct", "enum", "namespace", "typedef", "return"].contains(&n)
            && !((n.starts_with('t') || n.starts_with('e') || n.starts_with('y') || n.starts_with('g') || n.starts_with('i'))
                && n.len() > 4
                && n[1..].chars().all(|c| c.is_ascii_digit()))
    }
    nodes.iter().all(|n| match n {
        Node::Ns(n, b) | Node::St(n, b) => ok(n) && well_formed(b),
        Node::Fn(n, p, b) => ok(n) && (p == "-" || ok(p)) && well_formed(b),
        Node::Gv(n) | Node::Lv(n) => ok(n),
        Node::En(n, vs) => ok(n) && !vs.is_empty() && vs.iter().all(|v| ok(v)),
        Node::Td(n, p) => ok(n) && p.segs.iter().all(|s| ok(s)),
        Node::Bl(b) => well_formed(b),
        Node::Use(_, p) => p.segs.iter().all(|s| ok(s) || (s == "p_" && p.segs.len() == 1)),
    })
}

// ------------------------------------------------------------------------------------------------ source text

pub fn render(nodes: &[Node]) -> String {
    let mut s = String::new();
    let mut id = 0usize;
    let mut k = 0usize;
    fn ind(s: &mut String, d: usize) {
        for _ in 0..d {
            s.push_str("    ");
        }
    }
    fn go(nodes: &[Node], d: usize, s: &mut String, id: &mut usize, k: &mut usize) {
        for n in nodes {
            match n {
                Node::Ns(name, items) => {
                    ind(s, d);
                    s.push_str(&format!("namespace {} {{\n", name));
                    go(items, d + 1, s, id, k);
                    ind(s, d);
                    s.push_str("}\n");
                }
                Node::Gv(name) => {
                    ind(s, d);
                    s.push_str(&format!("static int {} = {};\n", name, 1000 + *id));
                    *id += 1;
                }
                Node::Fn(name, p, body) => {
                    ind(s, d);
                    let p = if p == "-" { "p_" } else { p.as_str() };
                    s.push_str(&format!("int {}(int {}) {{\n", name, p));
                    ind(s, d + 1);
                    s.push_str(&format!("int r_ = {};\n", 1000 + *id));
                    *id += 2;
                    go(body, d + 1, s, id, k);
                    ind(s, d + 1);
                    s.push_str("return r_;\n");
                    ind(s, d);
                    s.push_str("}\n");
                }
                Node::St(name, body) => {
                    ind(s, d);
                    s.push_str(&format!("struct {} {{\n", name));
                    ind(s, d + 1);
                    s.push_str("int a_;\n");
                    ind(s, d + 1);
                    s.push_str(&format!("int i{};\n", 1000 + *id));
                    *id += 1;
                    ind(s, d + 1);
                    s.push_str("int m_() {\n");
                    ind(s, d + 2);
                    s.push_str("int r_ = 0;\n");
                    go(body, d + 2, s, id, k);
                    ind(s, d + 2);
                    s.push_str("return a_;\n");
                    ind(s, d + 1);
                    s.push_str("}\n");
                    ind(s, d);
                    s.push_str("};\n");
                }
                Node::En(name, vals) => {
                    ind(s, d);
                    let mut parts = Vec::new();
                    for (j, v) in vals.iter().enumerate() {
                        if j == 0 {
                            parts.push(format!("{} = {}", v, 1000 + *id + 1));
                        } else {
                            parts.push(v.clone());
                        }
                    }
                    s.push_str(&format!("enum {} {{ {} }};\n", name, parts.join(", ")));
                    *id += 1 + vals.len();
                }
                Node::Td(name, p) => {
                    ind(s, d);
                    s.push_str(&format!("typedef {} {};\n", p.text(), name));
                }
                Node::Lv(name) => {
                    ind(s, d);
                    s.push_str(&format!("int {} = {};\n", name, 1000 + *id));
                    *id += 1;
                }
                Node::Bl(body) => {
                    ind(s, d);
                    s.push_str("{\n");
                    go(body, d + 1, s, id, k);
                    ind(s, d);
                    s.push_str("}\n");
                }
                Node::Use(kind, p) => {
                    let kk = 100000 + *k;
                    *k += 1;
                    ind(s, d);
                    let t = p.text();
                    match kind {
                        UKind::V => s.push_str(&format!("{} = {};\n", t, kk)),
                        UKind::F => s.push_str(&format!("r_ = {}({});\n", t, kk)),
                        UKind::T => {
                            s.push_str(&format!("{} t{};\n", t, kk));
                            ind(s, d);
                            s.push_str(&format!("t{}.a_ = {};\n", kk, kk));
                        }
                        UKind::E => s.push_str(&format!("int e{} = (int){};\n", kk, t)),
                        UKind::Y => s.push_str(&format!("{} y{} = ({})0;\n", t, kk, t)),
                        UKind::G => s.push_str(&format!("static {} g{};\n", t, kk)),
                    }
                }
            }
        }
    }
    go(nodes, 0, &mut s, &mut id, &mut k);
    s
}

// ------------------------------------------------------------------------------------------------ the harness's own scope simulation
// (independent of the Lean model: used to generate accepted programs, to say which sources must be accepted, and to
//  name the capture behind a failing fixpoint)

#[derive(Clone, Debug, PartialEq)]
enum Sym {
    Fn(usize),
    Val(usize),
    Ty(usize),
    NsScope(usize),
    EnumScope(usize),
}

#[derive(Clone, Debug, PartialEq)]
pub enum Res {
    Loc(usize),
    Fns(Vec<usize>),
    Val(usize),
    Member(String),
    Ty(usize),
}

impl Res {
    fn id(&self) -> Option<usize> {
        match self {
            Res::Loc(i) | Res::Val(i) | Res::Ty(i) => Some(*i),
            Res::Fns(v) if v.len() == 1 => Some(v[0]),
            _ => None,
        }
    }
    fn show(&self) -> String {
        match self {
            Res::Loc(i) => format!("l{}", i),
            Res::Fns(v) => format!("f{}", v.iter().map(|x| x.to_string()).collect::<Vec<_>>().join("+")),
            Res::Val(i) => format!("v{}", i),
            Res::Member(n) => format!("m:{}", n),
            Res::Ty(i) => format!("t{}", i),
        }
    }
}

#[derive(Clone, Debug, Default)]
struct Scope {
    parent: Option<usize>,
    vars: Vec<(String, usize)>,
    syms: Vec<(String, Vec<Sym>)>,
    members: Option<Vec<String>>,
}

#[derive(Clone, Copy, Debug, PartialEq, Eq)]
pub enum EKind {
    Gvar,
    Func,
    Param,
    Struct,
    Enum,
    EnumVal,
    Local,
}

impl EKind {
    fn name(self) -> &'static str {
        match self {
            EKind::Gvar => "var",
            EKind::Func => "fn",
            EKind::Param | EKind::Local => "local",
            EKind::Struct => "struct",
            EKind::Enum => "enum",
            EKind::EnumVal => "enumval",
        }
    }
}

#[derive(Clone, Debug)]
pub struct Ent {
    pub kind: EKind,
    /// full path from the root (locals: the name alone)
    pub path: Vec<String>,
}

#[derive(Clone, Debug)]
pub struct UseRec {
    pub kind: UKind,
    pub scope: usize,
    pub path: Path,
    pub res: Option<Res>,
    /// the lookup discipline of "stop at the innermost scope that declares the first qualifier" gives another answer
    pub stop_differs: bool,
}

/// `namespace A {} enum E { A };` - refused with "redefinition of 'A'" (as the reverse order always was)
pub const EN_VALUE_NAMESPACE: &str = "enum value named like a namespace of its scope";

#[derive(Clone, Debug)]
pub struct Sim {
    scopes: Vec<Scope>,
    cur: usize,
    pub ents: Vec<Ent>,
    ns_stack: Vec<String>,
    pub uses: Vec<UseRec>,
    pub tds: Vec<Option<Res>>,
    /// first reason why the front end must refuse the program
    pub invalid: Option<String>,
}

impl Sim {
    pub fn new() -> Sim {
        Sim {
            scopes: vec![Scope::default()],
            cur: 0,
            ents: Vec::new(),
            ns_stack: Vec::new(),
            uses: Vec::new(),
            tds: Vec::new(),
            invalid: None,
        }
    }
    fn syms_of(&self, scope: usize, name: &str) -> &[Sym] {
        for (k, v) in &self.scopes[scope].syms {
            if k == name {
                return v;
            }
        }
        &[]
    }
    fn push_sym(&mut self, scope: usize, name: &str, s: Sym) {
        for (k, v) in self.scopes[scope].syms.iter_mut() {
            if k == name {
                v.push(s);
                return;
            }
        }
        self.scopes[scope].syms.push((name.to_string(), vec![s]));
    }
    fn find_in_scope(&self, scope: usize, name: &str) -> Option<Res> {
        let sc = &self.scopes[scope];
        if let Some((_, id)) = sc.vars.iter().find(|(n, _)| n == name) {
            return Some(Res::Loc(*id));
        }
        let mut overloads = Vec::new();
        for s in self.syms_of(scope, name) {
            match s {
                Sym::Fn(id) => overloads.push(*id),
                Sym::Val(id) => return Some(Res::Val(*id)),
                _ => {}
            }
        }
        if !overloads.is_empty() {
            return Some(Res::Fns(overloads));
        }
        if let Some(ms) = &sc.members {
            if ms.iter().any(|m| m == name) {
                return Some(Res::Member(name.to_string()));
            }
        }
        for s in self.syms_of(scope, name) {
            if let Sym::Ty(id) = s {
                return Some(Res::Ty(*id));
            }
        }
        None
    }
    /// Err = the assertion of walk_into_scopes
    fn walk_into(&self, start: usize, names: &[String]) -> Result<Option<usize>, ()> {
        let mut current = start;
        for n in names {
            let step_start = current;
            for s in self.syms_of(step_start, n) {
                match s {
                    Sym::NsScope(i) | Sym::EnumScope(i) => {
                        if current != step_start {
                            return Err(());
                        }
                        current = *i;
                    }
                    _ => {}
                }
            }
            if current == step_start {
                return Ok(None);
            }
        }
        Ok(Some(current))
    }
    /// (find_identifier, the same with the stop-at-first-qualifier discipline)
    fn find2(&self, cur: usize, p: &Path) -> (Result<Option<Res>, ()>, Result<Option<Res>, ()>) {
        let (leaf, quals) = p.segs.split_last().unwrap();
        let mut idx = if p.abs { 0 } else { cur };
        let mut stop: Option<Result<Option<Res>, ()>> = None;
        loop {
            match self.walk_into(idx, quals) {
                Err(()) => return (Err(()), stop.unwrap_or(Err(()))),
                Ok(Some(j)) => {
                    if let Some(r) = self.find_in_scope(j, leaf) {
                        return (Ok(Some(r.clone())), stop.unwrap_or(Ok(Some(r))));
                    }
                }
                Ok(None) => {}
            }
            if stop.is_none() && !quals.is_empty() {
                if let Ok(Some(_)) = self.walk_into(idx, &quals[..1]) {
                    stop = Some(Ok(None));
                }
            }
            match self.scopes[idx].parent {
                None => return (Ok(None), stop.unwrap_or(Ok(None))),
                Some(p) => idx = p,
            }
        }
    }
    pub fn find(&self, cur: usize, p: &Path) -> Option<Res> {
        self.find2(cur, p).0.unwrap_or(None)
    }
    fn fail(&mut self, why: &str) {
        if self.invalid.is_none() {
            self.invalid = Some(why.to_string());
        }
    }
    fn new_scope(&mut self, parent: usize) -> usize {
        self.scopes.push(Scope { parent: Some(parent), ..Default::default() });
        self.scopes.len() - 1
    }
    fn new_ent(&mut self, kind: EKind, path: Vec<String>) -> usize {
        self.ents.push(Ent { kind, path });
        self.ents.len() - 1
    }
    fn ns_path(&self, leaf: &str) -> Vec<String> {
        let mut p = self.ns_stack.clone();
        p.push(leaf.to_string());
        p
    }

    // ---- declarations (with the redefinition rules of scopes.rs)
    pub fn can_ns(&self, name: &str) -> bool {
        let syms = self.syms_of(self.cur, name);
        if syms.iter().any(|s| matches!(s, Sym::NsScope(_))) && matches!(syms.iter().find(|s| !matches!(s, Sym::Fn(_) | Sym::Ty(_) | Sym::Val(_))), Some(Sym::NsScope(_))) {
            // reopened: the loop returns at the first Namespace symbol unless a function / type / value comes first
            let first_bad = syms.iter().position(|s| matches!(s, Sym::Fn(_) | Sym::Ty(_) | Sym::Val(_)));
            let first_ns = syms.iter().position(|s| matches!(s, Sym::NsScope(_)));
            return match (first_bad, first_ns) {
                (Some(b), Some(n)) => n < b,
                _ => true,
            };
        }
        !syms.iter().any(|s| matches!(s, Sym::Fn(_) | Sym::Ty(_) | Sym::Val(_)))
    }
    pub fn enter_ns(&mut self, name: &str) {
        if !self.can_ns(name) {
            self.fail("namespace name already defined");
        }
        let existing = self.syms_of(self.cur, name).iter().find_map(|s| if let Sym::NsScope(i) = s { Some(*i) } else { None });
        match existing {
            Some(i) => self.cur = i,
            None => {
                let parent = self.cur;
                let idx = self.new_scope(parent);
                self.push_sym(parent, name, Sym::NsScope(idx));
                self.cur = idx;
            }
        }
        self.ns_stack.push(name.to_string());
    }
    pub fn exit_ns(&mut self) {
        self.cur = self.scopes[self.cur].parent.unwrap_or(0);
        self.ns_stack.pop();
    }
    pub fn can_gv(&self, name: &str) -> bool {
        !matches!(self.find_in_scope(self.cur, name), Some(Res::Loc(_)) | Some(Res::Val(_)) | Some(Res::Fns(_)))
    }
    pub fn decl_gv(&mut self, name: &str) {
        if !self.can_gv(name) {
            self.fail("global name already defined");
        }
        let id = self.new_ent(EKind::Gvar, self.ns_path(name));
        self.push_sym(self.cur, name, Sym::Val(id));
    }
    pub fn can_fn(&self, name: &str) -> bool {
        // every function of the stream is int(int): a second one of the same name in one scope is a redefinition
        !matches!(self.find_in_scope(self.cur, name), Some(Res::Loc(_)) | Some(Res::Val(_)) | Some(Res::Fns(_)))
    }
    pub fn begin_fn(&mut self, name: &str, param: &str) {
        if !self.can_fn(name) {
            self.fail("function name already defined");
        }
        let id = self.new_ent(EKind::Func, self.ns_path(name));
        let p = if param == "-" { "p_" } else { param };
        let pid = self.new_ent(EKind::Param, vec![p.to_string()]);
        let parent = self.cur;
        self.push_sym(parent, name, Sym::Fn(id));
        let idx = self.new_scope(parent);
        self.scopes[idx].vars.push((p.to_string(), pid));
        self.cur = idx;
    }
    pub fn end_body(&mut self) {
        self.cur = self.scopes[self.cur].parent.unwrap_or(0);
    }
    pub fn can_st(&self, name: &str) -> bool {
        !self.syms_of(self.cur, name).iter().any(|s| matches!(s, Sym::Ty(_)))
    }
    pub fn begin_st(&mut self, name: &str) {
        if !self.can_st(name) {
            self.fail("type name already defined");
        }
        let id = self.new_ent(EKind::Struct, self.ns_path(name));
        let parent = self.cur;
        self.push_sym(parent, name, Sym::Ty(id));
        let s = self.new_scope(parent);
        let m = self.new_scope(s);
        self.scopes[m].members = Some(vec!["a_".to_string(), format!("i{}", 1000 + id), "m_".to_string()]);
        self.cur = m;
    }
    pub fn end_st(&mut self) {
        self.end_body();
        self.end_body();
    }
    /// what the generator produces: an enum the front end takes
    pub fn can_en(&self, name: &str, vals: &[String]) -> bool {
        self.en_refusal(name, vals).is_none()
    }
    /// why begin_enum / register_enum_value refuse the declaration (None: accepted)
    fn en_refusal(&self, name: &str, vals: &[String]) -> Option<&'static str> {
        if self.syms_of(self.cur, name).iter().any(|s| matches!(s, Sym::Ty(_) | Sym::NsScope(_))) {
            return Some("enum or enum value name already defined");
        }
        for (j, v) in vals.iter().enumerate() {
            if vals[..j].contains(v) || v == name {
                return Some("enum or enum value name already defined");
            }
            if self.find_in_scope(self.cur, v).is_some() {
                // Local / Global / EnumValue / Type / Function of that name in the parent scope
                return Some("enum or enum value name already defined");
            }
            if self.syms_of(self.cur, v).iter().any(|s| matches!(s, Sym::NsScope(_))) {
                // since fix fe5dd8d register_enum_value refuses the name of a namespace of the scope that contains the enum
                // (before: accepted there, and end_enum asserted that the value is the only symbol of its name - a panic)
                return Some(EN_VALUE_NAMESPACE);
            }
        }
        None
    }
    pub fn decl_en(&mut self, name: &str, vals: &[String]) {
        if let Some(why) = self.en_refusal(name, vals) {
            self.fail(why);
        }
        let id = self.new_ent(EKind::Enum, self.ns_path(name));
        let parent = self.cur;
        let idx = self.new_scope(parent);
        self.push_sym(parent, name, Sym::EnumScope(idx));
        self.push_sym(parent, name, Sym::Ty(id));
        for v in vals {
            let mut p = self.ns_path(name);
            p.push(v.clone());
            let vid = self.new_ent(EKind::EnumVal, p);
            self.push_sym(idx, v, Sym::Val(vid));
            self.push_sym(parent, v, Sym::Val(vid));
        }
    }
    pub fn decl_td(&mut self, name: &str, p: &Path) {
        let r = self.find(self.cur, p);
        match &r {
            Some(Res::Ty(id)) => {
                if !self.can_st(name) {
                    self.fail("type name already defined");
                }
                let id = *id;
                self.push_sym(self.cur, name, Sym::Ty(id));
            }
            _ => self.fail("typedef of something that is not a type"),
        }
        self.tds.push(r);
    }
    pub fn can_lv(&self, name: &str) -> bool {
        !self.scopes[self.cur].vars.iter().any(|(n, _)| n == name)
    }
    pub fn decl_lv(&mut self, name: &str) {
        if !self.can_lv(name) {
            self.fail("local already defined in this block");
        }
        let id = self.new_ent(EKind::Local, vec![name.to_string()]);
        self.scopes[self.cur].vars.push((name.to_string(), id));
    }
    pub fn begin_bl(&mut self) {
        let parent = self.cur;
        self.cur = self.new_scope(parent);
    }
    pub fn kind_ok(&self, k: UKind, r: &Res) -> bool {
        match (k, r) {
            (UKind::V, Res::Loc(_)) => true,
            (UKind::V, Res::Val(id)) => self.ents[*id].kind == EKind::Gvar,
            (UKind::F, Res::Fns(v)) => v.len() == 1,
            (UKind::T | UKind::G, Res::Ty(id)) => self.ents[*id].kind == EKind::Struct,
            (UKind::E, Res::Val(id)) => self.ents[*id].kind == EKind::EnumVal,
            (UKind::Y, Res::Ty(id)) => self.ents[*id].kind == EKind::Enum,
            _ => false,
        }
    }
    pub fn use_(&mut self, k: UKind, p: &Path) {
        let (a, b) = self.find2(self.cur, p);
        let res = a.clone().unwrap_or(None);
        match &res {
            Some(r) if self.kind_ok(k, r) => {}
            Some(_) => self.fail("a use finds an entity of another kind"),
            None => self.fail("a use finds nothing"),
        }
        self.uses.push(UseRec { kind: k, scope: self.cur, path: p.clone(), res, stop_differs: a != b });
    }

    pub fn run(&mut self, nodes: &[Node]) {
        for n in nodes {
            match n {
                Node::Ns(name, items) => {
                    self.enter_ns(name);
                    self.run(items);
                    self.exit_ns();
                }
                Node::Gv(name) => self.decl_gv(name),
                Node::Fn(name, p, body) => {
                    self.begin_fn(name, p);
                    self.run(body);
                    self.end_body();
                }
                Node::St(name, body) => {
                    self.begin_st(name);
                    self.run(body);
                    self.end_st();
                }
                Node::En(name, vals) => self.decl_en(name, vals),
                Node::Td(name, p) => self.decl_td(name, p),
                Node::Lv(name) => self.decl_lv(name),
                Node::Bl(body) => {
                    self.begin_bl();
                    self.run(body);
                    self.end_body();
                }
                Node::Use(k, p) => self.use_(*k, p),
            }
        }
    }
}

// ------------------------------------------------------------------------------------------------ generator

const POOL: [&str; 6] = ["A", "B", "C", "x", "f", "Util"];

/// legal identifiers of the source language that are reserved words of the output language: the exporter prints every
/// entity of such a name under a generated name (`texture` -> `texture_0`)
pub const RES_POOL: [&str; 3] = ["texture", "pass", "technique"];

struct Gen<'a> {
    rng: &'a mut Rng,
    sim: Sim,
    fresh: usize,
    budget: i64,
    hist: &'a mut Hist,
    /// every namespace-level name declared so far with its entity (namespaces: none): the bases of the names
    /// `<base>_<k>` — what the exporter would generate for them — that are given to locals, parameters and later entities
    declared: Vec<(String, Option<usize>)>,
}

impl<'a> Gen<'a> {
    fn name(&mut self) -> String {
        if self.rng.chance(1, 7) {
            self.fresh += 1;
            format!("n{}", self.fresh)
        } else if self.rng.chance(1, 5) {
            self.rng.pick(&RES_POOL).to_string()
        } else if !self.declared.is_empty() && self.rng.chance(1, 12) {
            // spelled like a generated name of something declared before (the exporter has to keep it verbatim and
            // generate around it)
            self.generated_like().0
        } else {
            self.rng.pick(&POOL).to_string()
        }
    }
    /// `<base>_<k>`, k = 0..2, for a namespace-level name declared so far (else for a pool name)
    fn generated_like(&mut self) -> (String, Option<usize>) {
        let k = self.rng.below(3);
        if self.declared.is_empty() {
            let b = if self.rng.chance(1, 2) { self.rng.pick(&RES_POOL).to_string() } else { self.rng.pick(&POOL).to_string() };
            return (format!("{}_{}", b, k), None);
        }
        // the most recent declarations twice as often: they are the ones in reach of the body that is generated next
        let n = self.declared.len();
        let i = if n > 3 && self.rng.chance(1, 2) { n - 1 - self.rng.below(3) as usize } else { self.rng.below(n as u64) as usize };
        let (b, e) = self.declared[i].clone();
        (format!("{}_{}", b, k), e)
    }
    /// the name of a local / parameter: 1 in 3 is spelled like the generated name of a declared entity (second component)
    fn local_name(&mut self) -> (String, Option<usize>) {
        if self.rng.chance(1, 3) {
            let (n, e) = self.generated_like();
            if well_formed(&[Node::Lv(n.clone())]) {
                self.hist.add("decl:local-spelled-like-a-generated-name");
                return (n, e);
            }
        }
        (self.name(), None)
    }
    /// a name for which `ok` holds: a few tries from the pool, then a fresh one
    fn name_where(&mut self, ok: impl Fn(&Sim, &str) -> bool) -> String {
        for _ in 0..4 {
            let n = self.name();
            if ok(&self.sim, &n) {
                return n;
            }
        }
        self.fresh += 1;
        format!("n{}", self.fresh)
    }

    /// the ways to write a path to entity `id` from the current position that the simulation resolves to an entity of
    /// the kind the use needs (not necessarily `id` itself: a closer homonym is as good)
    fn path_for(&mut self, k: UKind, id: usize) -> Option<Path> {
        let full = self.sim.ents[id].path.clone();
        let mut cands: Vec<Path> = Vec::new();
        let kind = self.sim.ents[id].kind;
        if kind == EKind::Local || kind == EKind::Param {
            cands.push(Path { abs: false, segs: full.clone() });
        } else {
            cands.push(Path { abs: true, segs: full.clone() });
            for j in 0..full.len() {
                cands.push(Path { abs: false, segs: full[j..].to_vec() });
            }
            if kind == EKind::EnumVal && full.len() >= 2 {
                // the unscoped spelling: the value is also a symbol of the scope that contains the enum
                let mut un = full.clone();
                un.remove(full.len() - 2);
                cands.push(Path { abs: true, segs: un.clone() });
                for j in 0..un.len() {
                    cands.push(Path { abs: false, segs: un[j..].to_vec() });
                }
            }
        }
        let mut good: Vec<Path> = Vec::new();
        for c in cands {
            if let (Ok(Some(r)), _) = self.sim.find2(self.sim.cur, &c) {
                if self.sim.kind_ok(k, &r) {
                    good.push(c);
                }
            }
        }
        if good.is_empty() {
            None
        } else {
            Some(good[self.rng.below(good.len() as u64) as usize].clone())
        }
    }

    /// a use of entity `id` written with some path that resolves to an entity of its kind from here
    fn use_of(&mut self, id: usize, at_namespace_level: bool) -> Option<Node> {
        {
            let k = match self.sim.ents[id].kind {
                EKind::Gvar | EKind::Local | EKind::Param => UKind::V,
                EKind::Func => UKind::F,
                EKind::Struct => {
                    if at_namespace_level {
                        UKind::G
                    } else {
                        UKind::T
                    }
                }
                EKind::Enum => UKind::Y,
                EKind::EnumVal => UKind::E,
            };
            if at_namespace_level && k != UKind::G {
                return None;
            }
            if let Some(p) = self.path_for(k, id) {
                self.hist.add(&format!("use:{}:{}:{}", k.token(), if p.abs { "abs" } else { "rel" }, p.segs.len().min(4)));
                self.sim.use_(k, &p);
                if self.sim.uses.last().map(|u| u.stop_differs).unwrap_or(false) {
                    self.hist.add("use:first-qualifier-declared-closer-without-the-rest");
                }
                return Some(Node::Use(k, p));
            }
        }
        None
    }

    fn gen_use(&mut self, at_namespace_level: bool) -> Option<Node> {
        if self.sim.ents.is_empty() {
            return None;
        }
        for _ in 0..6 {
            let id = self.rng.below(self.sim.ents.len() as u64) as usize;
            if let Some(u) = self.use_of(id, at_namespace_level) {
                return Some(u);
            }
        }
        None
    }

    /// after a local / parameter spelled like the generated name of `ent`: uses of that entity in the scope of the local
    /// (a type: declaration, cast / enum variable; an enum value through its enum; a function / global: call, assignment)
    fn uses_after_local(&mut self, ent: Option<usize>, out: &mut Vec<Node>) {
        let Some(id) = ent else { return };
        if id >= self.sim.ents.len() {
            return;
        }
        let n = 1 + self.rng.below(2);
        for _ in 0..n {
            if let Some(u) = self.use_of(id, false) {
                self.hist.add(&format!("use:after-local-spelled-like-generated:{}", self.sim.ents[id].kind.name()));
                out.push(u);
            }
        }
    }

    fn gen_body(&mut self, depth: usize) -> Vec<Node> {
        let mut out = Vec::new();
        let n = 1 + self.rng.below(5);
        for _ in 0..n {
            self.budget -= 1;
            match self.rng.below(10) {
                0 | 1 => {
                    let (mut name, mut ent) = self.local_name();
                    if !self.sim.can_lv(&name) {
                        name = self.name_where(|s, n| s.can_lv(n));
                        ent = None;
                    }
                    self.sim.decl_lv(&name);
                    self.hist.add("decl:lv");
                    out.push(Node::Lv(name));
                    self.uses_after_local(ent, &mut out);
                }
                2 if depth < 2 => {
                    self.sim.begin_bl();
                    let b = self.gen_body(depth + 1);
                    self.sim.end_body();
                    self.hist.add("decl:bl");
                    out.push(Node::Bl(b));
                }
                _ => {
                    if let Some(u) = self.gen_use(false) {
                        out.push(u);
                    }
                }
            }
        }
        out
    }

    fn gen_items(&mut self, depth: usize) -> Vec<Node> {
        let mut out = Vec::new();
        let n = if depth == 0 { 3 + self.rng.below(5) } else { 1 + self.rng.below(4) };
        for _ in 0..n {
            if self.budget <= 0 {
                break;
            }
            self.budget -= 1;
            match self.rng.below(20) {
                0..=4 if depth < 3 => {
                    let name = self.name_where(|s, n| s.can_ns(n));
                    self.declared.push((name.clone(), None));
                    self.sim.enter_ns(&name);
                    let items = self.gen_items(depth + 1);
                    self.sim.exit_ns();
                    self.hist.add(&format!("decl:ns:depth{}", depth + 1));
                    out.push(Node::Ns(name, items));
                }
                5..=7 => {
                    let name = self.name_where(|s, n| s.can_gv(n));
                    self.declared.push((name.clone(), Some(self.sim.ents.len())));
                    self.sim.decl_gv(&name);
                    self.hist.add("decl:gv");
                    out.push(Node::Gv(name));
                }
                8..=12 => {
                    let name = self.name_where(|s, n| s.can_fn(n));
                    let (param, pent) = if self.rng.chance(1, 2) { ("-".to_string(), None) } else { self.local_name() };
                    let fid = self.sim.ents.len();
                    self.sim.begin_fn(&name, &param);
                    let mut body = Vec::new();
                    self.uses_after_local(pent, &mut body);
                    body.extend(self.gen_body(0));
                    self.sim.end_body();
                    self.declared.push((name.clone(), Some(fid)));
                    self.hist.add("decl:fn");
                    out.push(Node::Fn(name, param, body));
                }
                13 | 14 => {
                    let name = self.name_where(|s, n| s.can_st(n));
                    self.declared.push((name.clone(), Some(self.sim.ents.len())));
                    self.sim.begin_st(&name);
                    let body = self.gen_body(0);
                    self.sim.end_st();
                    self.hist.add("decl:st");
                    out.push(Node::St(name, body));
                }
                15 | 16 => {
                    let nv = 1 + self.rng.below(3) as usize;
                    let mut found = None;
                    for _ in 0..4 {
                        let name = self.name();
                        let mut vals = Vec::new();
                        for _ in 0..nv {
                            let v = if self.rng.chance(1, 2) {
                                self.fresh += 1;
                                format!("V{}", self.fresh)
                            } else {
                                self.name()
                            };
                            vals.push(v);
                        }
                        if self.sim.can_en(&name, &vals) {
                            found = Some((name, vals));
                            break;
                        }
                    }
                    if let Some((name, vals)) = found {
                        let eid = self.sim.ents.len();
                        self.declared.push((name.clone(), Some(eid)));
                        for (j, v) in vals.iter().enumerate() {
                            self.declared.push((v.clone(), Some(eid + 1 + j)));
                        }
                        self.sim.decl_en(&name, &vals);
                        self.hist.add("decl:en");
                        out.push(Node::En(name, vals));
                    }
                }
                17 => {
                    // typedef of a struct / enum written with some path
                    let tys: Vec<usize> =
                        (0..self.sim.ents.len()).filter(|i| matches!(self.sim.ents[*i].kind, EKind::Struct | EKind::Enum)).collect();
                    if !tys.is_empty() {
                        let id = tys[self.rng.below(tys.len() as u64) as usize];
                        let k = if self.sim.ents[id].kind == EKind::Struct { UKind::T } else { UKind::Y };
                        if let Some(p) = self.path_for(k, id) {
                            let name = self.name_where(|s, n| s.can_st(n));
                            self.sim.decl_td(&name, &p);
                            self.hist.add("decl:td");
                            out.push(Node::Td(name, p));
                        }
                    }
                }
                _ => {
                    if let Some(u) = self.gen_use(true) {
                        out.push(u);
                    }
                }
            }
        }
        out
    }
}

pub fn generate(rng: &mut Rng, hist: &mut Hist) -> Vec<Node> {
    let mut g = Gen { rng, sim: Sim::new(), fresh: 0, budget: 40, hist, declared: Vec::new() };
    let mut nodes = g.gen_items(0);
    if g.rng.chance(1, 10) {
        // a last function with one use of a path that is declared somewhere but is not found from here (or nowhere):
        // the source must be refused with "was not declared in this scope" — the negative side of the lookup
        let ents: Vec<usize> = (0..g.sim.ents.len()).filter(|i| !matches!(g.sim.ents[*i].kind, EKind::Local | EKind::Param)).collect();
        if !ents.is_empty() {
            let id = ents[g.rng.below(ents.len() as u64) as usize];
            let full = g.sim.ents[id].path.clone();
            let k = match g.sim.ents[id].kind {
                EKind::Gvar => UKind::V,
                EKind::Func => UKind::F,
                EKind::Struct => UKind::T,
                EKind::Enum => UKind::Y,
                _ => UKind::E,
            };
            let name = g.name_where(|s, n| s.can_fn(n));
            g.sim.begin_fn(&name, "-");
            let mut cands = Vec::new();
            for j in 1..full.len() {
                cands.push(Path { abs: g.rng.chance(1, 2), segs: full[j..].to_vec() });
            }
            let mut twisted = full.clone();
            twisted.insert(0, g.rng.pick(&POOL).to_string());
            cands.push(Path { abs: false, segs: twisted });
            let missing: Vec<Path> = cands.into_iter().filter(|c| matches!(g.sim.find2(g.sim.cur, c).0, Ok(None))).collect();
            if !missing.is_empty() {
                let p = missing[g.rng.below(missing.len() as u64) as usize].clone();
                g.hist.add("use:unresolved");
                nodes.push(Node::Fn(name, "-".into(), vec![Node::Use(k, p)]));
            }
        }
    } else if g.rng.chance(1, 12) {
        // a last enum one of whose values is spelled like a namespace of the root: the source must be refused with
        // "redefinition of .." (register_enum_value since fix fe5dd8d; before: a panic in end_enum) - the negative side
        // of the declaration rules
        let nss: Vec<String> = g.sim.scopes[0]
            .syms
            .iter()
            .filter(|(k, v)| v.iter().any(|s| matches!(s, Sym::NsScope(_))) && g.sim.find_in_scope(0, k).is_none())
            .map(|(k, _)| k.clone())
            .collect();
        if !nss.is_empty() {
            let ns = nss[g.rng.below(nss.len() as u64) as usize].clone();
            let mut vals = Vec::new();
            for _ in 0..g.rng.below(3) {
                g.fresh += 1;
                vals.push(format!("V{}", g.fresh));
            }
            let at = g.rng.below(vals.len() as u64 + 1) as usize;
            vals.insert(at, ns);
            g.fresh += 1;
            let name = format!("n{}", g.fresh);
            if g.sim.en_refusal(&name, &vals) == Some(EN_VALUE_NAMESPACE) {
                g.hist.add("decl:en-value-named-like-namespace");
                g.sim.decl_en(&name, &vals);
                nodes.push(Node::En(name, vals));
            }
        }
    }
    nodes
}

// ------------------------------------------------------------------------------------------------ reading the emitted text

#[derive(Debug, Default)]
pub struct Scan {
    /// entity id ↦ (kind, printed full path)
    pub decls: std::collections::BTreeMap<usize, (EKind, Vec<String>)>,
    /// use ordinal ↦ what the text says it refers to
    pub uses: std::collections::BTreeMap<usize, String>,
    /// use ordinal ↦ the path as printed
    pub raw: std::collections::BTreeMap<usize, String>,
    /// ordinal of a namespace-level use ↦ the namespaces it is printed in
    pub use_ns: std::collections::BTreeMap<usize, Vec<String>>,
    pub problems: Vec<String>,
}

fn is_path(s: &str) -> bool {
    !s.is_empty() && s.chars().all(|c| c.is_ascii_alphanumeric() || c == '_' || c == ':') && !s.starts_with(':')
}

fn marker(s: &str) -> Option<usize> {
    if s.len() == 4 && s.chars().all(|c| c.is_ascii_digit()) { s.parse::<usize>().ok().and_then(|n| n.checked_sub(1000)) } else { None }
}

fn ordinal(s: &str) -> Option<usize> {
    if s.len() == 6 && s.chars().all(|c| c.is_ascii_digit()) { s.parse::<usize>().ok().and_then(|n| n.checked_sub(100000)) } else { None }
}

struct Scanner<'a> {
    lines: Vec<&'a str>,
    i: usize,
    ns: Vec<String>,
    scan: Scan,
    /// uses waiting for the declarations of the whole text: (ordinal, form, printed path, local id)
    pending: Vec<(usize, UKind, String, Option<usize>)>,
}

impl<'a> Scanner<'a> {
    fn path(&self, leaf: &str) -> Vec<String> {
        let mut p = self.ns.clone();
        p.push(leaf.to_string());
        p
    }
    /// the lines of a function / method body up to its closing brace; `blocks` = visible locals (printed name, id)
    fn body(&mut self, blocks: &mut Vec<Vec<(String, usize)>>) {
        while self.i < self.lines.len() {
            let l = self.lines[self.i].trim();
            self.i += 1;
            if l == "}" {
                return;
            }
            if l == "{" {
                blocks.push(Vec::new());
                self.body(blocks);
                blocks.pop();
                continue;
            }
            let Some(l) = l.strip_suffix(';') else {
                if !l.is_empty() {
                    self.scan.problems.push(format!("body line `{}`", l));
                }
                continue;
            };
            if l == "return r_" || l == "return a_" || l == "int r_ = 0" {
                continue;
            }
            if let Some(rest) = l.strip_prefix("int ") {
                if let Some((name, val)) = rest.split_once(" = ") {
                    if let Some(id) = marker(val) {
                        if name != "r_" {
                            self.scan.decls.insert(id, (EKind::Local, vec![name.to_string()]));
                            blocks.last_mut().unwrap().push((name.to_string(), id));
                        }
                        continue;
                    }
                    // int e<K> = (int)PATH
                    if let (Some(k), Some(p)) = (name.strip_prefix('e').and_then(ordinal), val.strip_prefix("(int)")) {
                        if is_path(p) {
                            self.pending.push((k, UKind::E, p.to_string(), None));
                            continue;
                        }
                    }
                }
            }
            if let Some((lhs, rhs)) = l.split_once(" = ") {
                // PATH = K
                if let Some(k) = ordinal(rhs) {
                    if is_path(lhs) {
                        let local = if !lhs.contains("::") {
                            blocks.iter().rev().find_map(|b| b.iter().rev().find(|(n, _)| n == lhs).map(|(_, id)| *id))
                        } else {
                            None
                        };
                        self.pending.push((k, UKind::V, lhs.to_string(), local));
                        continue;
                    }
                    if lhs.ends_with(".a_") {
                        continue;
                    }
                }
                // r_ = PATH(K)
                if lhs == "r_" {
                    if let Some((p, arg)) = rhs.strip_suffix(')').and_then(|r| r.split_once('(')) {
                        if let (true, Some(k)) = (is_path(p), ordinal(arg)) {
                            self.pending.push((k, UKind::F, p.to_string(), None));
                            continue;
                        }
                    }
                }
                // PATH y<K> = (PATH)0
                if let Some((p, v)) = lhs.split_once(' ') {
                    if let (true, Some(k)) = (is_path(p), v.strip_prefix('y').and_then(ordinal)) {
                        self.pending.push((k, UKind::Y, p.to_string(), None));
                        continue;
                    }
                }
            }
            // PATH t<K>
            if let Some((p, v)) = l.split_once(' ') {
                if let (true, Some(k)) = (is_path(p), v.strip_prefix('t').and_then(ordinal)) {
                    self.pending.push((k, UKind::T, p.to_string(), None));
                    continue;
                }
            }
            self.scan.problems.push(format!("body line `{}`", l));
        }
    }
    fn top(&mut self) {
        while self.i < self.lines.len() {
            let l = self.lines[self.i].trim();
            self.i += 1;
            if l.is_empty() {
                continue;
            }
            if let Some(n) = l.strip_prefix("namespace ").and_then(|r| r.strip_suffix(" {")) {
                self.ns.push(n.to_string());
                continue;
            }
            if l.starts_with("} // namespace ") {
                self.ns.pop();
                continue;
            }
            if let Some(rest) = l.strip_prefix("static ").and_then(|r| r.strip_suffix(';')) {
                if let Some((decl, val)) = rest.split_once(" = ") {
                    if let (Some(name), Some(id)) = (decl.strip_prefix("int "), marker(val)) {
                        self.scan.decls.insert(id, (EKind::Gvar, self.path(name)));
                        continue;
                    }
                }
                if let Some((p, v)) = rest.split_once(' ') {
                    if let (true, Some(k)) = (is_path(p), v.strip_prefix('g').and_then(ordinal)) {
                        let here = self.ns.clone();
                        self.scan.use_ns.insert(k, here);
                        self.pending.push((k, UKind::G, p.to_string(), None));
                        continue;
                    }
                }
            }
            if let Some(name) = l.strip_prefix("enum ") {
                let name = name.to_string();
                let mut first = None;
                let mut vals = Vec::new();
                while self.i < self.lines.len() {
                    let v = self.lines[self.i].trim();
                    self.i += 1;
                    if v == "};" {
                        break;
                    }
                    if let Some((vn, num)) = v.trim_end_matches(',').split_once(" = ") {
                        if let Some(id) = marker(num) {
                            if first.is_none() {
                                first = Some(id);
                            }
                            vals.push((vn.to_string(), id));
                        }
                    }
                }
                if let Some(f) = first {
                    if f >= 1 {
                        self.scan.decls.insert(f - 1, (EKind::Enum, self.path(&name)));
                        for (vn, id) in vals {
                            let mut p = self.path(&name);
                            p.push(vn);
                            self.scan.decls.insert(id, (EKind::EnumVal, p));
                        }
                        continue;
                    }
                }
                self.scan.problems.push(format!("enum `{}` without marker", name));
                continue;
            }
            if let Some(name) = l.strip_prefix("struct ") {
                let name = name.to_string();
                let mut id = None;
                while self.i < self.lines.len() {
                    let m = self.lines[self.i].trim();
                    self.i += 1;
                    if m == "};" {
                        break;
                    }
                    if let Some(x) = m.strip_prefix("int i").and_then(|r| r.strip_suffix(';')).and_then(marker) {
                        id = Some(x);
                        self.scan.decls.insert(x, (EKind::Struct, self.path(&name)));
                    }
                    // the method: `m_`, or `m__<k>` when the exporter renamed it
                    if m.starts_with("int m_") && m.ends_with("() {") {
                        let mut blocks = vec![Vec::new()];
                        self.body(&mut blocks);
                    }
                }
                if id.is_none() {
                    self.scan.problems.push(format!("struct `{}` without marker", name));
                }
                continue;
            }
            if let Some((name, param)) = l.strip_prefix("int ").and_then(|r| r.strip_suffix(") {")).and_then(|r| r.split_once("(int ")) {
                // the id is on the next line: `int r_ = <1000+id>;`
                let id = self.lines.get(self.i).and_then(|n| n.trim().strip_prefix("int r_ = ")).and_then(|r| r.strip_suffix(';')).and_then(marker);
                match id {
                    Some(id) => {
                        self.i += 1;
                        self.scan.decls.insert(id, (EKind::Func, self.path(name)));
                        self.scan.decls.insert(id + 1, (EKind::Param, vec![param.to_string()]));
                        let mut blocks = vec![vec![(param.to_string(), id + 1)]];
                        self.body(&mut blocks);
                    }
                    None => {
                        self.scan.problems.push(format!("function `{}` without marker", name));
                        let mut blocks = vec![Vec::new()];
                        self.body(&mut blocks);
                    }
                }
                continue;
            }
            self.scan.problems.push(format!("line `{}`", l));
        }
    }
}

/// every declaration with its id and printed path, every use with the entity its printed path names
pub fn scan(text: &str) -> Scan {
    let mut s = Scanner { lines: text.lines().collect(), i: 0, ns: Vec::new(), scan: Scan::default(), pending: Vec::new() };
    s.top();
    let pending = std::mem::take(&mut s.pending);
    for (k, form, p, local) in pending {
        let shown = match local {
            Some(id) => format!("l{}", id),
            None => {
                let segs: Vec<String> = p.split("::").map(|x| x.to_string()).collect();
                let wanted: &[EKind] = match form {
                    UKind::V => &[EKind::Gvar, EKind::EnumVal],
                    UKind::F => &[EKind::Func],
                    UKind::T | UKind::G => &[EKind::Struct, EKind::Enum],
                    UKind::E => &[EKind::EnumVal, EKind::Gvar],
                    UKind::Y => &[EKind::Enum, EKind::Struct],
                };
                let mut hit = None;
                for (id, (kind, path)) in &s.scan.decls {
                    if *path == segs && wanted.contains(kind) {
                        hit = Some((*id, *kind));
                        break;
                    }
                }
                match hit {
                    Some((id, EKind::Gvar | EKind::EnumVal)) => format!("v{}", id),
                    Some((id, EKind::Func)) => format!("f{}", id),
                    Some((id, _)) => format!("t{}", id),
                    None => format!("?{}", p),
                }
            }
        };
        s.scan.uses.insert(k, shown);
        s.scan.raw.insert(k, p);
    }
    s.scan
}

fn show_uses(scan: &Scan, n: usize) -> String {
    (0..n).map(|k| format!("u{}={}", k, scan.uses.get(&k).cloned().unwrap_or_else(|| "?missing".into()))).collect::<Vec<_>>().join(",")
}

/// the printed name of every `ns` block of the descriptor, in pre-order: a segment of the printed path of a declaration
/// inside it, or of the namespace stack a namespace-level use (`static PATH gK;`) was printed in; `None` = nothing of the
/// block is printed
fn ns_printed(nodes: &[Node], scan: &Scan) -> Vec<Option<String>> {
    fn walk(
        nodes: &[Node],
        depth: usize,
        id: &mut usize,
        k: &mut usize,
        scan: &Scan,
        out: &mut Vec<Option<String>>,
    ) -> Option<Vec<String>> {
        let mut anchor: Option<Vec<String>> = None;
        let ns_part = |id: usize| scan.decls.get(&id).map(|(_, p)| p[..p.len().saturating_sub(1)].to_vec());
        for n in nodes {
            match n {
                Node::Ns(_, items) => {
                    let slot = out.len();
                    out.push(None);
                    let inner = walk(items, depth + 1, id, k, scan, out);
                    out[slot] = inner.as_ref().and_then(|p| p.get(depth).cloned());
                    anchor = anchor.or(inner);
                }
                Node::Gv(_) => {
                    anchor = anchor.or(ns_part(*id));
                    *id += 1;
                }
                Node::Fn(_, _, body) => {
                    anchor = anchor.or(ns_part(*id));
                    *id += 2;
                    walk(body, depth, id, k, scan, out);
                }
                Node::St(_, body) => {
                    anchor = anchor.or(ns_part(*id));
                    *id += 1;
                    walk(body, depth, id, k, scan, out);
                }
                Node::En(_, vals) => {
                    anchor = anchor.or(ns_part(*id));
                    *id += 1 + vals.len();
                }
                Node::Td(_, _) => {}
                Node::Lv(_) => *id += 1,
                Node::Bl(b) => {
                    walk(b, depth, id, k, scan, out);
                }
                Node::Use(kind, _) => {
                    if *kind == UKind::G {
                        anchor = anchor.or(scan.use_ns.get(k).cloned());
                    }
                    *k += 1;
                }
            }
        }
        anchor
    }
    let mut out = Vec::new();
    let (mut id, mut k) = (0, 0);
    walk(nodes, 0, &mut id, &mut k, scan, &mut out);
    out
}

/// the printed name of every ns / gv / fn + parameter / st / en + values / td / lv of the descriptor, in order
fn printed_names(nodes: &[Node], scan: &Scan) -> Option<String> {
    fn go(nodes: &[Node], id: &mut usize, nsi: &mut usize, nsp: &[Option<String>], scan: &Scan, out: &mut Vec<String>) -> Option<()> {
        let leaf = |id: usize| scan.decls.get(&id).and_then(|(_, p)| p.last().cloned());
        for n in nodes {
            match n {
                Node::Ns(_, items) => {
                    out.push(nsp.get(*nsi)?.clone().unwrap_or_else(|| "-".into()));
                    *nsi += 1;
                    go(items, id, nsi, nsp, scan, out)?;
                }
                Node::Gv(_) | Node::Lv(_) => {
                    out.push(leaf(*id)?);
                    *id += 1;
                }
                Node::Fn(_, _, body) => {
                    out.push(leaf(*id)?);
                    out.push(leaf(*id + 1)?);
                    *id += 2;
                    go(body, id, nsi, nsp, scan, out)?;
                }
                Node::St(_, body) => {
                    out.push(leaf(*id)?);
                    *id += 1;
                    go(body, id, nsi, nsp, scan, out)?;
                }
                Node::En(_, vals) => {
                    for j in 0..=vals.len() {
                        out.push(leaf(*id + j)?);
                    }
                    *id += 1 + vals.len();
                }
                Node::Td(_, _) => out.push("-".into()),
                Node::Bl(b) => go(b, id, nsi, nsp, scan, out)?,
                Node::Use(_, _) => {}
            }
        }
        Some(())
    }
    let nsp = ns_printed(nodes, scan);
    let mut out = Vec::new();
    let (mut id, mut nsi) = (0, 0);
    go(nodes, &mut id, &mut nsi, &nsp, scan, &mut out)?;
    Some(out.join(" "))
}

// ------------------------------------------------------------------------------------------------ the exported program (harness side)

/// the descriptor of the text of the first generation, from the printed paths the scan found (names as printed, every
/// use with the path printed for it, no typedefs, no namespace block that prints nothing)
fn exported(nodes: &[Node], scan: &Scan) -> Option<Vec<Node>> {
    fn go(nodes: &[Node], id: &mut usize, k: &mut usize, nsi: &mut usize, nsp: &[Option<String>], scan: &Scan) -> Option<Vec<Node>> {
        let leaf = |id: usize| scan.decls.get(&id).and_then(|(_, p)| p.last().cloned());
        let mut out = Vec::new();
        for n in nodes {
            match n {
                Node::Ns(_, items) => {
                    let name = nsp.get(*nsi)?.clone();
                    *nsi += 1;
                    let inner = go(items, id, k, nsi, nsp, scan)?;
                    if let Some(name) = name {
                        out.push(Node::Ns(name, inner));
                    } else if !inner.is_empty() {
                        return None;
                    }
                }
                Node::Gv(_) => {
                    out.push(Node::Gv(leaf(*id)?));
                    *id += 1;
                }
                Node::Fn(_, _, body) => {
                    let (name, p) = (leaf(*id)?, leaf(*id + 1)?);
                    *id += 2;
                    out.push(Node::Fn(name, p, go(body, id, k, nsi, nsp, scan)?));
                }
                Node::St(_, body) => {
                    let name = leaf(*id)?;
                    *id += 1;
                    out.push(Node::St(name, go(body, id, k, nsi, nsp, scan)?));
                }
                Node::En(_, vals) => {
                    let name = leaf(*id)?;
                    let mut vs = Vec::new();
                    for j in 0..vals.len() {
                        vs.push(leaf(*id + 1 + j)?);
                    }
                    *id += 1 + vals.len();
                    out.push(Node::En(name, vs));
                }
                Node::Td(_, _) => {}
                Node::Lv(_) => {
                    out.push(Node::Lv(leaf(*id)?));
                    *id += 1;
                }
                Node::Bl(b) => out.push(Node::Bl(go(b, id, k, nsi, nsp, scan)?)),
                Node::Use(kind, _) => {
                    let printed = scan.raw.get(k)?;
                    *k += 1;
                    out.push(Node::Use(*kind, Path { abs: false, segs: printed.split("::").map(|s| s.to_string()).collect() }));
                }
            }
        }
        Some(out)
    }
    let nsp = ns_printed(nodes, scan);
    let (mut id, mut k, mut nsi) = (0, 0, 0);
    go(nodes, &mut id, &mut k, &mut nsi, &nsp, scan)
}

/// the first use of the exported program that the harness's simulation (full-path retry on every enclosing scope) looks
/// up to something else than the text of the first generation refers to
///
/// One case is set apart, in the property's own terms and without the Lean model: the use was printed with a name the
/// exporter GENERATED for its entity (the printed leaf differs from the source leaf: `texture` -> `texture_0`) and a
/// local / parameter of the emitted text carries exactly that name.  The exporter picks generated names itself and
/// names locals afterwards, so this collision is of its own making — it is not the class "a relative path meets a closer
/// homonym of the source" and gets the tag `generated-name-taken-by-local` (no class key: a violation with its input).
fn capture(nodes: &[Node], scan1: &Scan, src: &Sim) -> Option<String> {
    let ex = exported(nodes, scan1)?;
    let mut sim2 = Sim::new();
    sim2.run(&ex);
    for (k, u) in sim2.uses.iter().enumerate() {
        let want = scan1.uses.get(&k)?;
        let got = u.res.as_ref().map(|r| r.show()).unwrap_or_else(|| "nothing".into());
        if *want != got {
            if let (Some(Res::Loc(lid)), Some(tid)) = (&u.res, want.get(1..).and_then(|d| d.parse::<usize>().ok())) {
                if !want.starts_with('l') {
                    if let (Some(ent), Some((_, printed))) = (src.ents.get(tid), scan1.decls.get(&tid)) {
                        if ent.path.last() != printed.last() {
                            return Some(format!(
                                "generated-name-taken-by-local (u{}: `{}` is the name generated for {} `{}` and the {} l{} is printed with that name)",
                                k,
                                u.path.text(),
                                ent.kind.name(),
                                ent.path.join("::"),
                                if sim2.ents.get(*lid).map(|e| e.kind == EKind::Param).unwrap_or(false) { "parameter" } else { "local" },
                                lid
                            ));
                        }
                    }
                }
            }
            let by = match &u.res {
                None => "nothing".to_string(),
                Some(r) => match r.id() {
                    Some(id) => sim2.ents[id].kind.name().to_string(),
                    None => "member-or-overloads".to_string(),
                },
            };
            return Some(format!(
                "captured:{}:by-{} (u{}: `{}` is printed for {} and looked up from its scope finds {})",
                u.kind.name(),
                by,
                k,
                u.path.text(),
                want,
                got
            ));
        }
    }
    None
}

// ------------------------------------------------------------------------------------------------ one case

pub fn run_descriptor(desc: &str, out: &mut Out, hist: &mut Hist) {
    let bad = |out: &mut Out, why: &str| out.case(&format!("C04.names\t{}\t?", desc), "bad-request", &format!("SKIP:{}", why));
    let Some(nodes) = parse(desc) else {
        return bad(out, "descriptor does not parse");
    };
    if !well_formed(&nodes) {
        return bad(out, "descriptor uses a name of the renderer");
    }
    let desc = tokens(&nodes);
    let mut sim = Sim::new();
    sim.run(&nodes);
    let nuses = sim.uses.len();
    let src = render(&nodes);
    let text1 = match compile_src(&src, Tgt::Dx, Mode::NoPipeline) {
        CompileOutcome::Ok(ps) if ps.len() == 1 => ps[0].text(),
        CompileOutcome::Ok(_) => return bad(out, "not one output"),
        CompileOutcome::Err(e) => {
            let req = format!("C04.names\t{}\t?", desc);
            if sim.invalid.is_none() {
                // the simulation expected the front end to take it: compared with the model, which then says what every use finds
                hist.add("names:source-rejected-unexpectedly");
                out.case(&req, "g1:reject", &format!("ok (source refused: {})", one_line(&e.chars().take(160).collect::<String>())));
            } else if sim.invalid.as_deref() == Some("a use finds nothing") && e.contains("was not declared in this scope") {
                // predicted: compared with the model, whose lookup must find nothing either
                hist.add("names:source-rejected-unresolved-use");
                out.case(&req, "g1:reject", "ok (source refused: a use finds nothing)");
            } else if sim.invalid.as_deref() == Some(EN_VALUE_NAMESPACE) && e.contains("redefinition of") {
                // predicted (register_enum_value): compared with the model, which must refuse the enum as well
                hist.add("names:source-rejected-enum-value-named-like-namespace");
                out.case(&req, "g1:reject", "ok (source refused: an enum value named like a namespace of its scope)");
            } else {
                hist.add("names:source-rejected");
                out.case(&req, "g1:reject", &format!("SKIP:source not accepted ({})", sim.invalid.clone().unwrap_or_default()));
            }
            return;
        }
        CompileOutcome::Panic(p) => {
            hist.add("names:panic-first-generation");
            out.case(&format!("C04.names\t{}\t?", desc), "g1:panic", &format!("FAIL:panic {}", p));
            return;
        }
    };
    if sim.invalid.is_some() {
        hist.add("names:accepted-unexpectedly");
    }
    let scan1 = scan(&text1);
    let printed = printed_names(&nodes, &scan1).unwrap_or_else(|| "?".to_string());
    let req = format!("C04.names\t{}\t{}", desc, printed);
    let g1 = if scan1.problems.is_empty() { show_uses(&scan1, nuses) } else { format!("unreadable:{}", one_line(&scan1.problems[0])) };
    hist.add("names:accepted");
    for u in &sim.uses {
        if u.stop_differs {
            hist.add("names:use-with-first-qualifier-declared-closer");
        }
    }
    let cap = || capture(&nodes, &scan1, &sim).map(|c| format!(" [names: {}]", c)).unwrap_or_default();
    match compile_src(&text1, Tgt::Dx, Mode::NoPipeline) {
        CompileOutcome::Ok(ps2) if ps2.len() == 1 => {
            let text2 = ps2[0].text();
            let scan2 = scan(&text2);
            let g2 = if scan2.problems.is_empty() { show_uses(&scan2, nuses) } else { format!("unreadable:{}", one_line(&scan2.problems[0])) };
            let obs = format!("g1:{} g2:{}", g1, g2);
            if text2 == text1 {
                hist.add("names:fixpoint");
                out.case(&req, &obs, "ok");
            } else {
                hist.add("names:not-fixpoint-text");
                out.case(&req, &obs, &format!("FAIL:second generation differs: {}{}", super::first_diff(&text1, &text2), cap()));
            }
        }
        CompileOutcome::Ok(_) => out.case(&req, &format!("g1:{} g2:?", g1), "FAIL:second generation has not one output"),
        CompileOutcome::Err(e) => {
            hist.add("names:output-rejected");
            out.case(
                &req,
                &format!("g1:{} g2:reject", g1),
                &format!("FAIL:emitted HLSL is rejected: {}{}", one_line(&e.chars().take(200).collect::<String>()), cap()),
            );
        }
        CompileOutcome::Panic(p) => {
            hist.add("names:panic-second-generation");
            out.case(&req, &format!("g1:{} g2:panic", g1), &format!("FAIL:panic {}", p));
        }
    }
}

/// descriptors with one declaration / statement / use less (for the shrinker of checks/c04.py)
pub fn shrink_candidates(desc: &str) -> Vec<String> {
    fn variants(nodes: &[Node]) -> Vec<Vec<Node>> {
        let mut out = Vec::new();
        for i in 0..nodes.len() {
            let mut v = nodes.to_vec();
            v.remove(i);
            out.push(v);
        }
        for i in 0..nodes.len() {
            let inner: Option<(&Vec<Node>, Box<dyn Fn(Vec<Node>) -> Node>)> = match &nodes[i] {
                Node::Ns(n, b) => {
                    let n = n.clone();
                    Some((b, Box::new(move |x| Node::Ns(n.clone(), x))))
                }
                Node::Fn(n, p, b) => {
                    let (n, p) = (n.clone(), p.clone());
                    Some((b, Box::new(move |x| Node::Fn(n.clone(), p.clone(), x))))
                }
                Node::St(n, b) => {
                    let n = n.clone();
                    Some((b, Box::new(move |x| Node::St(n.clone(), x))))
                }
                Node::Bl(b) => Some((b, Box::new(Node::Bl))),
                _ => None,
            };
            if let Some((b, mk)) = inner {
                for vb in variants(b) {
                    let mut v = nodes.to_vec();
                    v[i] = mk(vb);
                    out.push(v);
                }
            }
        }
        out
    }
    match parse(desc) {
        Some(nodes) => variants(&nodes).iter().map(|v| tokens(v)).collect(),
        None => Vec::new(),
    }
}

pub fn run(args: &Args, out: &mut Out, hist: &mut Hist) {
    let mut rng = Rng::new(args.seed ^ 0x6e61_6d65_73);
    let n = args.n.unwrap_or(if args.thorough() { 6000 } else { 400 });
    for _ in 0..n {
        let mut r = rng.fork();
        let nodes = generate(&mut r, hist);
        if nodes.is_empty() {
            continue;
        }
        run_descriptor(&tokens(&nodes), out, hist);
    }
}

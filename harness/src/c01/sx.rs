//! S-expressions, values, the concrete primitive interpretation shared with the Lean driver.
#![allow(dead_code)]

#[derive(Clone, PartialEq, Debug)]
pub enum Sx {
    A(String),
    L(Vec<Sx>),
}

pub fn a(s: &str) -> Sx {
    Sx::A(s.to_string())
}
pub fn l(items: Vec<Sx>) -> Sx {
    Sx::L(items)
}
/// `(head items...)`
pub fn node(head: &str, mut items: Vec<Sx>) -> Sx {
    let mut v = vec![a(head)];
    v.append(&mut items);
    Sx::L(v)
}

impl Sx {
    pub fn show(&self) -> String {
        match self {
            Sx::A(s) => s.clone(),
            Sx::L(v) => format!("({})", v.iter().map(|x| x.show()).collect::<Vec<_>>().join(" ")),
        }
    }
    pub fn head(&self) -> &str {
        match self {
            Sx::L(v) => match v.first() {
                Some(Sx::A(s)) => s.as_str(),
                _ => "",
            },
            Sx::A(_) => "",
        }
    }
    /// items after the head
    pub fn args(&self) -> &[Sx] {
        match self {
            Sx::L(v) if !v.is_empty() => &v[1..],
            _ => &[],
        }
    }
    pub fn atom(&self) -> &str {
        match self {
            Sx::A(s) => s.as_str(),
            _ => "",
        }
    }
    pub fn contains_head(&self, h: &str) -> bool {
        match self {
            Sx::A(_) => false,
            Sx::L(v) => self.head() == h || v.iter().any(|x| x.contains_head(h)),
        }
    }
}

#[derive(Clone, Copy, PartialEq, Eq, Debug)]
pub enum T {
    Bool,
    Int,
    Uint,
    Float,
    Lit,
    Flit,
    Void,
}

impl T {
    pub fn name(self) -> &'static str {
        match self {
            T::Bool => "bool",
            T::Int => "int",
            T::Uint => "uint",
            T::Float => "float",
            T::Lit => "lit",
            T::Flit => "flit",
            T::Void => "void",
        }
    }
    pub fn parse(s: &str) -> Option<T> {
        [T::Bool, T::Int, T::Uint, T::Float, T::Lit, T::Flit, T::Void].into_iter().find(|t| t.name() == s)
    }
}

#[derive(Clone, Copy, PartialEq, Debug)]
pub enum V {
    B(bool),
    I(u32),
    U(u32),
    F(u32),
    L(i128),
    D(u64),
    Void,
}

impl V {
    pub fn show(self) -> String {
        match self {
            V::B(x) => format!("b:{}", x as u8),
            V::I(x) => format!("i:{:08x}", x),
            V::U(x) => format!("u:{:08x}", x),
            V::F(x) => format!("f:{:08x}", x),
            V::L(x) => format!("l:{}", x),
            V::D(x) => format!("d:{:016x}", x),
            V::Void => "v".to_string(),
        }
    }
    pub fn parse(s: &str) -> Option<V> {
        if s == "v" {
            return Some(V::Void);
        }
        let (k, r) = s.split_once(':')?;
        Some(match k {
            "b" => V::B(r == "1"),
            "i" => V::I(u32::from_str_radix(r, 16).ok()?),
            "u" => V::U(u32::from_str_radix(r, 16).ok()?),
            "f" => V::F(u32::from_str_radix(r, 16).ok()?),
            "l" => V::L(r.parse().ok()?),
            "d" => V::D(u64::from_str_radix(r, 16).ok()?),
            _ => return None,
        })
    }
}

#[derive(Clone, Copy, PartialEq, Eq, Debug)]
pub enum MBin {
    Add, Sub, Mul, Div, Mod, Shl, Shr, Band, Bor, Bxor, Lt, Le, Gt, Ge, Eq, Ne,
}

impl MBin {
    pub fn is_cmp(self) -> bool {
        matches!(self, MBin::Lt | MBin::Le | MBin::Gt | MBin::Ge | MBin::Eq | MBin::Ne)
    }
}

#[derive(Clone, Copy, PartialEq, Eq, Debug)]
pub enum MUn {
    Neg, Plus, Lnot, Bnot,
}

#[derive(Clone, Copy, PartialEq, Eq, Debug)]
pub enum OpSem {
    Un(MUn),
    IncDec(bool, bool),
    Bin(MBin),
    Land,
    Lor,
    Assign,
    Compound(MBin),
    Comma,
    Unsupported,
}

/// meaning of an operator *name* (IntrinsicOp and ast UnaryOp/BinOp share their names; the harness reads the
/// name of whatever node it is looking at and interprets it by the C / RSSL meaning of that operator)
pub fn op_sem(name: &str) -> OpSem {
    use MBin::*;
    match name {
        "PrefixIncrement" => OpSem::IncDec(true, true),
        "PrefixDecrement" => OpSem::IncDec(true, false),
        "PostfixIncrement" => OpSem::IncDec(false, true),
        "PostfixDecrement" => OpSem::IncDec(false, false),
        "Plus" => OpSem::Un(MUn::Plus),
        "Minus" => OpSem::Un(MUn::Neg),
        "LogicalNot" => OpSem::Un(MUn::Lnot),
        "BitwiseNot" => OpSem::Un(MUn::Bnot),
        "Add" => OpSem::Bin(Add),
        "Subtract" => OpSem::Bin(Sub),
        "Multiply" => OpSem::Bin(Mul),
        "Divide" => OpSem::Bin(Div),
        "Modulus" => OpSem::Bin(Mod),
        "LeftShift" => OpSem::Bin(Shl),
        "RightShift" => OpSem::Bin(Shr),
        "BitwiseAnd" => OpSem::Bin(Band),
        "BitwiseOr" => OpSem::Bin(Bor),
        "BitwiseXor" => OpSem::Bin(Bxor),
        "BooleanAnd" => OpSem::Land,
        "BooleanOr" => OpSem::Lor,
        "LessThan" => OpSem::Bin(Lt),
        "LessEqual" => OpSem::Bin(Le),
        "GreaterThan" => OpSem::Bin(Gt),
        "GreaterEqual" => OpSem::Bin(Ge),
        "Equality" => OpSem::Bin(Eq),
        "Inequality" => OpSem::Bin(Ne),
        "Assignment" => OpSem::Assign,
        "SumAssignment" => OpSem::Compound(Add),
        "DifferenceAssignment" => OpSem::Compound(Sub),
        "ProductAssignment" => OpSem::Compound(Mul),
        "QuotientAssignment" => OpSem::Compound(Div),
        "RemainderAssignment" => OpSem::Compound(Mod),
        "LeftShiftAssignment" => OpSem::Compound(Shl),
        "RightShiftAssignment" => OpSem::Compound(Shr),
        "BitwiseAndAssignment" => OpSem::Compound(Band),
        "BitwiseOrAssignment" => OpSem::Compound(Bor),
        "BitwiseXorAssignment" => OpSem::Compound(Bxor),
        "Sequence" => OpSem::Comma,
        _ => OpSem::Unsupported,
    }
}

/// integer edge values: 0, +-1, small, shift counts around the width (31, 32, 33), INT_MAX, INT_MIN, INT_MIN + 1, UINT_MAX,
/// UINT_MAX - 1, values whose conversion to float has to round (2^24 + 1, 2^31 - 64 / - 65, 2^32 - 128 / - 129)
pub const INT_EDGES: [u32; 22] = [
    0, 1, 2, 3, 7, 31, 32, 33, 1000, 0x7fff_ffff, 0x8000_0000, 0x8000_0001, 0xffff_ffff, 0xffff_fffe, 0xffff_fff9,
    0x0100_0001, 0x0100_0003, 0x7fff_ffc0, 0x7fff_ffbf, 0xffff_ff80, 0xffff_ff7f, 0xff00_0000,
];
/// float edge values (bit patterns): both zeros, +-1, 0.5, 1.5, 2.5, quiet NaN of both signs, signalling NaN, NaN with all
/// payload bits, both infinities, smallest / largest subnormal, FLT_MIN, +-FLT_MAX, the conversion limits 2^31, 2^31 - 128,
/// -2^31, -2^31 - 256, 2^32, 2^32 - 256, 2^24, 2^24 + 2, -0.75 (truncates to 0), 1e10
pub const FLOAT_EDGES: [u32; 32] = [
    0x0000_0000, 0x8000_0000, 0x3f80_0000, 0xbf80_0000, 0x3f00_0000, 0x3fc0_0000, 0x4020_0000, 0x7fc0_0000, 0xffc0_0000,
    0x7f80_0001, 0x7fff_ffff, 0xffff_ffff, 0x7f80_0000, 0xff80_0000, 0x0000_0001, 0x807f_ffff, 0x0080_0000, 0x7f7f_ffff,
    0xff7f_ffff, 0x4f00_0000, 0x4eff_ffff, 0xcf00_0000, 0xcf00_0001, 0x4f80_0000, 0x4f7f_ffff, 0x4b80_0000, 0x4b80_0001,
    0xbf40_0000, 0x5015_02f9, 0x4000_0000, 0xc040_0000, 0x7fc0_0001,
];


// ---- the concrete primitive interpretation (must equal Driver/C01.lean `concretePrim`) ----
fn code(m: MBin) -> u32 {
    match m {
        MBin::Add => 1,
        MBin::Sub => 2,
        MBin::Mul => 3,
        MBin::Div => 4,
        MBin::Mod => 5,
        _ => 0,
    }
}
pub fn fbin(m: MBin, x: u32, y: u32) -> u32 {
    (x.rotate_left(5) ^ y.wrapping_mul(0x9E37_79B1)).wrapping_add(code(m))
}
/// comparisons are the real IEEE-754 ones (Rust's native `f32` comparison; the Lean driver computes them on bit patterns,
/// Model/Ieee.lean): NaN is unordered, so `!(a < b)` is not `a >= b`, `a == a` can be false, `+0 == -0`.
/// (The first version compared the bit patterns as signed integers: a total order, under which an exporter that
/// replaces a comparison by its "opposite" was invisible.)
pub fn fcmp(m: MBin, x: u32, y: u32) -> bool {
    let (fx, fy) = (f32::from_bits(x), f32::from_bits(y));
    match m {
        MBin::Lt => fx < fy,
        MBin::Le => fx <= fy,
        MBin::Gt => fx > fy,
        MBin::Ge => fx >= fy,
        MBin::Eq => fx == fy,
        MBin::Ne => fx != fy,
        _ => false,
    }
}
pub fn fneg(x: u32) -> u32 {
    x ^ 0x8000_0000
}
pub fn fstep(inc: bool, x: u32) -> u32 {
    if inc { x.wrapping_add(0x0080_0000) } else { x.wrapping_sub(0x0080_0000) }
}
pub fn idiv(signed: bool, x: u32, y: u32) -> u32 {
    if y == 0 {
        0xFFFF_FFFF
    } else if signed {
        (x as i32).wrapping_div(y as i32) as u32
    } else {
        x / y
    }
}
pub fn imod(signed: bool, x: u32, y: u32) -> u32 {
    if y == 0 {
        x
    } else if signed {
        (x as i32).wrapping_rem(y as i32) as u32
    } else {
        x % y
    }
}
// conversions are the real ones: int -> float rounds to nearest (ties to even); float -> int truncates toward zero, NaN
// gives 0 and values out of range saturate (`ftoi` / `ftou` of the Direct3D functional specification = Rust's `as`).
// (The first version used a pair of mutually inverse bijections: `(int)(float)i == i` held for every i.)
pub fn i2f(x: u32) -> u32 {
    (x as i32 as f32).to_bits()
}
pub fn u2f(x: u32) -> u32 {
    (x as f32).to_bits()
}
pub fn f2i(x: u32) -> u32 {
    f32::from_bits(x) as i32 as u32
}
pub fn f2u(x: u32) -> u32 {
    f32::from_bits(x) as u32
}
pub fn f2b(x: u32) -> bool {
    (x & 0x7FFF_FFFF) != 0
}
pub fn d2f(d: u64) -> u32 {
    (d as u32) ^ ((d >> 32) as u32)
}

fn int_arith(signed: bool, m: MBin, x: u32, y: u32) -> u32 {
    match m {
        MBin::Add => x.wrapping_add(y),
        MBin::Sub => x.wrapping_sub(y),
        MBin::Mul => x.wrapping_mul(y),
        MBin::Div => idiv(signed, x, y),
        MBin::Mod => imod(signed, x, y),
        MBin::Shl => x << (y % 32),
        MBin::Shr => {
            if signed { ((x as i32) >> (y % 32)) as u32 } else { x >> (y % 32) }
        }
        MBin::Band => x & y,
        MBin::Bor => x | y,
        MBin::Bxor => x ^ y,
        _ => 0,
    }
}
fn int_cmp(signed: bool, m: MBin, x: u32, y: u32) -> bool {
    let (sx, sy) = (x as i32, y as i32);
    match m {
        MBin::Lt => if signed { sx < sy } else { x < y },
        MBin::Le => if signed { sx <= sy } else { x <= y },
        MBin::Gt => if signed { sx > sy } else { x > y },
        MBin::Ge => if signed { sx >= sy } else { x >= y },
        MBin::Eq => x == y,
        MBin::Ne => x != y,
        _ => false,
    }
}

pub fn binop(m: MBin, x: V, y: V) -> Option<V> {
    Some(match (x, y) {
        (V::I(p), V::I(q)) => if m.is_cmp() { V::B(int_cmp(true, m, p, q)) } else { V::I(int_arith(true, m, p, q)) },
        (V::U(p), V::U(q)) => if m.is_cmp() { V::B(int_cmp(false, m, p, q)) } else { V::U(int_arith(false, m, p, q)) },
        (V::F(p), V::F(q)) => {
            if m.is_cmp() {
                V::B(fcmp(m, p, q))
            } else if matches!(m, MBin::Add | MBin::Sub | MBin::Mul | MBin::Div | MBin::Mod) {
                V::F(fbin(m, p, q))
            } else {
                return None;
            }
        }
        (V::B(p), V::B(q)) => match m {
            MBin::Eq => V::B(p == q),
            MBin::Ne => V::B(p != q),
            MBin::Band => V::B(p && q),
            MBin::Bor => V::B(p || q),
            MBin::Bxor => V::B(p != q),
            _ => return None,
        },
        (V::L(p), V::L(q)) => match m {
            MBin::Lt => V::B(p < q),
            MBin::Le => V::B(p <= q),
            MBin::Gt => V::B(p > q),
            MBin::Ge => V::B(p >= q),
            MBin::Eq => V::B(p == q),
            MBin::Ne => V::B(p != q),
            MBin::Add => V::L(p.checked_add(q)?),
            MBin::Sub => V::L(p.checked_sub(q)?),
            MBin::Mul => V::L(p.checked_mul(q)?),
            // undefined in the reference semantics: division by zero, shift counts outside 0..100
            MBin::Div => V::L(if q == 0 { return None } else { p.checked_div(q)? }),
            MBin::Mod => V::L(if q == 0 { return None } else { p.checked_rem(q)? }),
            MBin::Shl => V::L(if (0..100).contains(&q) { p.checked_mul(1i128 << q)? } else { return None }),
            MBin::Shr => V::L(if (0..100).contains(&q) { p.div_euclid(1i128 << q) } else { return None }),
            _ => return None,
        },
        _ => return None,
    })
}

pub fn unop(m: MUn, x: V) -> Option<V> {
    Some(match (x, m) {
        (V::I(p), MUn::Neg) => V::I(p.wrapping_neg()),
        (V::I(p), MUn::Plus) => V::I(p),
        (V::I(p), MUn::Bnot) => V::I(!p),
        (V::U(p), MUn::Neg) => V::U(p.wrapping_neg()),
        (V::U(p), MUn::Plus) => V::U(p),
        (V::U(p), MUn::Bnot) => V::U(!p),
        (V::F(p), MUn::Neg) => V::F(fneg(p)),
        (V::F(p), MUn::Plus) => V::F(p),
        (V::L(p), MUn::Neg) => V::L(-p),
        (V::L(p), MUn::Plus) => V::L(p),
        (V::L(p), MUn::Bnot) => V::L(-p - 1),
        (V::D(p), MUn::Neg) => V::D(p ^ 0x8000_0000_0000_0000),
        (V::D(p), MUn::Plus) => V::D(p),
        (V::B(p), MUn::Lnot) => V::B(!p),
        _ => return None,
    })
}

pub fn step(inc: bool, x: V) -> Option<V> {
    Some(match x {
        V::I(p) => V::I(if inc { p.wrapping_add(1) } else { p.wrapping_sub(1) }),
        V::U(p) => V::U(if inc { p.wrapping_add(1) } else { p.wrapping_sub(1) }),
        V::F(p) => V::F(fstep(inc, p)),
        _ => return None,
    })
}

pub fn cast_val(t: T, v: V) -> Option<V> {
    let bb = |x: bool| x as u32;
    Some(match (t, v) {
        (T::Bool, V::B(x)) => V::B(x),
        (T::Bool, V::I(x)) | (T::Bool, V::U(x)) => V::B(x != 0),
        (T::Bool, V::F(x)) => V::B(f2b(x)),
        (T::Bool, V::L(n)) => V::B(n != 0),
        (T::Int, V::B(x)) => V::I(bb(x)),
        (T::Int, V::I(x)) | (T::Int, V::U(x)) => V::I(x),
        (T::Int, V::F(x)) => V::I(f2i(x)),
        (T::Int, V::L(n)) => V::I(n as u32),
        (T::Uint, V::B(x)) => V::U(bb(x)),
        (T::Uint, V::I(x)) | (T::Uint, V::U(x)) => V::U(x),
        (T::Uint, V::F(x)) => V::U(f2u(x)),
        (T::Uint, V::L(n)) => V::U(n as u32),
        (T::Float, V::B(x)) => V::F(i2f(bb(x))),
        (T::Float, V::I(x)) => V::F(i2f(x)),
        (T::Float, V::U(x)) => V::F(u2f(x)),
        (T::Float, V::F(x)) => V::F(x),
        (T::Float, V::L(n)) => V::F(i2f(n as u32)),
        (T::Float, V::D(d)) => V::F(d2f(d)),
        (T::Lit, V::L(n)) => V::L(n),
        (T::Lit, V::B(x)) => V::L(x as i128),
        (T::Lit, V::I(x)) => V::L(x as i32 as i128),
        (T::Lit, V::U(x)) => V::L(x as i128),
        (T::Flit, V::D(d)) => V::D(d),
        _ => return None,
    })
}

// ---- the built-in functions of the modelled subset: HLSL name, ir::Intrinsic variant (HLSL's own names; the harness
// reads the *emitted* name and decides by this table which built-in it is)
pub const BUILTINS: &[(&str, &str)] = &[
    ("abs", "Abs"),
    ("acos", "Acos"),
    ("asin", "Asin"),
    ("atan", "Atan"),
    ("atan2", "Atan2"),
    ("cos", "Cos"),
    ("cosh", "Cosh"),
    ("sin", "Sin"),
    ("sinh", "Sinh"),
    ("tan", "Tan"),
    ("tanh", "Tanh"),
    ("sqrt", "Sqrt"),
    ("rsqrt", "RcpSqrt"),
    ("pow", "Pow"),
    ("exp", "Exp"),
    ("exp2", "Exp2"),
    ("log", "Log"),
    ("log2", "Log2"),
    ("log10", "Log10"),
    ("floor", "Floor"),
    ("ceil", "Ceil"),
    ("trunc", "Trunc"),
    ("round", "Round"),
    ("frac", "Frac"),
    ("fmod", "Fmod"),
    ("rcp", "Rcp"),
    ("saturate", "Saturate"),
    ("sign", "Sign"),
    ("min", "Min"),
    ("max", "Max"),
    ("step", "Step"),
    ("clamp", "Clamp"),
    ("lerp", "Lerp"),
    ("smoothstep", "SmoothStep"),
    ("isnan", "IsNaN"),
    ("isinf", "IsInfinite"),
    ("isfinite", "IsFinite"),
    ("asint", "AsInt"),
    ("asuint", "AsUInt"),
    ("asfloat", "AsFloat"),
    ("countbits", "CountBits"),
    ("reversebits", "ReverseBits"),
    ("firstbithigh", "FirstBitHigh"),
    ("firstbitlow", "FirstBitLow"),
    ("f16tof32", "F16ToF32"),
    ("f32tof16", "F32ToF16"),
];

pub fn builtin_of_hlsl_name(n: &str) -> Option<&'static str> {
    BUILTINS.iter().find(|p| p.0 == n).map(|p| p.1)
}
pub fn is_modelled_intrinsic(variant: &str) -> bool {
    BUILTINS.iter().any(|p| p.1 == variant)
}
/// result type of a built-in applied at operand type `t` (HLSL's scalar signatures)
pub fn builtin_ret(variant: &str, t: T) -> T {
    match variant {
        "IsNaN" | "IsInfinite" | "IsFinite" => T::Bool,
        "Sign" | "AsInt" => T::Int,
        "AsUInt" | "F32ToF16" | "CountBits" | "FirstBitHigh" | "FirstBitLow" => T::Uint,
        "AsFloat" | "F16ToF32" => T::Float,
        _ => t,
    }
}
/// the concrete interpretation of the uninterpreted built-ins (must equal Driver/C01.lean `concretePrim.intr`)
pub fn intr(variant: &str, t: T, vals: &[V]) -> Option<V> {
    let step = |h: u32, x: u32| (h ^ x).wrapping_mul(16777619);
    let mut h: u32 = 2166136261;
    for b in variant.bytes() {
        h = step(h, b as u32);
    }
    for b in t.name().bytes() {
        h = step(h, b as u32);
    }
    for v in vals {
        let x = match v {
            V::B(x) => *x as u32,
            V::I(x) | V::U(x) | V::F(x) => *x,
            _ => 0xdead,
        };
        h = step(h, x);
    }
    Some(match builtin_ret(variant, t) {
        T::Bool => V::B(h & 1 == 1),
        T::Int => V::I(h),
        T::Uint => V::U(h),
        T::Float => V::F(h),
        _ => return None,
    })
}

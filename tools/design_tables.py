#!/usr/bin/env python3
"""Rewrite sections 9.2-9.4 of DESIGN.md (the as-built log) from git history and seeded/*/meta.json."""
import json
import os
import subprocess

ROOT = os.path.dirname(os.path.dirname(os.path.abspath(__file__)))
d = open(os.path.join(ROOT, "DESIGN.md")).read()
i = d.index("### 9.2 Changes made to /repo")
j = d.find("### 9.5", i)
head = d[:i]
tail = d[j:] if j >= 0 else ""
log = subprocess.run(["git", "-C", "/repo", "log", "--format=%h %s", "28d5604..HEAD"],
                     capture_output=True, text=True).stdout.strip().splitlines()
fixes = [l for l in log if " fix: " in l][::-1]
hooks = [l for l in log if "verif hook" in l][::-1]
s = "### 9.2 Changes made to /repo\n\n"
s += ("Hooks (add-only, `#[cfg(trark_rssl_verif)]`, commits " + ", ".join(h.split()[0] for h in hooks) +
      "): `rssl_preprocess::verif` (raw lexer, condition parser), `rssl_typer::verif`\n(casting + constant evaluator), "
      "`rssl_hlsl::verif_generate_ast`, `rssl_msl::verif_generate_ast`.\n\n")
s += ("`fix:` commits — each repairs one genuine defect that a check (or the attempt to state a theorem) exposed with a concrete "
      "input on the\nreal code; the unedited suite passed 382/382 after each; every one is recorded as `fixed` in "
      "`known_findings.jsonl` (a fixed\nrecord suppresses nothing: the reproducer stays in the corpus and is reported again if "
      "it returns):\n\n| commit | subject |\n|---|---|\n")
for f in fixes:
    h, rest = f.split(" ", 1)
    s += f"| {h} | {rest[5:]} |\n"
s += ("\nOne candidate was tried and *not* applied: parenthesising an assignment in the middle operand of `?:` in the formatter "
      "changed\na golden Metal test (`address[location] = value` inside a generated helper); the defect was repaired in the "
      "parser instead (f3b64c8).\n\n")
s += open(os.path.join(ROOT, "notes", "false_alarms.md")).read()
s += """### 9.4 Seeded changes (independent sub-agents given only the property text) and which check catches them

Each seed was re-verified by the lead (suite 382/382 with the change; demonstration fails with it and passes without it), then the
property's check was run with `VERIF_REPO=<seed tree>`. Details are in `seeded/<id>/meta.json` (`lead_verification`; `after` =
result once the check had been strengthened, where the first run missed it or found no input).

| seed | change (what it needs) | result of the check |
|---|---|---|
"""
n = 0
for sid in sorted(os.listdir(os.path.join(ROOT, "seeded"))):
    p = os.path.join(ROOT, "seeded", sid, "meta.json")
    if not os.path.exists(p):
        continue
    m = json.load(open(p))
    lv = m.get("lead_verification", {})
    res = lv.get("check_result", "").replace("|", "/")
    if lv.get("after"):
        res += " **After strengthening:** " + lv["after"].replace("|", "/")
    what = (m.get("short") or m.get("summary", "")[:200]).replace("|", "/").replace("\n", " ")
    s += f"| {sid} | {what} | {res} |\n"
    n += 1
s += f"\n{n} seeds so far. Where a seed was missed at first, the table says what was strengthened; nothing was loosened.\n\n"
# 9.5: hand-written log of the third session (notes/design_9_5.md); 9.6: generated from checks/*.py and evidence/*.json
s += open(os.path.join(ROOT, "notes", "design_9_5.md")).read().rstrip("\n") + "\n\n"
import glob, importlib, sys
sys.path.insert(0, ROOT); sys.path.insert(0, os.path.join(ROOT, "tools"))
s += ("### 9.6 As-built summary per property (generated from checks/cXX.py and the committed evidence)\n\n"
      "`thm` = property theorems audited by `#print axioms` on every run, `gen` = tables re-extracted from /repo on every run, "
      "`cases` = correspondence cases of the committed quick run, `kf` = known findings that reproduced in it. The level text is the "
      "`level_claimed.text` of MANIFEST.json; theorem lists and per-theorem meanings are in `notes/Cxx.md`.\n\n"
      "| id | thm | gen | cases | kf | what is proved, what is partial (level text) |\n|---|---|---|---|---|---|\n")
for f in sorted(glob.glob(os.path.join(ROOT, "checks", "c[0-9][0-9].py"))):
    spec = importlib.import_module("checks." + os.path.basename(f)[:-3]).SPEC
    pid = spec["id"]
    ev = {}
    try:
        ev = json.load(open(os.path.join(ROOT, "evidence", pid + ".json")))
    except Exception:
        pass
    cov = ev.get("coverage", {})
    txt = " ".join(str(spec.get("level_text", "")).split()).replace("|", "/")
    s += (f"| {pid} | {len(spec.get('theorems', []))} | {len(spec.get('gens', []))} | {cov.get('evaluations', '?')} | "
          f"{len(cov.get('known_findings_reproduced', []))} | {txt} |\n")
s += "\n"
tail = ""
open(os.path.join(ROOT, "DESIGN.md"), "w").write(head + s + tail)
print("rewrote 9.2-9.4 with", len(fixes), "fixes and", n, "seeds")

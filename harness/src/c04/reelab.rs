//! C04.reelab: re-elaboration of the exported program, node by node.
//!
//! request : C04.reelab \t <source, one line> \t <ctx> \t <ir>
//!           (C04.accept \t <source> \t - \t - : the same run, reported under this op when the front end refuses the emitted
//!            text — there is no second IR to compare and the model has no side)
//!   ctx   : `vars=<id>:<emitted name>:<type>,...;globs=<id>:<name>:<type>:v,...;funcs=<id>:<name>,...;target=0`
//!   ir    : s-expressions of every user function of the FIRST generation (as in C01.fn)
//!   (on `--requests` replay only the source is read; ctx and ir are recomputed)
//! observe : for every function of the SECOND generation (the emitted DirectX text compiled again by the real front
//!           end), the type-level skeleton of every expression position in statement order — constants by kind,
//!           variables / functions by emitted name, every `Cast`, operator, call target:
//!           `fn <name>: <e> ;; <e> ... || fn <name>: ...`   | `unsupported` | `rejected:<stage>`
//!           The Lean model predicts exactly this string from the first generation: `erase`, `unelab`, `elabE`.
//! oracle  : (independent of the model, in the property's own words) the emitted text is accepted by the front end, and
//!           exporting the second generation reproduces the text byte for byte.  The node-by-node comparison of the two
//!           IRs (statements, operators, casts, call targets, constants with their values, names) is reported in the
//!           statistics; a difference there that the text does not show (a literal kind, a cast to a literal type) is
//!           not a violation of the property by itself — it is caught as a disagreement with the model's prediction.
#[path = "../c01/sx.rs"]
#[allow(dead_code)]
mod sx;
#[path = "../c01/conv.rs"]
#[allow(dead_code)]
mod conv;
#[path = "../c01/pgen.rs"]
#[allow(dead_code)]
mod pgen;

use crate::compile_util::*;
use crate::util::*;
use conv::*;
use rssl::ir;
use sx::*;

pub fn unescape(s: &str) -> String {
    let mut o = String::new();
    let mut it = s.chars();
    while let Some(c) = it.next() {
        if c == '\\' {
            match it.next() {
                Some('n') => o.push('\n'),
                Some('t') => o.push('\t'),
                Some('r') => o.push('\r'),
                Some('\\') => o.push('\\'),
                Some(x) => {
                    o.push('\\');
                    o.push(x)
                }
                None => o.push('\\'),
            }
        } else {
            o.push(c);
        }
    }
    o
}

struct Gen1 {
    /// (function id, emitted name, s-expression)
    funcs: Vec<(u32, String, Sx)>,
    vars: Vec<(u32, String, String)>,
    globs: Vec<(u32, String, String)>,
}

fn analyse(m: &ir::Module, hist: &mut Hist) -> Gen1 {
    let names = ir::name_generator::NameMap::build(m, &[], false);
    let mut cv = IrConv::new(m);
    let mut funcs = Vec::new();
    let mut global_ids = Vec::new();
    for rd in &m.root_definitions {
        match rd {
            ir::RootDefinition::Function(id) => {
                if let Some(f) = cv.func(*id, hist) {
                    funcs.push((id.0, names.get_name_leaf(ir::name_generator::NameSymbol::Function(*id)).to_string(), f));
                }
            }
            ir::RootDefinition::GlobalVariable(id) => global_ids.push(*id),
            _ => {}
        }
    }
    let vars = cv
        .vars
        .iter()
        .map(|v| {
            let id = ir::VariableId(*v);
            let lv = m.variable_registry.get_local_variable(id);
            (
                *v,
                names.get_name_leaf(ir::name_generator::NameSymbol::LocalVariable(id)).to_string(),
                ir_type(m, lv.type_id).map(|t| t.name()).unwrap_or("unsupported").to_string(),
            )
        })
        .collect();
    let globs = global_ids
        .iter()
        .map(|id| {
            let g = &m.global_registry[id.0 as usize];
            (
                id.0,
                names.get_name_leaf(ir::name_generator::NameSymbol::GlobalVariable(*id)).to_string(),
                ir_type(m, g.type_id).map(|t| t.name()).unwrap_or("unsupported").to_string(),
            )
        })
        .collect();
    Gen1 { funcs, vars, globs }
}

impl Gen1 {
    fn var_name(&self, id: &str) -> String {
        let n: u32 = id.parse().unwrap_or(u32::MAX);
        self.vars.iter().find(|v| v.0 == n).map(|v| v.1.clone()).unwrap_or_else(|| format!("?v{}", id))
    }
    fn glob_name(&self, id: &str) -> String {
        let n: u32 = id.parse().unwrap_or(u32::MAX);
        self.globs.iter().find(|v| v.0 == n).map(|v| v.1.clone()).unwrap_or_else(|| format!("?g{}", id))
    }
    fn fn_name(&self, id: &str) -> String {
        let n: u32 = id.parse().unwrap_or(u32::MAX);
        self.funcs.iter().find(|v| v.0 == n).map(|v| v.1.clone()).unwrap_or_else(|| format!("?f{}", id))
    }
    fn ctx(&self) -> String {
        format!(
            "vars={};globs={};funcs={};target=0",
            self.vars.iter().map(|(i, n, t)| format!("{}:{}:{}", i, n, t)).collect::<Vec<_>>().join(","),
            self.globs.iter().map(|(i, n, t)| format!("{}:{}:{}:v", i, n, t)).collect::<Vec<_>>().join(","),
            self.funcs.iter().map(|(i, n, _)| format!("{}:{}", i, n)).collect::<Vec<_>>().join(",")
        )
    }
    /// expression with ids replaced by emitted names; `values` = keep the payload of constants
    fn expr(&self, e: &Sx, values: bool) -> String {
        // an expression position that calls an intrinsic function is outside the model (as a whole position)
        if !values && e.contains_head("intr") {
            return "(unsupported)".to_string();
        }
        let sub = |xs: &[Sx]| xs.iter().map(|x| self.expr(x, values)).collect::<Vec<_>>().join(" ");
        match e.head() {
            "lit" => {
                if values {
                    e.show()
                } else {
                    format!("(lit {})", e.args()[0].atom())
                }
            }
            "var" => format!("(var {})", self.var_name(e.args()[0].atom())),
            "glob" => format!("(glob {})", self.glob_name(e.args()[0].atom())),
            "cast" => format!("(cast {} {})", e.args()[0].atom(), self.expr(&e.args()[1], values)),
            "op" => format!("(op {} {})", e.args()[0].atom(), sub(&e.args()[1..])),
            "call" => {
                let r = sub(&e.args()[1..]);
                if r.is_empty() {
                    format!("(call {})", self.fn_name(e.args()[0].atom()))
                } else {
                    format!("(call {} {})", self.fn_name(e.args()[0].atom()), r)
                }
            }
            "tern" | "seq" => format!("({} {})", e.head(), sub(e.args())),
            _ => "(unsupported)".to_string(),
        }
    }
    /// every expression position of a block, in statement order; with `values` also the statement skeleton
    fn block(&self, b: &Sx, values: bool, out: &mut Vec<String>) {
        for s in b.args() {
            self.stmt(s, values, out);
        }
    }
    fn vardef(&self, items: &[Sx], values: bool, out: &mut Vec<String>) {
        if values {
            out.push(format!("<def {}>", self.var_name(items[0].atom())));
        }
        if items.len() > 1 {
            out.push(self.expr(&items[1], values));
        }
    }
    fn stmt(&self, s: &Sx, values: bool, out: &mut Vec<String>) {
        let mark = |out: &mut Vec<String>, m: &str| {
            if values {
                out.push(format!("<{}>", m));
            }
        };
        let opt = |x: &Sx, out: &mut Vec<String>| {
            if x.head() == "none" {
                if values {
                    out.push("<none>".to_string());
                }
            } else {
                out.push(self.expr(x, values));
            }
        };
        let args = s.args();
        match s.head() {
            "expr" => out.push(self.expr(&args[0], values)),
            "var" => {
                mark(out, "var");
                self.vardef(args, values, out)
            }
            "block" => {
                mark(out, "block");
                self.block(&args[0], values, out);
                mark(out, "end");
            }
            "if" => {
                mark(out, "if");
                out.push(self.expr(&args[0], values));
                self.block(&args[1], values, out);
                mark(out, "end");
            }
            "ifelse" => {
                mark(out, "ifelse");
                out.push(self.expr(&args[0], values));
                self.block(&args[1], values, out);
                mark(out, "else");
                self.block(&args[2], values, out);
                mark(out, "end");
            }
            "for" => {
                mark(out, "for");
                match args[0].head() {
                    "e" => out.push(self.expr(&args[0].args()[0], values)),
                    "defs" => {
                        for d in args[0].args() {
                            self.vardef(d.args(), values, out);
                        }
                    }
                    _ => mark(out, "none"),
                }
                opt(&args[1], out);
                opt(&args[2], out);
                self.block(&args[3], values, out);
                mark(out, "end");
            }
            "while" => {
                mark(out, "while");
                out.push(self.expr(&args[0], values));
                self.block(&args[1], values, out);
                mark(out, "end");
            }
            "dowhile" => {
                mark(out, "do");
                self.block(&args[0], values, out);
                mark(out, "while");
                out.push(self.expr(&args[1], values));
            }
            "ret" => {
                mark(out, "ret");
                if !args.is_empty() {
                    out.push(self.expr(&args[0], values));
                }
            }
            "switch" => {
                mark(out, "switch");
                out.push(self.expr(&args[1], values));
                self.block(&args[2], values, out);
                mark(out, "end");
            }
            "case" => {
                if values {
                    out.push(format!("<case {}>", args[0].show()));
                }
            }
            other => mark(out, other),
        }
    }
    fn func_line(&self, f: &(u32, String, Sx), values: bool) -> String {
        let mut out = Vec::new();
        let fx = &f.2;
        if values {
            let ps = fx.args()[2]
                .args()
                .iter()
                .map(|p| format!("{} {} {}", self.var_name(p.args()[0].atom()), p.args()[1].atom(), p.args()[2].show()))
                .collect::<Vec<_>>()
                .join(", ");
            out.push(format!("<{} ({})>", fx.args()[1].show(), ps));
        }
        self.block(&fx.args()[3], values, &mut out);
        format!("fn {}: {}", f.1, out.join(" ;; "))
    }
}

fn first_difference(a: &str, b: &str) -> String {
    let xa: Vec<&str> = a.split(" ;; ").collect();
    let xb: Vec<&str> = b.split(" ;; ").collect();
    for (i, (p, q)) in xa.iter().zip(xb.iter()).enumerate() {
        if p != q {
            return format!("position {}: first generation `{}` second generation `{}`", i, p, q);
        }
    }
    format!("{} positions became {}", xa.len(), xb.len())
}

pub fn run_source(src: &str, out: &mut Out, hist: &mut Hist) {
    let src1 = one_line(src);
    let skip = |out: &mut Out, why: &str| {
        out.case(&format!("C04.reelab\t{}\t-\t-", src1), "skip", &format!("SKIP:{}", why));
    };
    let ir1 = match front_end_src(src) {
        Ok(m) => m,
        Err(e) => {
            hist.add("reelab:source-rejected");
            return skip(out, &format!("front end ({})", e.stage()));
        }
    };
    let mut h1 = Hist::default();
    let g1 = analyse(&ir1, &mut h1);
    let ir_text = g1.funcs.iter().map(|f| f.2.show()).collect::<Vec<_>>().join(" ");
    let req = format!("C04.reelab\t{}\t{}\t{}", src1, g1.ctx(), ir_text);
    let unsupported = g1.funcs.iter().any(|f| f.2.contains_head("unsupported"))
        || g1.vars.iter().any(|v| v.2 == "unsupported")
        || g1.globs.iter().any(|v| v.2 == "unsupported");
    let text1 = match compile_src(src, Tgt::Dx, Mode::NoPipeline) {
        CompileOutcome::Ok(ps) if ps.len() == 1 => ps[0].text(),
        CompileOutcome::Panic(p) => {
            hist.add("reelab:export-panic");
            out.case(&req, "panic", &format!("FAIL:panic {}", p));
            return;
        }
        _ => {
            hist.add("reelab:export-error");
            return skip(out, "export failed");
        }
    };
    let ir2 = match guard(|| front_end_src(&text1)) {
        Ok(Ok(m)) => m,
        Ok(Err(e)) => {
            // the parser / type checker refused the emitted text: the elaboration model has nothing to predict here
            // (its hypothesis is that the text was read), so the case is reported under its own op, which has no model side
            hist.add("reelab:output-rejected");
            out.case(
                &format!("C04.accept\t{}\t-\t-", src1),
                &format!("rejected:{}", e.stage()),
                &format!("FAIL:emitted HLSL is rejected ({}): {}", e.stage(), one_line(&e.text().chars().take(400).collect::<String>())),
            );
            return;
        }
        Err(p) => {
            hist.add("reelab:panic-second-generation");
            out.case(&req, "panic", &format!("FAIL:panic {}", p));
            return;
        }
    };
    let mut h2 = Hist::default();
    let g2 = analyse(&ir2, &mut h2);
    for (k, v) in h1.0.iter() {
        if k.starts_with("ir:") || k.starts_with("op:") || k.starts_with("stmt:") {
            for _ in 0..*v {
                hist.add(k);
            }
        }
    }
    // ---- observation: skeleton of the second generation
    let obs = if unsupported || g2.funcs.iter().any(|f| f.2.contains_head("unsupported")) {
        hist.add("reelab:unsupported");
        "unsupported".to_string()
    } else {
        hist.add("reelab:supported");
        g2.funcs.iter().map(|f| g2.func_line(f, false)).collect::<Vec<_>>().join(" || ")
    };
    // ---- oracle: accepted, and the second generation prints the same text
    let l1: Vec<String> = g1.funcs.iter().map(|f| g1.func_line(f, true)).collect();
    let l2: Vec<String> = g2.funcs.iter().map(|f| g2.func_line(f, true)).collect();
    let ir_same = l1 == l2;
    hist.add(if ir_same { "reelab:ir-identical" } else { "reelab:ir-differs" });
    let oracle = match compile_src(&text1, Tgt::Dx, Mode::NoPipeline) {
        CompileOutcome::Ok(ps2) if ps2.len() == 1 => {
            let text2 = ps2[0].text();
            if text2 != text1 {
                hist.add("reelab:text-differs");
                let d = text1
                    .lines()
                    .zip(text2.lines())
                    .find(|(x, y)| x != y)
                    .map(|(x, y)| format!("`{}` became `{}`", x.trim(), y.trim()))
                    .unwrap_or_else(|| "line counts differ".to_string());
                let ir = if ir_same {
                    String::new()
                } else {
                    let (x, y) = l1.iter().zip(l2.iter()).find(|(x, y)| x != y).map(|(x, y)| (x.clone(), y.clone())).unwrap_or_default();
                    format!("; IR of {}: {}", x.split(':').next().unwrap_or(""), first_difference(&x, &y))
                };
                format!("FAIL:second generation differs: {}{}", d, ir)
            } else {
                if !ir_same {
                    hist.add("reelab:ir-differs-text-identical");
                }
                "ok".to_string()
            }
        }
        CompileOutcome::Panic(p) => format!("FAIL:panic {}", p),
        _ => "FAIL:emitted HLSL is rejected by compile()".to_string(),
    };
    out.case(&req, &obs, &oracle);
}

/// hand-written sources that exercise every way the type checker inserts or re-tags something
pub fn fixed_sources() -> Vec<&'static str> {
    vec![
        "int k(int a) { return 1; }\nint k(float a) { return 2; }\nvoid f(bool t, uint u, int i, float x) { int w = k(t + 1); w = k(x); uint v = t ? 1 : 2; float ff = i + 1.5; bool b = (2147483647 + t) > 0; }\n",
        "void f(bool t, uint u, int i, float x) { float y = -1.5f; int j = -3; uint v = ~0u; bool c = !i; int n = ~t; y = -x; j = -(-3); y = t ? 1 : 2.5; y = i ? x : 1; u = u << 1; i = i >> t; }\n",
        "int g(inout int a, out uint b, float c) { b = a; a += c; return a, b; }\nfloat f(int i, uint u) { int r = g(i, u, u); float q = r; q *= 2; q = q + i; if (i) { q = 1; } while (u) { u = u - 1; } for (int k = 0; k < u; ++k) { q += k; } do { i--; } while (i > 0.5); return i; }\n",
        "bool f(int i, uint u, float x, bool b) { b = i && x; b = !u || b; b = i == u; b = x < i; i = b + b; i = b * 2; u = b; x = b; x = u; return i; }\n",
        "static int s = 2147483647;\nstatic float sf = 1;\nuint f(uint a) { s = s + a; sf = a; int m = -2147483648; uint w = 4294967295; uint z = -1; float h = 0.1; float e = 1e10; return s; }\n",
    ]
}

pub fn run(args: &Args, out: &mut Out, hist: &mut Hist) {
    for src in fixed_sources() {
        run_source(src, out, hist);
    }
    let n = args.n.unwrap_or(if args.thorough() { 3000 } else { 150 });
    let mut rng = Rng::new(args.seed ^ 0xc04);
    for k in 0..n {
        let mut prng = rng.fork();
        let opts = pgen::GenOpts { floats: k % 3 != 0, calls: true, max_depth: 1 + (k % 3) as u32 };
        let src = pgen::Gen::new(&mut prng, opts).program();
        if let Err(p) = guard(|| run_source(&src, out, hist)) {
            hist.add("reelab:harness-panic");
            out.case(&format!("C04.reelab\t{}\t-\t-", one_line(&src)), "harness-panic", &format!("SKIP:harness panic {}", p));
        }
    }
}

import RsslVerif.Gen.CompileTables
import RsslVerif.Gen.PipelineTables
/-!
# Model of the type checker's pipeline processing (typer/src/typer/pipelines.rs, typer/src/typer.rs)

A file is a list of items in source order: function declarations / definitions and `Pipeline` blocks (everything else is
irrelevant for the pipeline list).  `typeCheck` walks the items exactly as `type_check_internal` walks the root
definitions: a function is registered in the function registry, a pipeline block is handed to `parse_pipeline` *where it
stands*, i.e. with the registry as it is at that point.  `elabCore` mirrors `parse_pipeline` after the unique-name check:
duplicate properties, the entry-point pass (`add_stage`: the entry name is looked up by scanning the whole live registry
and must denote exactly one function, which must not be a template and must have a body), the stage-combination rules,
the state pass (`RenderTargetFormatN`, `DepthTargetFormat`, `DefaultBindGroup`, `CullMode`, `WindingOrder`, `BlendState`,
`BlendStateN`) and the final assembly.  The property-name tables, the string -> enum tables, the defaults and the
syntactic skeleton are re-extracted from the source (`Gen.PipelineTables`).

A diagnostic is identified by its kind and by the *path* of the property it points at: the number of the property in a
depth-first walk of the block, 1-based; 0 is the pipeline's name.
-/
namespace RsslVerif.Model.PipelineTyper
open RsslVerif.Gen.CompileTables (Stage)
open RsslVerif.Gen.PipelineTables

/-- a property value that is not an aggregate with members -/
inductive Scalar where
  | ident (s : String)
  /-- a qualified name such as `ns::f` (not a trivial identifier) -/
  | qual (s : String)
  | str (s : String)
  /-- an expression the constant evaluator turns into this non-negative integer -/
  | num (n : Nat)
  /-- `-n` with n > 0 -/
  | neg (n : Nat)
  | float (s : String)
  | bool (b : Bool)
  /-- `sizeof(t<uint>(1u))` for a function template `t`: a constant expression with the value 4 whose type check
      instantiates `t` (the instantiated function stays in the module) -/
  | sizeofInst (template : String)
  /-- a well-typed expression that is not a constant expression (a member of a groupshared variable) -/
  | nonConst
  /-- `{ }` used where a scalar is expected -/
  | emptyAgg
  deriving DecidableEq, Repr

inductive Val where
  | single (s : Scalar)
  | agg (ps : List (String × Scalar))
  deriving DecidableEq, Repr

/-- every extractor treats an aggregate like `{ }` -/
def Val.toScalar : Val → Scalar
  | .single s => s
  | .agg _ => .emptyAgg

/-- one entry of the function registry; `shape` stands for the signature and scope (same name and shape = same function) -/
structure FnDecl where
  name : String
  shape : String
  isTemplate : Bool
  hasBody : Bool
  threads : Option (Nat × Nat × Nat)
  /-- the function carries a `numthreads` attribute one of whose arguments the constant evaluator can not turn into a
      value of the u32 range (not a constant expression, negative, a float, 2^32 or more); `threads` is `none` then -/
  badThreads : Bool := false
  deriving DecidableEq, Repr

structure PipeDef where
  name : String
  props : List (String × Val)
  deriving DecidableEq, Repr

inductive Item where
  | func (f : FnDecl)
  | pipe (d : PipeDef)
  deriving DecidableEq, Repr

inductive ErrKind where
  | alreadyDefined | noEntryPoint | invalidStageCombination | entryUnknown | propertyUnknown | propertyDuplicate
  | requiresGraphics | requiresString | requiresInteger | argumentUnknown
  /-- `error: string may not be used` from the expression checker (no location) -/
  | stringNotUsable
  /-- `error: state requires an integer argument` without a location: `add_stage` could not evaluate the `numthreads`
      attribute of the entry function (`SourceLocation::UNKNOWN`) -/
  | threadsNotInteger
  /-- outside the model: an identifier evaluated as an integer expression -/
  | unsupported
  deriving DecidableEq, Repr

structure Err where
  kind : ErrKind
  path : Nat
  deriving DecidableEq, Repr

structure IrStage where
  stage : Stage
  /-- index of the entry function in the registry (= FunctionId among user functions) -/
  entry : Nat
  entryName : String
  tgs : Option (Nat × Nat × Nat)
  deriving DecidableEq, Repr

structure Attachment where
  enabled : Bool
  src : String
  dst : String
  op : String
  srcA : String
  dstA : String
  opA : String
  mask : Nat
  deriving DecidableEq, Repr

structure GState where
  rt : List (Option String)
  depth : Option String
  cull : String
  wind : String
  blend : List Attachment
  deriving DecidableEq, Repr

structure IrPipe where
  name : String
  group : Nat
  stages : List IrStage
  state : Option GState
  deriving DecidableEq, Repr

/-! ## function registry -/

def sameFn (f g : FnDecl) : Bool := f.name == g.name && f.shape == g.shape

/-- `void f();` followed by `void f() {..}` is one registry entry that gains its body (and attributes) later;
    a different signature is a new entry.  The attributes `add_stage` reads are those of the *implementation*
    (`get_function_implementation(id).attributes`): a `numthreads` written on a prototype only is not seen, and a
    prototype repeated after the definition changes nothing. -/
def registerFn (reg : List FnDecl) (f : FnDecl) : List FnDecl :=
  if reg.any (sameFn f) then
    reg.map fun g =>
      if sameFn f g && f.hasBody then { g with hasBody := true, threads := f.threads, badThreads := f.badThreads } else g
  else reg ++ [f]

def stepReg (reg : List FnDecl) : Item → List FnDecl
  | .func f => registerFn reg f
  | .pipe _ => reg

/-- the registry after a list of items, starting from `reg` -/
def registryFrom (reg : List FnDecl) (items : List Item) : List FnDecl := items.foldl stepReg reg

def registryOf (items : List Item) : List FnDecl := registryFrom [] items

/-- positions of the registry entries called `name` -/
def matchesOf (reg : List FnDecl) (name : String) : List (FnDecl × Nat) :=
  reg.zipIdx.filter fun p => p.1.name == name

/-- `add_stage`: scan the whole registry; exactly one function of that name, not a template, with a body.  The intrinsic
    functions sit in the same registry (without bodies), so a name they use can never be an entry point. -/
def lookupEntry (reg : List FnDecl) (name : String) : Option (Nat × FnDecl) :=
  if intrinsicFunctionNames.contains name then none
  else
    match matchesOf reg name with
    | [(f, i)] => if f.isTemplate then none else if f.hasBody then some (i, f) else none
    | _ => none

/-! ## paths -/

def linesOf : String × Val → Nat
  | (_, .single _) => 1
  | (_, .agg ps) => 1 + ps.length

/-- properties with the path of their own line -/
def annotateFrom : Nat → List (String × Val) → List (Nat × String × Val)
  | _, [] => []
  | p, x :: xs => (p, x.1, x.2) :: annotateFrom (p + linesOf x) xs

def annotate (props : List (String × Val)) : List (Nat × String × Val) := annotateFrom 1 props

/-- the duplicate check: the first property (in order) whose name already occurred -/
def firstDuplicate : List String → List (Nat × String × Val) → Option Nat
  | _, [] => none
  | seen, (p, n, _) :: rest => if seen.contains n then some p else firstDuplicate (n :: seen) rest

/-! ## extractors -/

def extractUint32 (s : Scalar) (path : Nat) : Except Err Nat :=
  match s with
  | .num n => if n ≤ 4294967295 then .ok n else .error ⟨.requiresInteger, path⟩
  | .bool b => .ok (if b then 1 else 0)
  | .sizeofInst _ => .ok 4
  | .nonConst => .error ⟨.requiresInteger, path⟩
  | .neg _ => .error ⟨.requiresInteger, path⟩
  | .float _ => .error ⟨.requiresInteger, path⟩
  | .emptyAgg => .error ⟨.requiresInteger, path⟩
  | .str _ => .error ⟨.stringNotUsable, 0⟩
  | .ident _ => .error ⟨.unsupported, path⟩
  | .qual _ => .error ⟨.unsupported, path⟩

def extractString (s : Scalar) (path : Nat) : Except Err String :=
  match s with
  | .str t => .ok t
  | _ => .error ⟨.requiresString, path⟩

def extractBool (s : Scalar) (path : Nat) : Except Err Bool :=
  match s with
  | .bool b => .ok b
  | _ => .error ⟨.argumentUnknown, path⟩

/-- `extract_string` then a table; an unknown string is `ArgumentUnknown` -/
def extractEnum (table : List (String × String)) (s : Scalar) (path : Nat) : Except Err String :=
  match extractString s path with
  | .error e => .error e
  | .ok t =>
    match table.lookup t with
    | some v => .ok v
    | none => .error ⟨.argumentUnknown, path⟩

/-! ## blend state -/

def defaultAttachment : Attachment :=
  let d := stateDefaults
  { enabled := false, src := d.2.2.2.1, dst := d.2.2.2.2.1, op := d.2.2.1, srcA := d.2.2.2.2.2.1, dstA := d.2.2.2.2.2.2.1,
    opA := d.2.2.1, mask := d.2.2.2.2.2.2.2 }

def setSub (a : Attachment) (kind : SubKind) (field : BlendField) (s : Scalar) (path : Nat) : Except Err Attachment :=
  match kind with
  | .bool =>
    match extractBool s path with
    | .error e => .error e
    | .ok b => match field with
      | .blendEnabled => .ok { a with enabled := b }
      | _ => .ok a
  | .factor =>
    match extractEnum blendFactors s path with
    | .error e => .error e
    | .ok v => match field with
      | .srcBlend => .ok { a with src := v }
      | .dstBlend => .ok { a with dst := v }
      | .srcBlendAlpha => .ok { a with srcA := v }
      | .dstBlendAlpha => .ok { a with dstA := v }
      | _ => .ok a
  | .op =>
    match extractEnum blendOps s path with
    | .error e => .error e
    | .ok v => match field with
      | .blendOp => .ok { a with op := v }
      | .blendOpAlpha => .ok { a with opA := v }
      | _ => .ok a
  | .u8 =>
    match extractUint32 s path with
    | .error e => .error e
    | .ok n =>
      if n ≤ 255 then
        match field with
        | .writeMask => .ok { a with mask := n }
        | _ => .ok a
      else .error ⟨.requiresInteger, path⟩

/-- the loop of `parse_blend_state` (duplicates inside the aggregate are not checked: the later one wins) -/
def blendLoop : List (String × Scalar) → Nat → Attachment → Except Err Attachment
  | [], _, a => .ok a
  | (n, s) :: rest, p, a =>
    match blendSubProps.lookup n with
    | none => .error ⟨.propertyUnknown, p⟩
    | some (kind, field) =>
      match setSub a kind field s p with
      | .error e => .error e
      | .ok a' => blendLoop rest (p + 1) a'

def parseBlend (v : Val) (path : Nat) : Except Err Attachment :=
  match v with
  | .single _ => .error ⟨.argumentUnknown, path⟩
  | .agg ps => blendLoop ps (path + 1) defaultAttachment

/-! ## parse_pipeline -/

def stageOfName (s : String) : Option Stage :=
  [Stage.Vertex, .Task, .Mesh, .Pixel, .Compute].find? (fun st => st.name == s)

/-- `add_stage` -/
def addStage (reg : List FnDecl) (stage : Stage) (v : Val) (path : Nat) : Except Err IrStage :=
  match v with
  | .single (.ident name) =>
    match lookupEntry reg name with
    | some (i, f) =>
      -- the attribute loop over the implementation's attributes: every `numthreads` argument must evaluate to a u32
      if f.badThreads then .error ⟨.threadsNotInteger, 0⟩
      else .ok { stage := stage, entry := i, entryName := f.name, tgs := f.threads }
    | none => .error ⟨.entryUnknown, path⟩
  | _ => .error ⟨.entryUnknown, path⟩

/-- first pass: entry points in property order; the other properties are kept (in order) for the state pass -/
def entryPass (reg : List FnDecl) :
    List (Nat × String × Val) → Except Err (List IrStage × List (Nat × String × Val))
  | [] => .ok ([], [])
  | (p, n, v) :: rest =>
    match (stageProps.lookup n).bind stageOfName with
    | some st =>
      match addStage reg st v p with
      | .error e => .error e
      | .ok s =>
        match entryPass reg rest with
        | .error e => .error e
        | .ok (ss, rem) => .ok (s :: ss, rem)
    | none =>
      match entryPass reg rest with
      | .error e => .error e
      | .ok (ss, rem) => .ok (ss, (p, n, v) :: rem)

structure St where
  group : Nat
  rt : List (Option String)
  depth : Option String
  cull : String
  wind : String
  shared : Attachment
  /-- `none` = `blend_state_set[i]` is false -/
  atts : List (Option Attachment)
  deriving Repr

def initialSt : St :=
  { group := 0, rt := [], depth := none, cull := stateDefaults.1, wind := stateDefaults.2.1, shared := defaultAttachment,
    atts := List.replicate 8 none }

def setRt (l : List (Option String)) (i : Nat) (s : String) : List (Option String) :=
  (l ++ List.replicate (i + 1 - l.length) none).set i (some s)

def stateStep (isCompute : Bool) (st : St) (path : Nat) (name : String) (v : Val) : Except Err St :=
  match stateProps.lookup name with
  | none => .error ⟨.propertyUnknown, path⟩
  | some (kind, needsGraphics) =>
    if needsGraphics && isCompute then .error ⟨.requiresGraphics, path⟩
    else
      match kind with
      | .rt i =>
        match extractString v.toScalar path with
        | .error e => .error e
        | .ok s => .ok { st with rt := setRt st.rt i s }
      | .depth =>
        match extractString v.toScalar path with
        | .error e => .error e
        | .ok s => .ok { st with depth := some s }
      | .group =>
        match extractUint32 v.toScalar path with
        | .error e => .error e
        | .ok n => .ok { st with group := n }
      | .cull =>
        match extractEnum cullModes v.toScalar path with
        | .error e => .error e
        | .ok s => .ok { st with cull := s }
      | .winding =>
        match extractEnum windingOrders v.toScalar path with
        | .error e => .error e
        | .ok s => .ok { st with wind := s }
      | .blendShared =>
        match parseBlend v path with
        | .error e => .error e
        | .ok a => .ok { st with shared := a }
      | .blend i =>
        match parseBlend v path with
        | .error e => .error e
        | .ok a => .ok { st with atts := st.atts.set i (some a) }

def statePass (isCompute : Bool) : St → List (Nat × String × Val) → Except Err St
  | st, [] => .ok st
  | st, (p, n, v) :: rest =>
    match stateStep isCompute st p n v with
    | .error e => .error e
    | .ok st' => statePass isCompute st' rest

/-- the stage-combination rule: a compute pipeline has exactly one stage, any other pipeline has no compute stage -/
def badCombo (isCompute : Bool) (stages : List IrStage) : Bool :=
  if isCompute then stages.length != 1 else stages.any (fun s => s.stage == Stage.Compute)

/-- unset attachments take the shared blend state; only a graphics pipeline carries state -/
def finish (name : String) (isCompute : Bool) (stages : List IrStage) (st : St) : IrPipe :=
  { name := name, group := st.group, stages := stages,
    state :=
      if isCompute then none
      else some { rt := st.rt, depth := st.depth, cull := st.cull, wind := st.wind,
                  blend := st.atts.map fun o => match o with | some a => a | none => st.shared } }

/-- `parse_pipeline` after the unique-name check: a function of the registry and of this definition only -/
def elabCore (reg : List FnDecl) (d : PipeDef) : Except Err IrPipe :=
  match firstDuplicate [] (annotate d.props) with
  | some p => .error ⟨.propertyDuplicate, p⟩
  | none =>
    match entryPass reg (annotate d.props) with
    | .error e => .error e
    | .ok (stages, remaining) =>
      match stages with
      | [] => .error ⟨.noEntryPoint, 0⟩
      | s0 :: _ =>
        if badCombo (s0.stage == Stage.Compute) stages then .error ⟨.invalidStageCombination, 0⟩
        else
          match statePass (s0.stage == Stage.Compute) initialSt remaining with
          | .error e => .error e
          | .ok st => .ok (finish d.name (s0.stage == Stage.Compute) stages st)

/-! ## the walk over the file -/

structure TState where
  reg : List FnDecl
  pipes : List IrPipe
  deriving Repr

/-- one root definition; an error carries the name of the pipeline block it arose in -/
def step (s : TState) : Item → Except (String × Err) TState
  | .func f => .ok { s with reg := registerFn s.reg f }
  | .pipe d =>
    if s.pipes.any (fun p => p.name == d.name) then .error (d.name, ⟨.alreadyDefined, 0⟩)
    else
      match elabCore s.reg d with
      | .error e => .error (d.name, e)
      | .ok p => .ok { s with pipes := s.pipes ++ [p] }

def typeCheckFrom : TState → List Item → Except (String × Err) TState
  | s, [] => .ok s
  | s, it :: rest =>
    match step s it with
    | .error e => .error e
    | .ok s' => typeCheckFrom s' rest

def typeCheck (items : List Item) : Except (String × Err) TState := typeCheckFrom ⟨[], []⟩ items

/-- the pipeline definitions of a file, each with the registry as it stands where the block is written -/
def pipeDefsFrom : List FnDecl → List Item → List (List FnDecl × PipeDef)
  | _, [] => []
  | reg, .func f :: rest => pipeDefsFrom (registerFn reg f) rest
  | reg, .pipe d :: rest => (reg, d) :: pipeDefsFrom reg rest

def pipeDefs (items : List Item) : List (List FnDecl × PipeDef) := pipeDefsFrom [] items

/-! ## what the property values of a block leave behind in the module

`extract_uint32` hands the value to `parse_expr` **on the live typer context**: a value that calls a function template
instantiates it, and the instantiated function is part of the module every pipeline is built from. -/

def Scalar.instantiates : Scalar → List String
  | .sizeofInst t => [t]
  | _ => []

def Val.instantiates : Val → List String
  | .single s => s.instantiates
  | .agg ps => ps.flatMap fun p => p.2.instantiates

/-- the function templates the property values of a block instantiate (for a block of an accepted file: every value is
    evaluated; such a value is only accepted where an integer is expected) -/
def instantiatedBy (d : PipeDef) : List String := d.props.flatMap fun p => p.2.instantiates

/-- the template instantiations the Pipeline blocks of an accepted file add to the module, in source order -/
def instancesOf : List Item → List String
  | [] => []
  | .func _ :: rest => instancesOf rest
  | .pipe d :: rest => instantiatedBy d ++ instancesOf rest

/-- delete the Pipeline blocks whose name is not kept; everything else stays -/
def deletePipes (keep : String → Bool) (items : List Item) : List Item :=
  items.filter fun it => match it with
    | .func _ => true
    | .pipe d => keep d.name

end RsslVerif.Model.PipelineTyper

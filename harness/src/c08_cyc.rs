// Call-graph generator ("cyc" streams; included into c08_gen.rs).
//
// `GlobalUsageAnalysis::recurse` (ir/src/usage_analysis.rs) closes the "requires" relation over functions, global
// variables and constant buffers.  It runs for every module that is exported (NameMap::build for both back ends, the
// MSL generator once more), so its termination on EVERY call graph is part of "compilation is total".  A call cycle
// through two or more different symbols is valid source text (a forward declaration, two methods of one struct, a
// default argument, a global's initialiser, a template that calls back into a declared function) and the unchanged
// compiler accepts it.  The programs here are VALID by construction:
//   * `cycone:<k>` — a deterministic sweep, every variant once per check: rings of 2..5 symbols whose special link is
//     a forward-declared function / struct methods / a default argument / a global initialiser / a template
//     instantiation / functions of a namespace / a mixture, with and without an entry point + pipeline, plus
//     figure-eight, chorded, complete, tail-in / tail-out graphs and acyclic controls (deep chains, trees, DAGs);
//   * `cyc:<seed>`   — random graphs of 2..9 symbols with random kinds, a random ring and random extra edges.
// Oracle (c08.rs `run_one`): such a program must COMPILE in no-pipeline mode and, when it has a pipeline, in pipeline
// mode too (`must_compile`); a crash / stack overflow / hang is reported by the supervisor as for every other stream.

pub struct CycProgram {
    pub text: String,
    pub cats: std::collections::BTreeSet<&'static str>,
    /// the call graph that was emitted (after the legality repair): kinds and edges, for the STAT line / debugging
    pub shape: String,
}

#[derive(Clone, Copy, PartialEq, Eq, Debug)]
enum CyKind {
    /// forward-declared free function, defined after everything else
    Fn,
    /// the same inside `namespace cyn`
    NsFn,
    /// method of `struct cy_S` (methods see each other without a declaration)
    Method,
    /// `template<typename T> T cy_tK(T x)`: defined before its users (a declared template cannot be defined later)
    Tmpl,
    /// free function whose FIRST out-edge sits in the default value of its second parameter
    DefArg,
    /// `static int cy_gK = <calls>;`
    Global,
}

impl CyKind {
    fn letter(self) -> char {
        match self {
            CyKind::Fn => 'f',
            CyKind::NsFn => 'n',
            CyKind::Method => 'm',
            CyKind::Tmpl => 't',
            CyKind::DefArg => 'd',
            CyKind::Global => 'g',
        }
    }
}

struct CyGraph {
    kinds: Vec<CyKind>,
    /// out-edges per node, in emission order, duplicates allowed (a second call of the same function)
    out: Vec<Vec<usize>>,
    pipeline: bool,
    /// nodes that read the resource `cy_out` (only with a pipeline: gives the Metal back end implicit parameters
    /// to thread through the cycle)
    reads_resource: Vec<bool>,
}

const CYC_CATEGORIES: &[&str] = &[
    "ring-2", "ring-3", "ring-4", "ring-5", "acyclic", "self-loop", "link-fn", "link-nsfn", "link-method",
    "link-template", "link-default-argument", "link-global-initialiser", "with-pipeline", "no-pipeline", "figure-eight",
    "chords", "complete", "tail-in", "tail-out", "deep-chain", "tree", "dag", "resource-in-cycle", "random",
];

pub fn cyc_categories() -> Vec<&'static str> {
    CYC_CATEGORIES.to_vec()
}

/// is `v` callable / readable at the place where `u`'s edge is written?  `default_edge`: the edge sits in a default
/// argument (an expression: no object can be declared there)
fn cy_visible(kinds: &[CyKind], u: usize, v: usize, default_edge: bool) -> bool {
    use CyKind::*;
    match (kinds[u], kinds[v]) {
        (_, Fn) | (_, NsFn) => true,
        (Global, Global) => u > v,
        (_, Global) => true,
        (Global, _) => false,
        (Method, Method) => true,
        (_, Method) => kinds[u] != Method && !default_edge && u != v,
        (Method, _) => false,
        (Tmpl, Tmpl) => u > v,
        (_, Tmpl) => true,
        (Tmpl, DefArg) => false,
        (DefArg, DefArg) => u > v,
        (_, DefArg) => true,
    }
}

/// repair: the target of an edge that could not be written becomes a forward-declared function (always visible,
/// sees everything itself); one pass suffices because `Fn` targets and `Fn` sources are always legal
fn cy_legalise(g: &mut CyGraph) {
    loop {
        let mut changed = false;
        for u in 0..g.kinds.len() {
            for (k, &v) in g.out[u].clone().iter().enumerate() {
                let default_edge = g.kinds[u] == CyKind::DefArg && k == 0;
                let self_ok = u != v || matches!(g.kinds[u], CyKind::Fn | CyKind::NsFn | CyKind::Method);
                if !(self_ok && cy_visible(&g.kinds, u, v, default_edge)) && g.kinds[v] != CyKind::Fn {
                    g.kinds[v] = CyKind::Fn;
                    changed = true;
                }
            }
        }
        if !changed {
            break;
        }
    }
}

fn cy_name(kinds: &[CyKind], v: usize) -> String {
    match kinds[v] {
        CyKind::Fn | CyKind::NsFn | CyKind::DefArg => format!("cy_f{}", v),
        CyKind::Method => format!("cy_m{}", v),
        CyKind::Tmpl => format!("cy_t{}", v),
        CyKind::Global => format!("cy_g{}", v),
    }
}

/// the expression that uses `v` from the body of `u` with the argument `arg`
fn cy_use(kinds: &[CyKind], u: Option<usize>, v: usize, arg: &str, rng: &mut Rng) -> String {
    let n = cy_name(kinds, v);
    match kinds[v] {
        CyKind::Fn => format!("{}({})", n, arg),
        CyKind::NsFn => {
            if u.map(|u| kinds[u] == CyKind::NsFn).unwrap_or(false) && rng.chance(1, 2) { format!("{}({})", n, arg) } else { format!("cyn::{}({})", n, arg) }
        }
        CyKind::DefArg => {
            if rng.chance(1, 3) { format!("{}({}, 3)", n, arg) } else { format!("{}({})", n, arg) }
        }
        CyKind::Tmpl => format!("{}<int>({})", n, arg),
        CyKind::Method => {
            if u.map(|u| kinds[u] == CyKind::Method).unwrap_or(false) { format!("{}({})", n, arg) } else { format!("so.{}({})", n, arg) }
        }
        CyKind::Global => n,
    }
}

/// the statements of a body that returns an `int` computed from the uses `calls` (already rendered); `zero` = the
/// condition under which the recursion stops, `base` = what is returned then
fn cy_body(calls: &[String], n: &str, base: &str, rng: &mut Rng) -> String {
    if calls.is_empty() {
        return format!("return {};", base);
    }
    let sum = calls.join(" + ");
    match rng.below(6) {
        0 => format!("if ({} <= 0) return {}; return {};", n, base, sum),
        1 => format!("return {} <= 0 ? {} : ({});", n, base, sum),
        2 => format!("int r = {}; for (int i = 0; i < {}; ++i) {{ r += {}; }} return r;", base, n, sum),
        3 => format!("int r = {}; if ({} > 0) {{ r = {}; }} else {{ r = 1; }} return r;", base, n, sum),
        4 => {
            let rest = if calls.len() > 1 { format!(" r += {};", calls[1..].join(" + ")) } else { String::new() };
            format!("int r = {}; while (r < {}) {{ r += 1 + {}; }}{} return r;", base, n, calls[0], rest)
        }
        _ => format!("switch ({}) {{ case 0: return {}; default: return {}; }}", n, base, sum),
    }
}

fn cy_render(g: &CyGraph, rng: &mut Rng) -> String {
    use CyKind::*;
    let k = &g.kinds;
    let n = k.len();
    let mut s = String::new();
    if g.pipeline {
        s.push_str("RWStructuredBuffer<int> cy_out;\n");
    }
    // forward declarations
    for v in 0..n {
        if k[v] == Fn {
            s.push_str(&format!("int cy_f{}(int n);\n", v));
        }
    }
    if k.contains(&NsFn) {
        s.push_str("namespace cyn {");
        for v in 0..n {
            if k[v] == NsFn {
                s.push_str(&format!(" int cy_f{}(int n);", v));
            }
        }
        s.push_str(" }\n");
    }
    // uses of node u's edges from position `from`, each with its argument; nested: a call may be the argument of the previous one
    let uses = |u: usize, from: usize, arg: &str, rng: &mut Rng| -> Vec<String> {
        let mut out: Vec<String> = Vec::new();
        let es = &g.out[u][from.min(g.out[u].len())..];
        let mut i = 0;
        while i < es.len() {
            let v = es[i];
            // f(g(n - 1)): the next use becomes the argument (only if this one takes an argument)
            if i + 1 < es.len() && k[v] != Global && rng.chance(1, 5) {
                let inner = cy_use(k, Some(u), es[i + 1], arg, rng);
                out.push(cy_use(k, Some(u), v, &inner, rng));
                i += 2;
            } else {
                out.push(cy_use(k, Some(u), v, arg, rng));
                i += 1;
            }
        }
        if g.reads_resource[u] && g.pipeline && k[u] != Global {
            out.push("cy_out.Load(0)".to_string());
        }
        out
    };
    let needs_object = |u: usize, from: usize| k[u] != Method && g.out[u].iter().skip(from).any(|&v| k[v] == Method);
    // globals
    for u in 0..n {
        if k[u] == Global {
            let c = uses(u, 0, "1", rng);
            s.push_str(&format!("static int cy_g{} = {};\n", u, if c.is_empty() { u.to_string() } else { c.join(" + ") }));
        }
    }
    // struct with the methods
    if k.contains(&Method) {
        s.push_str("struct cy_S {\n    int v;\n");
        for u in 0..n {
            if k[u] == Method {
                let c = uses(u, 0, "n - 1", rng);
                s.push_str(&format!("    int cy_m{}(int n) {{ {} }}\n", u, cy_body(&c, "n", "v", rng)));
            }
        }
        s.push_str("};\n");
    }
    // templates
    for u in 0..n {
        if k[u] == Tmpl {
            let c: Vec<String> = uses(u, 0, "(int)x - 1", rng);
            let obj = if needs_object(u, 0) { "cy_S so; so.v = 0; " } else { "" };
            let body = if c.is_empty() { "return x;".to_string() } else { format!("if (x <= (T)0) return x; {}return (T)({});", obj, c.join(" + ")) };
            s.push_str(&format!("template<typename T> T cy_t{}(T x) {{ {} }}\n", u, body));
        }
    }
    // functions with a default argument: the first edge is the default value
    for u in 0..n {
        if k[u] == DefArg {
            let d = match g.out[u].first() {
                Some(&v) => cy_use(k, Some(u), v, "1", rng),
                None => "7".to_string(),
            };
            let mut c = uses(u, 1, "n - 1", rng);
            c.push("d".to_string());
            let obj = if needs_object(u, 1) { "cy_S so; so.v = n; " } else { "" };
            s.push_str(&format!("int cy_f{}(int n, int d = {}) {{ {}{} }}\n", u, d, obj, cy_body(&c, "n", "d", rng)));
        }
    }
    // definitions of the declared functions, in a random order
    let mut order: Vec<usize> = (0..n).filter(|&v| matches!(k[v], Fn | NsFn)).collect();
    for i in (1..order.len()).rev() {
        let j = rng.below(i as u64 + 1) as usize;
        order.swap(i, j);
    }
    for u in order {
        let c = uses(u, 0, "n - 1", rng);
        let obj = if needs_object(u, 0) { "cy_S so; so.v = n; " } else { "" };
        let def = format!("int cy_f{}(int n) {{ {}{} }}", u, obj, cy_body(&c, "n", &u.to_string(), rng));
        if k[u] == NsFn {
            s.push_str(&format!("namespace cyn {{ {} }}\n", def));
        } else {
            s.push_str(&def);
            s.push('\n');
        }
    }
    if g.pipeline {
        let mut roots = vec![0usize];
        if n > 1 && rng.chance(1, 2) {
            roots.push(rng.below(n as u64) as usize);
        }
        let obj = if roots.iter().any(|&v| k[v] == Method) { "cy_S so; so.v = 1; " } else { "" };
        let calls: Vec<String> = roots.iter().map(|&v| cy_use(k, None, v, "(int)dtid.x", rng)).collect();
        s.push_str(&format!("[numthreads(8, 1, 1)]\nvoid CSMAIN(uint3 dtid : SV_DispatchThreadID) {{ {}cy_out[dtid.x] = {}; }}\nPipeline Main {{ ComputeShader = CSMAIN; }}\n", obj, calls.join(" + ")));
        if rng.chance(1, 4) {
            s.push_str("Pipeline Second { ComputeShader = CSMAIN; }\n");
        }
    }
    s
}

fn cy_ring(g: &mut CyGraph, nodes: &[usize]) {
    for i in 0..nodes.len() {
        g.out[nodes[i]].push(nodes[(i + 1) % nodes.len()]);
    }
}

fn cy_new(n: usize, pipeline: bool) -> CyGraph {
    CyGraph { kinds: vec![CyKind::Fn; n], out: vec![Vec::new(); n], pipeline, reads_resource: vec![false; n] }
}

/// does the graph have a cycle through two or more different nodes / a self loop?
fn cy_classify(g: &CyGraph, cats: &mut std::collections::BTreeSet<&'static str>) {
    let n = g.kinds.len();
    // shortest cycle length through >= 2 nodes (BFS from every node)
    let mut best = usize::MAX;
    for s in 0..n {
        let mut dist = vec![usize::MAX; n];
        let mut q = std::collections::VecDeque::new();
        for &v in &g.out[s] {
            if v != s && dist[v] == usize::MAX {
                dist[v] = 1;
                q.push_back(v);
            }
        }
        while let Some(u) = q.pop_front() {
            for &v in &g.out[u] {
                if v == s {
                    best = best.min(dist[u] + 1);
                } else if dist[v] == usize::MAX {
                    dist[v] = dist[u] + 1;
                    q.push_back(v);
                }
            }
        }
    }
    cats.insert(match best {
        2 => "ring-2",
        3 => "ring-3",
        4 => "ring-4",
        5 => "ring-5",
        usize::MAX => "acyclic",
        _ => "ring-6plus",
    });
    if (0..n).any(|u| g.out[u].contains(&u)) {
        cats.insert("self-loop");
    }
    if best != usize::MAX {
        for kd in &g.kinds {
            cats.insert(match kd {
                CyKind::Fn => "link-fn",
                CyKind::NsFn => "link-nsfn",
                CyKind::Method => "link-method",
                CyKind::Tmpl => "link-template",
                CyKind::DefArg => "link-default-argument",
                CyKind::Global => "link-global-initialiser",
            });
        }
        if g.pipeline && g.reads_resource.iter().any(|&b| b) {
            cats.insert("resource-in-cycle");
        }
    }
    cats.insert(if g.pipeline { "with-pipeline" } else { "no-pipeline" });
}

fn cy_finish(mut g: CyGraph, mut cats: std::collections::BTreeSet<&'static str>, rng: &mut Rng) -> CycProgram {
    cy_legalise(&mut g);
    cy_classify(&g, &mut cats);
    let shape = format!(
        "{}:{}",
        g.kinds.iter().map(|k| k.letter()).collect::<String>(),
        g.out.iter().enumerate().map(|(u, vs)| format!("{}>{}", u, vs.iter().map(|v| v.to_string()).collect::<Vec<_>>().join("."))).collect::<Vec<_>>().join(",")
    );
    CycProgram { text: cy_render(&g, rng), cats, shape }
}

const CY_SPECIAL: &[CyKind] = &[CyKind::Fn, CyKind::NsFn, CyKind::Method, CyKind::Tmpl, CyKind::DefArg, CyKind::Global];

/// the deterministic sweep: (category, variant builder index)
pub fn cyc_variant_count() -> usize {
    // rings: 4 lengths x 6 special kinds x {one special node, all special where possible} x {no pipeline, pipeline}
    // + 5 shapes x 2 x 2 + 6 acyclic controls
    4 * 6 * 2 * 2 + 5 * 2 * 2 + 6
}

pub fn cyc_single(k: usize) -> Option<CycProgram> {
    let mut rng = Rng::new(0x6379_6300 + k as u64);
    let mut cats = std::collections::BTreeSet::new();
    let rings = 4 * 6 * 2 * 2;
    if k < rings {
        let pipeline = k % 2 == 1;
        let all = (k / 2) % 2 == 1;
        let kind = CY_SPECIAL[(k / 4) % 6];
        let len = 2 + k / 24;
        let mut g = cy_new(len, pipeline);
        g.kinds[0] = kind;
        if all {
            for v in 0..len {
                g.kinds[v] = kind;
            }
        }
        let nodes: Vec<usize> = (0..len).collect();
        cy_ring(&mut g, &nodes);
        if pipeline && all {
            g.reads_resource[len - 1] = true;
        }
        return Some(cy_finish(g, cats, &mut rng));
    }
    let k2 = k - rings;
    if k2 < 20 {
        let pipeline = k2 % 2 == 1;
        let mixed = (k2 / 2) % 2 == 1;
        let shape = k2 / 4;
        let mut g;
        match shape {
            0 => {
                // two rings sharing node 0
                g = cy_new(5, pipeline);
                cy_ring(&mut g, &[0, 1, 2]);
                cy_ring(&mut g, &[0, 3, 4]);
                cats.insert("figure-eight");
            }
            1 => {
                g = cy_new(5, pipeline);
                cy_ring(&mut g, &[0, 1, 2, 3, 4]);
                g.out[0].push(2);
                g.out[3].push(1);
                g.out[2].push(2);
                cats.insert("chords");
            }
            2 => {
                g = cy_new(4, pipeline);
                for u in 0..4 {
                    for v in 0..4 {
                        if u != v {
                            g.out[u].push(v);
                        }
                    }
                }
                cats.insert("complete");
            }
            3 => {
                // a chain that enters a ring
                g = cy_new(6, pipeline);
                g.out[0].push(1);
                g.out[1].push(2);
                g.out[2].push(3);
                cy_ring(&mut g, &[3, 4, 5]);
                cats.insert("tail-in");
            }
            _ => {
                // a ring with a chain hanging off it
                g = cy_new(6, pipeline);
                cy_ring(&mut g, &[0, 1]);
                g.out[1].push(2);
                g.out[2].push(3);
                g.out[3].push(4);
                g.out[4].push(5);
                cats.insert("tail-out");
            }
        }
        if mixed {
            let n = g.kinds.len();
            for v in 0..n {
                g.kinds[v] = CY_SPECIAL[(v + shape) % 6];
            }
        }
        return Some(cy_finish(g, cats, &mut rng));
    }
    let k3 = k2 - 20;
    if k3 < 6 {
        let pipeline = k3 % 2 == 1;
        let mut g;
        match k3 / 2 {
            0 => {
                g = cy_new(60, pipeline);
                for u in 0..59 {
                    g.out[u].push(u + 1);
                }
                cats.insert("deep-chain");
            }
            1 => {
                g = cy_new(31, pipeline);
                for u in 0..15 {
                    g.out[u].push(2 * u + 1);
                    g.out[u].push(2 * u + 2);
                }
                cats.insert("tree");
            }
            _ => {
                g = cy_new(10, pipeline);
                for u in 0..10 {
                    for v in (u + 1)..10 {
                        if (u * 7 + v * 3) % 4 != 0 {
                            g.out[u].push(v);
                        }
                    }
                }
                for v in 0..10 {
                    g.kinds[v] = CY_SPECIAL[v % 6];
                }
                cats.insert("dag");
            }
        }
        return Some(cy_finish(g, cats, &mut rng));
    }
    None
}

/// random call graphs
pub fn gen_cyc(rng: &mut Rng) -> CycProgram {
    let mut cats = std::collections::BTreeSet::new();
    cats.insert("random");
    let n = 2 + rng.below(8) as usize;
    let mut g = cy_new(n, rng.chance(1, 2));
    // kinds: mostly declared functions, the others with equal weight
    for v in 0..n {
        g.kinds[v] = if rng.chance(2, 5) { CyKind::Fn } else { *rng.pick(CY_SPECIAL) };
    }
    let shape = rng.below(10);
    if shape == 0 {
        // acyclic control: edges only from lower to higher index
        for u in 0..n {
            for v in (u + 1)..n {
                if rng.chance(1, 3) {
                    g.out[u].push(v);
                }
            }
        }
    } else {
        // a ring over a random subset, in a random order
        let mut nodes: Vec<usize> = (0..n).collect();
        for i in (1..n).rev() {
            let j = rng.below(i as u64 + 1) as usize;
            nodes.swap(i, j);
        }
        let len = (2 + rng.below(4) as usize).min(n);
        cy_ring(&mut g, &nodes[..len]);
        if shape >= 7 && n - len >= 2 {
            // a second ring, possibly sharing a node
            let start = if rng.chance(1, 2) { len - 1 } else { len };
            cy_ring(&mut g, &nodes[start..]);
        }
        let extra = rng.below(n as u64 + 2) as usize;
        for _ in 0..extra {
            let u = rng.below(n as u64) as usize;
            let v = rng.below(n as u64) as usize;
            if g.out[u].len() < 4 {
                g.out[u].push(v);
            }
        }
        // a default-argument node wants its ring edge first: rotate at random so that the default value is sometimes
        // the ring link and sometimes an extra edge
        for u in 0..n {
            if g.out[u].len() > 1 && rng.chance(1, 3) {
                let r = rng.below(g.out[u].len() as u64) as usize;
                g.out[u].rotate_left(r);
            }
        }
    }
    if g.pipeline {
        for v in 0..n {
            g.reads_resource[v] = rng.chance(1, 4);
        }
    }
    cy_finish(g, cats, rng)
}

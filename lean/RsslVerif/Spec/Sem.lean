import RsslVerif.Gen.HlslGenTables
import RsslVerif.Model.Ir
import RsslVerif.Model.HlslAst
/-!
# `Spec.Sem` — what "computes exactly the results" means (property C01)

Two big-step evaluators over one value domain and one abstract primitive signature `Prim`:

* `Ir.eval` / `Ir.exec` — RSSL's typed semantics: every node carries its resolved operation (`IntrinsicOp`),
  every conversion is an explicit `Cast`, variables are ids; operators require operands of one type.
* `Ast.eval` / `Ast.exec` — C-like semantics of the emitted syntax: identifiers are resolved by name (`Env.res`),
  a literal's type comes from its suffix (`3` is a literal int, `3u` uint, `1.0f` float), the operation is chosen by the
  operator *token* and the *static* operand types (`Ast.typeOf`) after the usual arithmetic conversions (`common`),
  assignment converts to the type of the left operand and yields the stored value, `&&`/`||`/`?:` short-circuit
  (HLSL 2021), `,` evaluates left to right, operands are evaluated left to right.

Float arithmetic, float/int conversions and integer division are *abstract* (`Prim`): the theorems in `Thm/C01`
hold for every interpretation, i.e. for whatever the hardware does, because the same primitive is applied to the same
arguments in the same order.  Loops are bounded by `fuel` iterations per loop (`none` = stuck or out of fuel).
-/
namespace RsslVerif.Spec.Sem
open RsslVerif.Gen.HlslGenTables RsslVerif.Gen.HlslIntrinsicTables RsslVerif.Model
open RsslVerif.Model.Ir (Ty Var Const)

/-! ## values and primitives -/

inductive Val where
  | b (x : Bool)
  | i (x : BitVec 32)
  | u (x : BitVec 32)
  | f (x : BitVec 32)       -- float32 bit pattern
  | lit (n : Int)           -- literal int (exact)
  | flit (x : BitVec 64)    -- literal float (f64 bit pattern)
  | void
  deriving DecidableEq, Repr, Inhabited

/-- machine-level binary operations -/
inductive MBin where
  | add | sub | mul | div | mod | shl | shr | band | bor | bxor | lt | le | gt | ge | eq | ne
  deriving DecidableEq, Repr, Inhabited

inductive MUn where
  | neg | plus | lnot | bnot
  deriving DecidableEq, Repr, Inhabited

def MBin.isCmp : MBin → Bool
  | .lt | .le | .gt | .ge | .eq | .ne => true
  | _ => false

/-- the primitives whose results the hardware / driver defines; shared by both semantics -/
structure Prim where
  fbin : MBin → BitVec 32 → BitVec 32 → BitVec 32
  fcmp : MBin → BitVec 32 → BitVec 32 → Bool
  fneg : BitVec 32 → BitVec 32
  fstep : Bool → BitVec 32 → BitVec 32
  idiv : Bool → BitVec 32 → BitVec 32 → BitVec 32     -- signed?, a / b
  imod : Bool → BitVec 32 → BitVec 32 → BitVec 32
  i2f : BitVec 32 → BitVec 32
  u2f : BitVec 32 → BitVec 32
  f2i : BitVec 32 → BitVec 32
  f2u : BitVec 32 → BitVec 32
  f2b : BitVec 32 → Bool
  d2f : BitVec 64 → BitVec 32
  /-- the pure math / bit intrinsics, applied at operand type `t` (uninterpreted, shared by both semantics) -/
  intr : Intrinsic → Ty → List Val → Option Val

def intArith (P : Prim) (signed : Bool) (m : MBin) (a b : BitVec 32) : BitVec 32 :=
  match m with
  | .add => a + b
  | .sub => a - b
  | .mul => a * b
  | .div => P.idiv signed a b
  | .mod => P.imod signed a b
  | .shl => a <<< (b.toNat % 32)
  | .shr => if signed then a.sshiftRight (b.toNat % 32) else a >>> (b.toNat % 32)
  | .band => a &&& b
  | .bor => a ||| b
  | .bxor => a ^^^ b
  | _ => 0

def intCmp (signed : Bool) (m : MBin) (a b : BitVec 32) : Bool :=
  match m with
  | .lt => if signed then a.slt b else a.ult b
  | .le => if signed then a.sle b else a.ule b
  | .gt => if signed then b.slt a else b.ult a
  | .ge => if signed then b.sle a else b.ule a
  | .eq => a == b
  | .ne => a != b
  | _ => false

def litCmp (m : MBin) (a b : Int) : Bool :=
  match m with
  | .lt => decide (a < b) | .le => decide (a ≤ b) | .gt => decide (b < a) | .ge => decide (b ≤ a)
  | .eq => a == b | .ne => a != b | _ => false

/-- one binary machine operation on two operands of the *same* kind -/
def binop (P : Prim) (m : MBin) : Val → Val → Option Val
  | .i a, .i b => if m.isCmp then some (.b (intCmp true m a b)) else some (.i (intArith P true m a b))
  | .u a, .u b => if m.isCmp then some (.b (intCmp false m a b)) else some (.u (intArith P false m a b))
  | .f a, .f b =>
    if m.isCmp then some (.b (P.fcmp m a b))
    else match m with
      | .add | .sub | .mul | .div | .mod => some (.f (P.fbin m a b))
      | _ => none
  | .b a, .b b =>
    match m with
    | .eq => some (.b (a == b)) | .ne => some (.b (a != b))
    | .band => some (.b (a && b)) | .bor => some (.b (a || b)) | .bxor => some (.b (a != b))
    | _ => none
  | .lit a, .lit b =>
    if m.isCmp then some (.b (litCmp m a b))
    else match m with
      | .add => some (.lit (a + b)) | .sub => some (.lit (a - b)) | .mul => some (.lit (a * b))
      | .div => if b = 0 then none else some (.lit (Int.tdiv a b))
      | .mod => if b = 0 then none else some (.lit (Int.tmod a b))
      | .shl => if 0 ≤ b ∧ b < 100 then some (.lit (a * 2 ^ b.toNat)) else none
      | .shr => if 0 ≤ b ∧ b < 100 then some (.lit (a / 2 ^ b.toNat)) else none
      | _ => none
  | _, _ => none

def unop (P : Prim) (m : MUn) : Val → Option Val
  | .i a => match m with | .neg => some (.i (-a)) | .plus => some (.i a) | .bnot => some (.i (~~~a)) | .lnot => none
  | .u a => match m with | .neg => some (.u (-a)) | .plus => some (.u a) | .bnot => some (.u (~~~a)) | .lnot => none
  | .f a => match m with | .neg => some (.f (P.fneg a)) | .plus => some (.f a) | _ => none
  | .lit n => match m with | .neg => some (.lit (-n)) | .plus => some (.lit n) | .bnot => some (.lit (-n - 1)) | .lnot => none
  | .b a => match m with | .lnot => some (.b (!a)) | _ => none
  | .flit d => match m with | .neg => some (.flit (d ^^^ 0x8000000000000000#64)) | .plus => some (.flit d) | _ => none
  | _ => none

/-- `++` / `--` -/
def step (P : Prim) (inc : Bool) : Val → Option Val
  | .i a => some (.i (if inc then a + 1 else a - 1))
  | .u a => some (.u (if inc then a + 1 else a - 1))
  | .f a => some (.f (P.fstep inc a))
  | _ => none

def boolBits (x : Bool) : BitVec 32 := if x then 1 else 0

/-- conversion of a value to a type (the meaning of a cast, explicit or implicit) -/
def castVal (P : Prim) (t : Ty) (v : Val) : Option Val :=
  match t, v with
  | .bool, .b x => some (.b x)
  | .bool, .i x => some (.b (x != 0))
  | .bool, .u x => some (.b (x != 0))
  | .bool, .f x => some (.b (P.f2b x))
  | .bool, .lit n => some (.b (n != 0))
  | .int, .b x => some (.i (boolBits x))
  | .int, .i x => some (.i x)
  | .int, .u x => some (.i x)
  | .int, .f x => some (.i (P.f2i x))
  | .int, .lit n => some (.i (BitVec.ofInt 32 n))
  | .uint, .b x => some (.u (boolBits x))
  | .uint, .i x => some (.u x)
  | .uint, .u x => some (.u x)
  | .uint, .f x => some (.u (P.f2u x))
  | .uint, .lit n => some (.u (BitVec.ofInt 32 n))
  | .float, .b x => some (.f (P.i2f (boolBits x)))
  | .float, .i x => some (.f (P.i2f x))
  | .float, .u x => some (.f (P.u2f x))
  | .float, .f x => some (.f x)
  | .float, .lit n => some (.f (P.i2f (BitVec.ofInt 32 n)))
  | .float, .flit d => some (.f (P.d2f d))
  | .lit, .lit n => some (.lit n)
  | .lit, .b x => some (.lit (if x then 1 else 0))
  | .lit, .i x => some (.lit x.toInt)
  | .lit, .u x => some (.lit x.toNat)
  | .flit, .flit d => some (.flit d)
  | _, _ => none

/-! ## stores and results -/

abbrev Store := Var → Val

def Store.set (σ : Store) (x : Var) (v : Val) : Store := fun y => if y = x then v else σ y

/-- result of an expression: `none` = stuck (ill-typed / unsupported) -/
abbrev R (α : Type) := Option (α × Store)

/-- apply a conversion to the value of a result -/
def castR (P : Prim) (t : Ty) (r : R Val) : R Val :=
  match r with
  | none => none
  | some (v, σ) =>
    match castVal P t v with
    | none => none
    | some v' => some (v', σ)

/-- a callable function: values of the arguments (current values for `out`/`inout`) and the store ↦ return value,
final values of the parameters, final store; `none` = stuck / out of fuel -/
abbrev FEnv := Nat → List Val → Store → Option (Val × List Val × Store)

/-- return type and parameter directions/types of a function id -/
abbrev Sig := Nat → Option (Ty × List (Ir.Dir × Ty))

/-- everything both semantics share: the primitives, the meaning of the callable functions and their signatures -/
structure World where
  P : Prim
  phi : FEnv
  sig : Sig

/-- copy-out: the final parameter values are written to the `out`/`inout` argument variables, in order -/
def writeBack : List (Option Var) → List Val → Store → Store
  | some x :: r, v :: vs, σ => writeBack r vs (σ.set x v)
  | none :: r, _ :: vs, σ => writeBack r vs σ
  | _, _, σ => σ

/-- the meaning of an operator, shared vocabulary of both semantics -/
inductive OpSem where
  | un (m : MUn)
  | incdec (pre inc : Bool)
  | bin (m : MBin)
  | land | lor
  | assign
  | compound (m : MBin)
  | comma
  | unsupported
  deriving DecidableEq, Repr, Inhabited

/-- RSSL meaning of each typed operator node -/
def irOpSem : IntrinsicOp → OpSem
  | .PrefixIncrement => .incdec true true
  | .PrefixDecrement => .incdec true false
  | .PostfixIncrement => .incdec false true
  | .PostfixDecrement => .incdec false false
  | .Plus => .un .plus
  | .Minus => .un .neg
  | .LogicalNot => .un .lnot
  | .BitwiseNot => .un .bnot
  | .Add => .bin .add
  | .Subtract => .bin .sub
  | .Multiply => .bin .mul
  | .Divide => .bin .div
  | .Modulus => .bin .mod
  | .LeftShift => .bin .shl
  | .RightShift => .bin .shr
  | .BitwiseAnd => .bin .band
  | .BitwiseOr => .bin .bor
  | .BitwiseXor => .bin .bxor
  | .BooleanAnd => .land
  | .BooleanOr => .lor
  | .LessThan => .bin .lt
  | .LessEqual => .bin .le
  | .GreaterThan => .bin .gt
  | .GreaterEqual => .bin .ge
  | .Equality => .bin .eq
  | .Inequality => .bin .ne
  | .Assignment => .assign
  | .SumAssignment => .compound .add
  | .DifferenceAssignment => .compound .sub
  | .ProductAssignment => .compound .mul
  | .QuotientAssignment => .compound .div
  | .RemainderAssignment => .compound .mod
  | .LeftShiftAssignment => .compound .shl
  | .RightShiftAssignment => .compound .shr
  | .BitwiseAndAssignment => .compound .band
  | .BitwiseOrAssignment => .compound .bor
  | .BitwiseXorAssignment => .compound .bxor
  | .MakeSigned | .MakeSignedPushZero | .MeshOutputSetVertex | .MeshOutputSetPrimitive | .MeshOutputSetIndices => .unsupported

/-- C meaning of each prefix/postfix operator token -/
def astUnSem : UnaryOp → OpSem
  | .PrefixIncrement => .incdec true true      -- `++x`
  | .PrefixDecrement => .incdec true false     -- `--x`
  | .PostfixIncrement => .incdec false true    -- `x++`
  | .PostfixDecrement => .incdec false false   -- `x--`
  | .Plus => .un .plus                         -- `+x`
  | .Minus => .un .neg                         -- `-x`
  | .LogicalNot => .un .lnot                   -- `!x`
  | .BitwiseNot => .un .bnot                   -- `~x`
  | .Dereference | .AddressOf => .unsupported

/-- C meaning of each binary operator token -/
def astBinSem : BinOp → OpSem
  | .Add => .bin .add                 -- `+`
  | .Subtract => .bin .sub            -- `-`
  | .Multiply => .bin .mul            -- `*`
  | .Divide => .bin .div              -- `/`
  | .Modulus => .bin .mod             -- `%`
  | .LeftShift => .bin .shl           -- `<<`
  | .RightShift => .bin .shr          -- `>>`
  | .BitwiseAnd => .bin .band         -- `&`
  | .BitwiseOr => .bin .bor           -- `|`
  | .BitwiseXor => .bin .bxor         -- `^`
  | .BooleanAnd => .land              -- `&&`
  | .BooleanOr => .lor                -- `||`
  | .LessThan => .bin .lt             -- `<`
  | .LessEqual => .bin .le            -- `<=`
  | .GreaterThan => .bin .gt          -- `>`
  | .GreaterEqual => .bin .ge         -- `>=`
  | .Equality => .bin .eq             -- `==`
  | .Inequality => .bin .ne           -- `!=`
  | .Assignment => .assign            -- `=`
  | .SumAssignment => .compound .add  -- `+=`
  | .DifferenceAssignment => .compound .sub
  | .ProductAssignment => .compound .mul
  | .QuotientAssignment => .compound .div
  | .RemainderAssignment => .compound .mod
  | .LeftShiftAssignment => .compound .shl
  | .RightShiftAssignment => .compound .shr
  | .BitwiseAndAssignment => .compound .band
  | .BitwiseOrAssignment => .compound .bor
  | .BitwiseXorAssignment => .compound .bxor
  | .Sequence => .comma               -- `,`

/-! ## RSSL typed semantics of the IR -/
namespace Ir
open RsslVerif.Model.Ir

def constVal : Const → Val
  | .bool b => .b b
  | .intLit v => .lit v
  | .int32 v => .i v
  | .uint32 v => .u v
  | .float32 x => .f x
  | .floatLit x => .flit x

def lvalOf : Expr → Option Var
  | .var id => some (.loc id)
  | .global id => some (.glob id)
  | _ => none

mutual
/-- big-step evaluation of a typed expression -/
def eval (W : World) : Expr → Store → R Val
  | .lit c, σ => some (constVal c, σ)
  | .var id, σ => some (σ (.loc id), σ)
  | .global id, σ => some (σ (.glob id), σ)
  | .cast ty e, σ => castR W.P ty (eval W e σ)
  | .tern c t f, σ =>
    match eval W c σ with
    | some (.b true, σ1) => eval W t σ1
    | some (.b false, σ1) => eval W f σ1
    | _ => none
  | .seq es, σ => evalSeq W es σ
  | .call f args, σ =>
    match W.sig f with
    | none => none
    | some (_, ps) =>
      match evalArgs W args ps σ with
      | none => none
      | some (vals, σ1) =>
        match W.phi f (vals.map (·.1)) σ1 with
        | none => none
        | some (ret, finals, σ2) => some (ret, writeBack (vals.map (·.2)) finals σ2)
  | .intr i T _ args, σ =>
    match evalAll W args σ with
    | none => none
    | some (vals, σ1) =>
      match W.P.intr i T vals with
      | none => none
      | some r => some (r, σ1)
  | .op o args, σ =>
    match args with
    | .cons a .nil =>
      match irOpSem o with
      | .un m =>
        match eval W a σ with
        | none => none
        | some (v, σ1) =>
          match unop W.P m v with
          | none => none
          | some r => some (r, σ1)
      | .incdec pre inc =>
        match lvalOf a with
        | none => none
        | some x =>
          match step W.P inc (σ x) with
          | none => none
          | some v' => some (if pre then v' else σ x, σ.set x v')
      | _ => none
    | .cons a (.cons b .nil) =>
      match irOpSem o with
      | .bin m =>
        match eval W a σ with
        | none => none
        | some (va, σ1) =>
          match eval W b σ1 with
          | none => none
          | some (vb, σ2) =>
            match binop W.P m va vb with
            | none => none
            | some r => some (r, σ2)
      | .land =>
        match eval W a σ with
        | some (.b false, σ1) => some (.b false, σ1)
        | some (.b true, σ1) =>
          match eval W b σ1 with
          | some (.b r, σ2) => some (.b r, σ2)
          | _ => none
        | _ => none
      | .lor =>
        match eval W a σ with
        | some (.b true, σ1) => some (.b true, σ1)
        | some (.b false, σ1) =>
          match eval W b σ1 with
          | some (.b r, σ2) => some (.b r, σ2)
          | _ => none
        | _ => none
      | .assign =>
        match lvalOf a with
        | none => none
        | some x =>
          match eval W b σ with
          | none => none
          | some (v, σ1) => some (v, σ1.set x v)
      | .compound m =>
        match lvalOf a with
        | none => none
        | some x =>
          match eval W b σ with
          | none => none
          | some (vb, σ1) =>
            match binop W.P m (σ1 x) vb with
            | none => none
            | some r => some (r, σ1.set x r)
      | _ => none
    | _ => none
/-- arguments left to right: `in` arguments by value, `out`/`inout` arguments designate a variable (copy-in of its current value) -/
def evalArgs (W : World) : Exprs → List (Dir × Ty) → Store → Option (List (Val × Option Var) × Store)
  | .nil, [], σ => some ([], σ)
  | .nil, _ :: _, _ => none
  | .cons _ _, [], _ => none
  | .cons e r, (d, _) :: ps, σ =>
    match d with
    | .in_ =>
      match eval W e σ with
      | none => none
      | some (v, σ1) =>
        match evalArgs W r ps σ1 with
        | none => none
        | some (l, σ2) => some ((v, none) :: l, σ2)
    | _ =>
      match lvalOf e with
      | none => none
      | some x =>
        match evalArgs W r ps σ with
        | none => none
        | some (l, σ2) => some ((σ x, some x) :: l, σ2)
/-- the arguments of an intrinsic, left to right -/
def evalAll (W : World) : Exprs → Store → Option (List Val × Store)
  | .nil, σ => some ([], σ)
  | .cons e r, σ =>
    match eval W e σ with
    | none => none
    | some (v, σ1) =>
      match evalAll W r σ1 with
      | none => none
      | some (l, σ2) => some (v :: l, σ2)
/-- `Sequence`: every element in order, the value of the last -/
def evalSeq (W : World) : Exprs → Store → R Val
  | .nil, _ => none
  | .cons e r, σ =>
    match r with
    | .nil => eval W e σ
    | .cons _ _ =>
      match eval W e σ with
      | none => none
      | some (_, σ1) => evalSeq W r σ1
end

end Ir

/-! ## C-like semantics of the emitted syntax -/
namespace Ast
open RsslVerif.Model.HlslAst

/-- what a C front end knows when it reads an expression: which entity a name denotes and its declared type -/
structure Env where
  res : String → Option Var
  vty : Var → Ty
  fres : String → Option Nat     -- which function a called name denotes (overloads already resolved by C++ rules: C16)

def tyOfName : String → Option Ty
  | "bool" => some .bool
  | "int" => some .int
  | "uint" => some .uint
  | "float" => some .float
  | "void" => some .void
  | _ => none

/-- a literal's type is given by its suffix -/
def litTy : Lit → Ty
  | .bool _ => .bool
  | .intUntyped _ => .lit
  | .intUnsigned32 _ => .uint
  | .float32 _ => .float
  | .floatUntyped _ => .flit

def litVal : Lit → Val
  | .bool b => .b b
  | .intUntyped n => .lit n
  | .intUnsigned32 n => .u (BitVec.ofNat 32 n)
  | .float32 x => .f x
  | .floatUntyped x => .flit x

/-- usual arithmetic conversions: the common type of two operands (a literal adapts to the other operand) -/
def common (a b : Ty) : Option Ty :=
  if a = b then some a else
  match a, b with
  | .lit, .int | .int, .lit => some .int
  | .lit, .uint | .uint, .lit => some .uint
  | .lit, .float | .float, .lit => some .float
  | .flit, .float | .float, .flit => some .float
  | .int, .uint | .uint, .int => some .uint
  | .int, .float | .float, .int => some .float
  | .uint, .float | .float, .uint => some .float
  | .bool, .int | .int, .bool => some .int
  | .bool, .uint | .uint, .bool => some .uint
  | .bool, .float | .float, .bool => some .float
  | .bool, .lit | .lit, .bool => some .int
  | _, _ => none

/-- the HLSL built-in function a name denotes (pure scalar math / bit functions of the modelled subset); a user
function of the same name would shadow it (`Env.fres`) -/
def builtins : List (String × Intrinsic) :=
  [("abs", .Abs), ("acos", .Acos), ("asin", .Asin), ("atan", .Atan), ("atan2", .Atan2),
   ("cos", .Cos), ("cosh", .Cosh), ("sin", .Sin), ("sinh", .Sinh), ("tan", .Tan),
   ("tanh", .Tanh), ("sqrt", .Sqrt), ("rsqrt", .RcpSqrt), ("pow", .Pow), ("exp", .Exp),
   ("exp2", .Exp2), ("log", .Log), ("log2", .Log2), ("log10", .Log10), ("floor", .Floor),
   ("ceil", .Ceil), ("trunc", .Trunc), ("round", .Round), ("frac", .Frac), ("fmod", .Fmod),
   ("rcp", .Rcp), ("saturate", .Saturate), ("sign", .Sign), ("min", .Min), ("max", .Max),
   ("step", .Step), ("clamp", .Clamp), ("lerp", .Lerp), ("smoothstep", .SmoothStep), ("isnan", .IsNaN),
   ("isinf", .IsInfinite), ("isfinite", .IsFinite), ("asint", .AsInt), ("asuint", .AsUInt), ("asfloat", .AsFloat),
   ("countbits", .CountBits), ("reversebits", .ReverseBits), ("firstbithigh", .FirstBitHigh), ("firstbitlow", .FirstBitLow), ("f16tof32", .F16ToF32),
   ("f32tof16", .F32ToF16)]

def hlslBuiltin (n : String) : Option Intrinsic := (builtins.find? (fun p => p.1 == n)).map (·.2)

/-- the intrinsics this table gives a meaning to -/
def modelledBuiltin (i : Intrinsic) : Bool := builtins.any (fun p => p.2 == i)

/-- a built-in whose arguments are all literals is resolved at `int` / `float` -/
def promoteArg : Ty → Ty
  | .lit => .int
  | .flit => .float
  | t => t

/-- result type of a built-in applied at operand type `t` (HLSL's scalar signatures) -/
def builtinRet (i : Intrinsic) (t : Ty) : Ty :=
  match i with
  | .IsNaN | .IsInfinite | .IsFinite => .bool
  | .Sign | .AsInt => .int
  | .AsUInt | .F32ToF16 | .CountBits | .FirstBitHigh | .FirstBitLow => .uint
  | .AsFloat | .F16ToF32 => .float
  | _ => t

/-- implicit conversion from static type `from_` to `to` -/
def convert (P : Prim) (from_ to : Ty) (v : Val) : Option Val :=
  if from_ = to then some v else castVal P to v

def convR (P : Prim) (from_ to : Ty) (r : R Val) : R Val :=
  match r with
  | none => none
  | some (v, σ) =>
    match convert P from_ to v with
    | none => none
    | some v' => some (v', σ)

def lvalOf (env : Env) : Expr → Option Var
  | .ident s => env.res s
  | _ => none

mutual
/-- static type of an expression (C rules) -/
def typeOf (sig : Sig) (env : Env) : Expr → Option Ty
  | .lit l => some (litTy l)
  | .ident s => (env.res s).map env.vty
  | .un op e =>
    match astUnSem op, typeOf sig env e with
    | .un .lnot, some _ => some .bool
    | .un _, some t => some t
    | .incdec _ _, some t => some t
    | _, _ => none
  | .bin op a b =>
    match astBinSem op, typeOf sig env a, typeOf sig env b with
    | .bin m, some ta, some tb =>
      match common ta tb with
      | none => none
      | some t => if m.isCmp then some .bool else some t
    | .land, some _, some _ => some .bool
    | .lor, some _, some _ => some .bool
    | .assign, some ta, some _ => some ta
    | .compound _, some ta, some _ => some ta
    | .comma, some _, some tb => some tb
    | _, _, _ => none
  | .tern c t f =>
    match typeOf sig env c, typeOf sig env t, typeOf sig env f with
    | some _, some tt, some tf => common tt tf
    | _, _, _ => none
  | .cast n e =>
    match typeOf sig env e with
    | none => none
    | some _ => tyOfName n
  | .call n args =>
    match env.fres n with
    | some f =>
      match sig f with
      | none => none
      | some (rt, _) => some rt
    | none =>
      -- not a user function: a built-in, applied at the common type of its arguments
      match hlslBuiltin n with
      | none => none
      | some i =>
        match argsType sig env args with
        | none => none
        | some t => some (builtinRet i (promoteArg t))
/-- the common type of the arguments of a built-in (usual arithmetic conversions, a literal adapts) -/
def argsType (sig : Sig) (env : Env) : Exprs → Option Ty
  | .nil => none
  | .cons a r =>
    match typeOf sig env a with
    | none => none
    | some ta =>
      match r with
      | .nil => some ta
      | .cons _ _ =>
        match argsType sig env r with
        | none => none
        | some tr => common ta tr
end

mutual
/-- big-step evaluation of an expression of the emitted syntax -/
def eval (W : World) (env : Env) : Expr → Store → R Val
  | .lit l, σ => some (litVal l, σ)
  | .ident s, σ =>
    match env.res s with
    | none => none
    | some x => some (σ x, σ)
  | .cast n e, σ =>
    match tyOfName n with
    | none => none
    | some t => castR W.P t (eval W env e σ)
  | .tern c t f, σ =>
    match typeOf W.sig env c, typeOf W.sig env t, typeOf W.sig env f with
    | some tc, some tt, some tf =>
      match common tt tf with
      | none => none
      | some T =>
        match convR W.P tc .bool (eval W env c σ) with
        | some (.b true, σ1) => convR W.P tt T (eval W env t σ1)
        | some (.b false, σ1) => convR W.P tf T (eval W env f σ1)
        | _ => none
    | _, _, _ => none
  | .call n args, σ =>
    match env.fres n with
    | some f =>
      match W.sig f with
      | none => none
      | some (_, ps) =>
        match evalArgs W env args ps σ with
        | none => none
        | some (vals, σ1) =>
          match W.phi f (vals.map (·.1)) σ1 with
          | none => none
          | some (ret, finals, σ2) => some (ret, writeBack (vals.map (·.2)) finals σ2)
    | none =>
      match hlslBuiltin n with
      | none => none
      | some i =>
        match argsType W.sig env args with
        | none => none
        | some t =>
          match evalAllT W env (promoteArg t) args σ with
          | none => none
          | some (vals, σ1) =>
            match W.P.intr i (promoteArg t) vals with
            | none => none
            | some r => some (r, σ1)
  | .un op e, σ =>
    match astUnSem op with
    | .un m =>
      match typeOf W.sig env e with
      | none => none
      | some te =>
        match convR W.P te (if m = .lnot then .bool else te) (eval W env e σ) with
        | none => none
        | some (v, σ1) =>
          match unop W.P m v with
          | none => none
          | some r => some (r, σ1)
    | .incdec pre inc =>
      match lvalOf env e with
      | none => none
      | some x =>
        match step W.P inc (σ x) with
        | none => none
        | some v' => some (if pre then v' else σ x, σ.set x v')
    | _ => none
  | .bin op a b, σ =>
    match astBinSem op with
    | .bin m =>
      match typeOf W.sig env a, typeOf W.sig env b with
      | some ta, some tb =>
        match common ta tb with
        | none => none
        | some T =>
          match convR W.P ta T (eval W env a σ) with
          | none => none
          | some (va, σ1) =>
            match convR W.P tb T (eval W env b σ1) with
            | none => none
            | some (vb, σ2) =>
              match binop W.P m va vb with
              | none => none
              | some r => some (r, σ2)
      | _, _ => none
    | .land =>
      match typeOf W.sig env a, typeOf W.sig env b with
      | some ta, some tb =>
        match convR W.P ta .bool (eval W env a σ) with
        | some (.b false, σ1) => some (.b false, σ1)
        | some (.b true, σ1) =>
          match convR W.P tb .bool (eval W env b σ1) with
          | some (.b r, σ2) => some (.b r, σ2)
          | _ => none
        | _ => none
      | _, _ => none
    | .lor =>
      match typeOf W.sig env a, typeOf W.sig env b with
      | some ta, some tb =>
        match convR W.P ta .bool (eval W env a σ) with
        | some (.b true, σ1) => some (.b true, σ1)
        | some (.b false, σ1) =>
          match convR W.P tb .bool (eval W env b σ1) with
          | some (.b r, σ2) => some (.b r, σ2)
          | _ => none
        | _ => none
      | _, _ => none
    | .assign =>
      match lvalOf env a, typeOf W.sig env b with
      | some x, some tb =>
        match convR W.P tb (env.vty x) (eval W env b σ) with
        | none => none
        | some (v, σ1) => some (v, σ1.set x v)
      | _, _ => none
    | .compound m =>
      match lvalOf env a, typeOf W.sig env b with
      | some x, some tb =>
        match common (env.vty x) tb with
        | none => none
        | some C =>
          match convR W.P tb C (eval W env b σ) with
          | none => none
          | some (vb, σ1) =>
            match convert W.P (env.vty x) C (σ1 x) with
            | none => none
            | some cur =>
              match binop W.P m cur vb with
              | none => none
              | some r =>
                match convert W.P C (env.vty x) r with
                | none => none
                | some r' => some (r', σ1.set x r')
      | _, _ => none
    | .comma =>
      match typeOf W.sig env a with
      | none => none
      | some _ =>
        match eval W env a σ with
        | none => none
        | some (_, σ1) => eval W env b σ1
    | _ => none
/-- the arguments of a built-in, left to right, each converted to the common type `t` -/
def evalAllT (W : World) (env : Env) (t : Ty) : Exprs → Store → Option (List Val × Store)
  | .nil, σ => some ([], σ)
  | .cons e r, σ =>
    match typeOf W.sig env e with
    | none => none
    | some te =>
      match convR W.P te t (eval W env e σ) with
      | none => none
      | some (v, σ1) =>
        match evalAllT W env t r σ1 with
        | none => none
        | some (l, σ2) => some (v :: l, σ2)
/-- arguments left to right; an `in` argument is converted to the parameter type, `out`/`inout` need an lvalue -/
def evalArgs (W : World) (env : Env) : Exprs → List (Ir.Dir × Ty) → Store → Option (List (Val × Option Var) × Store)
  | .nil, [], σ => some ([], σ)
  | .nil, _ :: _, _ => none
  | .cons _ _, [], _ => none
  | .cons e r, (d, T) :: ps, σ =>
    match d with
    | .in_ =>
      match typeOf W.sig env e with
      | none => none
      | some te =>
        match convR W.P te T (eval W env e σ) with
        | none => none
        | some (v, σ1) =>
          match evalArgs W env r ps σ1 with
          | none => none
          | some (l, σ2) => some ((v, none) :: l, σ2)
    | _ =>
      match lvalOf env e with
      | none => none
      | some x =>
        match evalArgs W env r ps σ with
        | none => none
        | some (l, σ2) => some ((σ x, some x) :: l, σ2)
end

end Ast

end RsslVerif.Spec.Sem

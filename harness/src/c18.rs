//! C18: targets agree on everything that is target-independent.
//!
//! C18.cross   \t <seed> \t <variant> \t <decls> \t <pipes> \t <verdicts>
//!     the program is regenerated from (seed, variant); decls / pipes / verdicts are derived (inputs of the model):
//!     decls    `g_r0:Texture2D:3:0;g_r1:cbuffer:-:0;g_r2:SamplerState:-:1;g_u:Texture2D:*:0`  (name:kind:len:static sampler)
//!     pipes    `P0:Compute=cs_0@8x4x1;P1:Vertex=vs_1,Pixel=ps_2`
//!     verdicts `dx=ok,vk=ok,vkba=ok,msl=back`   (ok | front | back | panic)
//!   observe : `dx{P0[Compute:cs_0:8,4,1]|g_r0:Texture2d:3,g_r2:SamplerState:1:ss} vk{..} vkba{..} msl{back}`
//!             (stages of every pipeline; bindings of the first pipeline sorted by name)
//!   oracle  : (independent of the model, in the property's words) same front-end verdict and diagnostic text on all
//!             four targets; dx / vk / vkba succeed or fail together; dx and vk sources equal token for token after
//!             erasing `: register(..)` and `[[vk::..]]`; vk and vkba byte-equal when the file declares no buffer
//!             address; same stage kinds and thread-group sizes everywhere, same entry names among the HLSL flavours;
//!             same pipeline state; same multiset of (binding name, kind, count) once static samplers and buffer
//!             addresses (known from the *declarations*) are put aside.
//! C18.defines \t <tgt>
//!   observe : `__HLSL_VERSION=2021;RSSL_TARGET_HLSL=1;RSSL_TARGET_MSL=0` read back through compile() with a probing file
//! C18.pp      \t <tgt> \t <user defines> \t <program>
//!     object-like macros + conditional directives; lines separated by ` ;; `:
//!     `T toks` text, `D NAME toks`, `U NAME`, `IFDEF NAME`, `IFNDEF NAME`, `IF toks`, `ELIF toks`, `ELSE`, `ENDIF`
//!   observe : `ok:<tokens>` | `err:<kind>` from the real preprocessor started with the define list *observed* for the target
//!   oracle  : programs that do not mention RSSL_TARGET_* give the same result on all four targets
use crate::c17::wgen::{gen_wide, render_wide, RenderOpts, WItem, WProgram, WideOpts};
use crate::compile_util::*;
use crate::progen::*;
use crate::util::*;

// ------------------------------------------------------------------------------------------------ running the compiler

#[derive(Clone, Debug, PartialEq)]
struct BindingInfo {
    group: usize,
    name: String,
    kind: String,
    count: Option<u32>,
    ss: bool,
}

#[derive(Clone, Debug, PartialEq)]
struct PipeInfo {
    text: String,
    /// (stage, entry point, thread group size)
    stages: Vec<(String, String, Option<(u32, u32, u32)>)>,
    state: String,
    bindings: Vec<BindingInfo>,
}

#[derive(Clone, Debug, PartialEq)]
enum Verdict {
    Ok(Vec<PipeInfo>),
    Err(String),
    Panic(String),
}

fn compile_info(files: &[(String, String)], defines: &[(&str, &str)], tgt: Tgt, mode: &Mode) -> Verdict {
    compile_info_vl(files, defines, tgt, mode, false)
}

fn compile_info_vl(files: &[(String, String)], defines: &[(&str, &str)], tgt: Tgt, mode: &Mode, validate_layout: bool) -> Verdict {
    compile_info_target(files, defines, tgt.target(), tgt.buffer_address(), mode, validate_layout)
}

/// The fifth configuration: `Target::MetalBytecode` = the Msl export handed to the native Metal tool chain.  On a host
/// without the tool chain (`MetalCompiler::find()` fails) a file that gets through the front end and the export ends in
/// `CompileError::MetalCompilerNotFound`.
const MTLB: &str = "mtlb";

fn compile_info_mtlb(files: &[(String, String)], defines: &[(&str, &str)], mode: &Mode, validate_layout: bool) -> Verdict {
    compile_info_target(files, defines, rssl::Target::MetalBytecode, false, mode, validate_layout)
}

/// what `metal_invoker::MetalCompiler::find()` says on this host
fn toolchain_present() -> bool {
    rssl::metal_invoker::MetalCompiler::find().is_ok()
}

/// `CompileError::MetalCompilerNotFound(..)` / `MetalCompilerFailed(..)` as `Display` prints them (Debug form)
fn is_toolchain_error(e: &str) -> bool {
    e.starts_with("MetalCompilerNotFound(") || e.starts_with("MetalCompilerFailed(")
}

fn compile_info_target(
    files: &[(String, String)],
    defines: &[(&str, &str)],
    target: rssl::Target,
    buffer_address: bool,
    mode: &Mode,
    validate_layout: bool,
) -> Verdict {
    let r = guard(|| {
        let mut inc = MemFiles(files.to_vec());
        let mut args = rssl::CompileArgs::new("main.rssl", &mut inc, target)
            .defines(defines)
            .validate_layout_consistency(validate_layout)
            .support_buffer_address(buffer_address);
        match mode {
            Mode::All => {}
            Mode::Named(n) => args = args.pipeline_name(Some(n.as_str())),
            Mode::NoPipeline => args = args.no_pipeline_mode(),
        }
        match rssl::compile(args) {
            Ok(ps) => Ok(ps
                .into_iter()
                .map(|p| {
                    let mut bindings = Vec::new();
                    for (g, group) in p.metadata.bind_groups.iter().enumerate() {
                        for b in &group.bindings {
                            bindings.push(BindingInfo {
                                group: g,
                                name: b.name.clone(),
                                kind: format!("{:?}", b.descriptor_type),
                                count: b.descriptor_count,
                                ss: b.static_sampler.is_some(),
                            });
                        }
                    }
                    PipeInfo {
                        text: String::from_utf8_lossy(&p.data).into_owned(),
                        stages: p
                            .stages
                            .iter()
                            .map(|s| (format!("{:?}", s.stage), s.entry_point.clone(), s.thread_group_size))
                            .collect(),
                        state: format!("{:?}", p.graphics_pipeline_state),
                        bindings,
                    }
                })
                .collect::<Vec<_>>()),
            Err(e) => Err(format!("{}", e)),
        }
    });
    match r {
        Ok(Ok(v)) => Verdict::Ok(v),
        Ok(Err(e)) => Verdict::Err(e),
        Err(p) => Verdict::Panic(p),
    }
}

/// Errors raised after the front end (documented GenerateErrors / format errors of the two exporters)
fn is_backend_error(e: &str) -> bool {
    const MARKS: [&str; 5] = [
        "error: metal generate:",
        "error: metal format:",
        "error: hlsl generate:",
        "error: hlsl format:",
        "error: interpolator required by pixel stage has not been provided",
    ];
    MARKS.iter().any(|m| e.starts_with(m))
}

fn class(v: &Verdict) -> &'static str {
    match v {
        Verdict::Ok(_) => "ok",
        Verdict::Err(e) if is_backend_error(e) => "back",
        Verdict::Err(e) if e.starts_with("MetalCompilerNotFound(") => "tool",
        Verdict::Err(e) if e.starts_with("MetalCompilerFailed(") => "toolfail",
        Verdict::Err(_) => "front",
        Verdict::Panic(_) => "panic",
    }
}

// ------------------------------------------------------------------------------------------------ variants

/// Declaration as the model sees it
#[derive(Clone, Debug)]
struct DeclDesc {
    name: String,
    kind: String,
    /// "-" single, "*" unsized, number
    len: String,
    ss: bool,
}

struct Built {
    src: String,
    decls: Vec<DeclDesc>,
    prog: Program,
    /// the variant is meant to be rejected by the front end
    expect_front_reject: bool,
    /// further files reachable through #include
    includes: Vec<(String, String)>,
    /// defines handed to compile() through the API
    defines: Vec<(String, String)>,
    /// control: the file *does* test a target macro, the oracle is expected to flag it
    control: bool,
    /// `wide` variants (self-contained programs of harness/src/c17/wgen.rs): names and stage lists of the active
    /// pipelines, computed from the program text; `None` = take them from `prog`
    wide_pipes: Option<Vec<(String, String)>>,
}

pub const VARIANTS: &[&str] = &[
    "plain",
    "plain",
    "plain",
    "state",
    "pp-guard",
    "pp-macros",
    "pp-version",
    "pp-dead-garbage",
    "unbounded",
    "reserved-matrix",
    "reserved-vector",
    "reserved-double",
    "reserved-cb",
    "reserved-kernel",
    "e-lex-top",
    "e-lex-end",
    "e-pp-endif",
    "e-pp-unknown",
    "e-pp-include",
    "e-pp-if",
    "e-pp-unterminated",
    "e-parse-top",
    "e-parse-mid",
    "e-parse-end",
    "e-type-undef-mid",
    "e-type-undef-end",
    "e-type-unknown-type",
    "e-type-dup-struct",
    "e-type-args",
    "e-type-in-entry",
    "e-pipe-entry",
    "e-pipe-dup",
    "e-pipe-state",
    "e-pipe-prop",
    "api-define",
    "include",
    "include",
    "e-include-type",
    "e-include-parse",
    "plain",
    "state",
    "pp-macros",
    "ctl-target-macro",
    "ctl-concat",
    "layout-trap",
    "reserved-texture",
    "reserved-sampler",
    "typedef-array",
    "typedef-array",
    "reserved-main",
    "reserved-device",
    "reserved-cb-main",
    "reserved-cb-double",
    "entry-texture",
    "entry-kernel",
    "wide",
    "wide-rich",
    "wide-odd",
    "wide-inc-on",
    "wide",
    "wide-odd-rich",
    "wide-on",
    "wide-rich-inc",
    "layout-trap-vl",
    "plain-vl",
    "nonresource",
    "nonresource-rq",
    "nonresource-ts",
];

fn decls_of(p: &Program) -> Vec<DeclDesc> {
    p.resources
        .iter()
        .map(|r| DeclDesc {
            name: r.name.clone(),
            kind: r.kind.clone(),
            len: match r.len {
                Some(n) => n.to_string(),
                None => "-".into(),
            },
            ss: r.static_sampler,
        })
        .collect()
}

/// index of the first line that starts a function (resources and structs come before)
fn first_function_line(lines: &[&str]) -> usize {
    lines
        .iter()
        .position(|l| l.starts_with("void ") || l.starts_with("[numthreads") || l.starts_with("float4 "))
        .unwrap_or(lines.len())
}

fn insert_lines(src: &str, at: usize, text: &str) -> String {
    let lines: Vec<&str> = src.lines().collect();
    let at = at.min(lines.len());
    let mut out = String::new();
    for l in &lines[..at] {
        out.push_str(l);
        out.push('\n');
    }
    out.push_str(text);
    if !text.ends_with('\n') {
        out.push('\n');
    }
    for l in &lines[at..] {
        out.push_str(l);
        out.push('\n');
    }
    out
}

fn add_state(src: &str) -> String {
    // graphics pipelines get explicit state
    let mut out = String::new();
    for l in src.lines() {
        out.push_str(l);
        out.push('\n');
        if l.trim_start().starts_with("PixelShader = ") {
            out.push_str("    RenderTargetFormat0 = \"R8G8B8A8_UNORM\";\n    DepthTargetFormat = \"D32_FLOAT\";\n    CullMode = \"None\";\n    WindingOrder = \"Clockwise\";\n    BlendState =\n    {\n        BlendEnabled = true;\n        SrcBlend = \"SrcAlpha\";\n        DstBlend = \"OneMinusSrcAlpha\";\n    }\n");
        }
    }
    out
}

/// remove resource `i` from the program (uses are re-indexed)
fn drop_resource(p: &mut Program, i: usize) {
    if i >= p.resources.len() {
        return;
    }
    let fix = |f: &mut Func| {
        f.uses.retain(|u| *u != i);
        for u in f.uses.iter_mut() {
            if *u > i {
                *u -= 1;
            }
        }
    };
    for h in p.helpers.iter_mut() {
        fix(h);
    }
    for e in p.entries.iter_mut() {
        fix(&mut e.func);
    }
    p.resources.remove(i);
}

/// `variant~r0.r3.p1.h.s`: the variant applied to the generated program minus resources 0 and 3 (indices of the
/// original program), minus pipeline 1, without helper calls (`h`) and without static globals (`s`); used by shrinking
fn build(seed: u64, variant_full: &str) -> Option<Built> {
    let (variant, drops) = match variant_full.split_once('~') {
        Some((v, d)) => (v, d),
        None => (variant_full, ""),
    };
    let mut b = build_with(seed, variant, drops)?;
    if !drops.is_empty() {
        b.expect_front_reject = false;
    }
    Some(b)
}

fn build_with(seed: u64, variant: &str, drops: &str) -> Option<Built> {
    if variant == "wide" || variant.starts_with("wide-") {
        return build_wide(seed, variant, drops);
    }
    let mut rng = Rng::new(seed);
    let opts = GenOpts { allow_mesh: seed % 3 == 0, ..GenOpts::default() };
    let mut prog = gen_program(&mut rng, &opts);
    // files without any pipeline only exercise one diagnostic: keep a few, regenerate the rest
    let mut tries = 0;
    while prog.pipes.is_empty() && seed % 16 != 1 && tries < 20 {
        prog = gen_program(&mut rng, &opts);
        tries += 1;
    }
    let mut expect_front_reject = variant.starts_with("e-");
    // shrinking: drop parts of the generated program (highest index first so that indices stay meaningful)
    let mut rdrop: Vec<usize> = Vec::new();
    let mut pdrop: Vec<usize> = Vec::new();
    for d in drops.split('.').filter(|d| !d.is_empty()) {
        match (d.chars().next(), d[1..].parse::<usize>()) {
            (Some('r'), Ok(i)) => rdrop.push(i),
            (Some('p'), Ok(i)) => pdrop.push(i),
            (Some('h'), _) => {
                for e in prog.entries.iter_mut() {
                    e.func.calls.clear();
                }
                prog.helpers.clear();
            }
            (Some('s'), _) => {
                prog.nstatics = 0;
                for e in prog.entries.iter_mut() {
                    e.func.statics.clear();
                }
                for h in prog.helpers.iter_mut() {
                    h.statics.clear();
                }
            }
            _ => return None,
        }
    }
    if rdrop.iter().any(|i| *i >= prog.resources.len()) || pdrop.iter().any(|i| *i >= prog.pipes.len()) {
        return None;
    }
    rdrop.sort();
    rdrop.dedup();
    for i in rdrop.into_iter().rev() {
        drop_resource(&mut prog, i);
    }
    pdrop.sort();
    pdrop.dedup();
    for i in pdrop.into_iter().rev() {
        if i < prog.pipes.len() {
            prog.pipes.remove(i);
        }
    }
    // program-level edits
    if let Some(which) = variant.strip_prefix("reserved-") {
        // `reserved-<identifier>`: the first non-cbuffer resource gets that name; `reserved-cb`: a cbuffer named `matrix`
        let (name, want_cb) = match which {
            "cb" => ("matrix", true),
            n if n.starts_with("cb-") && n.len() > 3 && n[3..].chars().all(|c| c.is_ascii_alphanumeric() || c == '_') => {
                (&n[3..], true)
            }
            n if !n.is_empty() && n.chars().all(|c| c.is_ascii_alphanumeric() || c == '_') => (n, false),
            _ => return None,
        };
        let idx = prog.resources.iter().position(|r| (r.kind == "cbuffer") == want_cb);
        match idx {
            Some(i) => prog.resources[i].name = name.to_string(),
            None => {
                prog.resources.push(Resource {
                    name: name.to_string(),
                    ty: if want_cb { "cbuffer".into() } else { "Texture2D<float4>".into() },
                    kind: if want_cb { "cbuffer".into() } else { "Texture2D".into() },
                    group: None,
                    len: None,
                    static_sampler: false,
                    bindless: false,
                    empty: false,
                });
            }
        }
    }
    // `entry-<identifier>`: the first entry point function gets that name (reserved in HLSL: the exporter renames it)
    if let Some(name) = variant.strip_prefix("entry-") {
        if name.is_empty() || !name.chars().all(|c| c.is_ascii_alphanumeric() || c == '_') || prog.entries.is_empty() {
            return None;
        }
        prog.entries[0].func.name = name.to_string();
    }
    let mut decls = decls_of(&prog);
    let mut includes: Vec<(String, String)> = Vec::new();
    let mut defines: Vec<(String, String)> = Vec::new();
    let mut control = false;
    let mut src = render(&prog, &|_| true);
    if seed % 3 == 0 || variant == "state" {
        src = add_state(&src);
    }
    let nlines = src.lines().count();
    let lines: Vec<&str> = src.lines().collect();
    let ff = first_function_line(&lines);
    let mid = if nlines > ff { ff + (seed as usize % (nlines - ff).max(1)) } else { ff };
    // a position between two top-level definitions at or after `mid`
    let mid_top = (mid..nlines)
        .find(|&i| i == 0 || lines[i - 1] == "}" || lines[i - 1].ends_with(';') && !lines[i - 1].starts_with(' '))
        .unwrap_or(nlines);
    drop(lines);
    src = match variant {
        "plain" | "state" | "plain-vl" => src,
        v if v.starts_with("reserved-") || v.starts_with("entry-") => src,
        "pp-guard" => format!("#ifndef MAIN_GUARD\n#define MAIN_GUARD\n{}#endif\n#ifndef MAIN_GUARD\nthis is never parsed @\n#endif\n", src),
        "pp-macros" => {
            // object-like macros used in types, sizes and names
            let s = src.replace("float4(0, 0, 0, 1)", "ORIGIN").replace("64, 1, 1", "GROUP_SIZE");
            format!("#define ZERO 0\n#define ORIGIN float4(ZERO, ZERO, ZERO, 1)\n#define GROUP_SIZE 64, 1, 1\n#define UNUSED_MACRO ORIGIN + UNUSED_MACRO\n{}", s)
        }
        "pp-version" => format!(
            "#if __HLSL_VERSION >= 2021 && defined(__HLSL_VERSION)\n#define VERSION_OK 1\n#else\n#define VERSION_OK 0\n#endif\n#if VERSION_OK\n{}#else\nerror version\n#endif\n",
            src
        ),
        // since fix ed75afa a skipped block may also hold lines that start with # but not with a directive name; they
        // name the target macros here: inactive text must not matter on any target
        "pp-dead-garbage" => insert_lines(
            &src,
            mid_top,
            "#if 0\nvoid broken( { ) ) 12 + ;\n#3 RSSL_TARGET_MSL\n#while RSSL_TARGET_HLSL\n#frobnicate RSSL_TARGET_MSL\n#elif defined(NOT_DEFINED_ANYWHERE)\nalso broken )\n# ( RSSL_TARGET_HLSL\n#endif",
        ),
        "unbounded" => {
            decls.push(DeclDesc { name: "g_unbounded".into(), kind: "Texture2D".into(), len: "*".into(), ss: false });
            insert_lines(&src, ff, "Texture2D<float4> g_unbounded[];")
        }
        "typedef-array" => {
            // the array dimension (and so the implicit const of an extern global) comes from a typedef
            decls.push(DeclDesc { name: "g_typedef_tex".into(), kind: "Texture2D".into(), len: "3".into(), ss: false });
            decls.push(DeclDesc { name: "g_typedef_buf".into(), kind: "RWStructuredBuffer".into(), len: "2".into(), ss: false });
            insert_lines(
                &src,
                ff,
                "typedef Texture2D<float4> TexArray3[3];\nTexArray3 g_typedef_tex;\ntypedef RWStructuredBuffer<float4> BufArray2[2];\nBufArray2 g_typedef_buf;",
            )
        }
        "api-define" => {
            defines.push(("ARRAY_LEN".into(), "2".into()));
            defines.push(("USE_EXTRA".into(), "1".into()));
            defines.push(("EXTRA_TYPE".into(), "Texture2D<float4>".into()));
            decls.push(DeclDesc { name: "g_extra".into(), kind: "Texture2D".into(), len: "2".into(), ss: false });
            insert_lines(&src, ff, "#if USE_EXTRA && defined(ARRAY_LEN)\nEXTRA_TYPE g_extra[ARRAY_LEN];\n#else\nthis branch is dead (\n#endif")
        }
        "include" | "e-include-type" | "e-include-parse" => {
            // declarations go to an included file (included twice, guarded by #pragma once), functions stay
            let lines: Vec<&str> = src.lines().collect();
            let mut common = String::from("#pragma once\n");
            for l in &lines[..ff] {
                common.push_str(l);
                common.push('\n');
            }
            match variant {
                "e-include-type" => common.push_str("static NoSuchType g_in_include;\n"),
                "e-include-parse" => common.push_str("static int g_in_include = (;\n"),
                _ => {}
            }
            let mut main = String::from("#include \"common/decls.rssl\"\n#include \"common/decls.rssl\"\n");
            for l in &lines[ff..] {
                main.push_str(l);
                main.push('\n');
            }
            includes.push(("common/decls.rssl".into(), common));
            main
        }
        "nonresource" | "nonresource-rq" | "nonresource-ts" => {
            // a global of an object type that is not a resource (no register class: fix 774c0b4): it takes no slot on any
            // target and every exporter refuses it with UnsupportedObjectType (DirectX used to panic while assigning slots)
            let (kind, ty) = match variant {
                "nonresource" => ("RayDesc", "RayDesc"),
                "nonresource-rq" => ("RayQuery", "RayQuery<0>"),
                _ => ("TriangleStream", "TriangleStream<float4>"),
            };
            decls.push(DeclDesc { name: "g_nonresource".into(), kind: kind.into(), len: "-".into(), ss: false });
            insert_lines(&src, ff, &format!("{} g_nonresource;", ty))
        }
        "layout-trap" | "layout-trap-vl" => {
            // a struct whose HLSL structured-buffer layout and Metal layout differ: accepted everywhere as long as the
            // optional layout validation is off for every target
            decls.push(DeclDesc { name: "g_trap".into(), kind: "StructuredBuffer".into(), len: "-".into(), ss: false });
            insert_lines(&src, ff, "struct LayoutTrap { float a; float2 b; float3 c; };\nStructuredBuffer<LayoutTrap> g_trap;")
        }
        "ctl-target-macro" => {
            control = true;
            format!("{}#if RSSL_TARGET_MSL\nstatic NoSuchType g_only_on_metal;\n#endif\n", src)
        }
        "ctl-concat" => {
            control = true;
            format!("#define CAT(a, b) a##b\n{}#if CAT(RSSL_TARGET_, MSL)\nstatic NoSuchType g_only_on_metal;\n#endif\n", src)
        }
        "e-lex-top" => insert_lines(&src, 1, "static int bad_char = 1 ` 2;"),
        "e-lex-end" => format!("{}static int bad_number = 12abc34;\n", src),
        "e-pp-endif" => insert_lines(&src, mid_top, "#endif"),
        "e-pp-unknown" => insert_lines(&src, mid_top, "#frobnicate now"),
        "e-pp-include" => insert_lines(&src, mid_top, "#include \"does_not_exist.rssl\""),
        "e-pp-if" => insert_lines(&src, mid_top, "#if (1 +\n#endif"),
        "e-pp-unterminated" => format!("{}#ifdef MAIN_GUARD\n#else\n", src),
        "e-parse-top" => insert_lines(&src, 1, "static int broken = ;"),
        "e-parse-mid" => insert_lines(&src, mid_top, "void broken_fn( {"),
        "e-parse-end" => format!("{}struct Unfinished {{ int a;\n", src),
        "e-type-undef-mid" => insert_lines(&src, mid_top, "void bad_fn() { undefined_name; }"),
        "e-type-undef-end" => format!("{}void bad_fn() {{ undefined_name = 1; }}\n", src),
        "e-type-unknown-type" => insert_lines(&src, mid_top, "static UnknownType g_bad;"),
        "e-type-dup-struct" => insert_lines(&src, mid_top, "struct CbS { float4 w; };"),
        "e-type-args" => insert_lines(&src, mid_top, "void bad_fn() { float4 v = float4(1, 2); float3 w = v.xyzq; }"),
        "e-type-in-entry" => {
            // first statement of the first function body
            match src.find("{\n    ") {
                Some(i) if src[..i].contains(')') => format!("{}{{\n    undefined_in_body;\n    {}", &src[..i], &src[i + 6..]),
                _ => format!("{}void bad_fn() {{ undefined_in_body; }}\n", src),
            }
        }
        "e-pipe-entry" => format!("{}Pipeline PBad\n{{\n    ComputeShader = no_such_entry;\n}}\n", src),
        "e-pipe-dup" => {
            if prog.pipes.is_empty() {
                format!("{}Pipeline PD {{ }}\nPipeline PD {{ }}\n", src)
            } else {
                format!("{}Pipeline P0\n{{\n}}\n", src)
            }
        }
        "e-pipe-state" => format!(
            "{}[numthreads(1, 1, 1)]\nvoid cs_state() {{}}\nPipeline PState\n{{\n    ComputeShader = cs_state;\n    CullMode = \"None\";\n}}\n",
            src
        ),
        "e-pipe-prop" => format!(
            "{}[numthreads(1, 1, 1)]\nvoid cs_prop() {{}}\nPipeline PProp\n{{\n    ComputeShader = cs_prop;\n    NoSuchProperty = 1;\n}}\n",
            src
        ),
        _ => return None,
    };
    if variant == "e-pp-unterminated" {
        expect_front_reject = true;
    }
    Some(Built { src, decls, prog, expect_front_reject, includes, defines, control, wide_pipes: None })
}

/// `wide[-odd][-inc][-on][-rich]`: a program of the C17 wide generator (every resource kind incl. typedef'd, unsized,
/// bindless arrays, cbuffers with 0-5 members, static samplers with properties, inactive text that names the target
/// macros, 9 entry signature shapes, every pipeline state property); `-odd` = with the generator's odd edits (mostly
/// front-end rejections of the type checker), `-inc` = part of the file included, `-on` = API define WIDE_ON,
/// `-rich` = function bodies that call methods on the resources.  Shrinking drops resource / pipeline items.
fn build_wide(seed: u64, variant: &str, drops: &str) -> Option<Built> {
    let opts: Vec<&str> = variant.split('-').skip(1).collect();
    if opts.iter().any(|o| !["odd", "inc", "on", "rich"].contains(o)) {
        return None;
    }
    let has = |o: &str| opts.contains(&o);
    let mut rng = Rng::new(seed ^ 0x18_18);
    let wo = WideOpts {
        allow_mesh: seed % 3 == 0,
        odd_percent: if has("odd") { 100 } else { 0 },
        no_overloads: true,
        rich_percent: if has("rich") { 100 } else { 30 },
        unsized_arrays: seed % 4 == 0,
        ..WideOpts::default()
    };
    let mut prog = gen_wide(&mut rng, &wo);
    let mut tries = 0;
    while prog.pipes().is_empty() && seed % 16 != 1 && tries < 20 {
        prog = gen_wide(&mut rng, &wo);
        tries += 1;
    }
    // shrinking: drop the k-th resource / pipeline item, helper calls, statics
    let mut rdrop: Vec<usize> = Vec::new();
    let mut pdrop: Vec<usize> = Vec::new();
    let (mut no_helpers, mut no_statics) = (false, false);
    for d in drops.split('.').filter(|d| !d.is_empty()) {
        match (d.chars().next(), d[1..].parse::<usize>()) {
            (Some('r'), Ok(i)) => rdrop.push(i),
            (Some('p'), Ok(i)) => pdrop.push(i),
            (Some('h'), _) => no_helpers = true,
            (Some('s'), _) => no_statics = true,
            _ => return None,
        }
    }
    if rdrop.iter().any(|i| *i >= prog.resources().len()) || pdrop.iter().any(|i| *i >= prog.pipes().len()) {
        return None;
    }
    let dropped_res: Vec<String> = prog.resources().iter().enumerate().filter(|(i, _)| rdrop.contains(i)).map(|(_, r)| r.name.clone()).collect();
    let (mut ri, mut pi) = (0usize, 0usize);
    let mut items = Vec::new();
    for it in &prog.items {
        match it {
            WItem::Res(_) => {
                if !rdrop.contains(&ri) {
                    items.push(it.clone());
                }
                ri += 1;
            }
            WItem::Pipe(_) => {
                if !pdrop.contains(&pi) {
                    items.push(it.clone());
                }
                pi += 1;
            }
            WItem::Static(_) if no_statics => {}
            WItem::Func(f) => {
                let mut f = f.clone();
                f.uses.retain(|u| !dropped_res.contains(u));
                if no_helpers {
                    f.calls.clear();
                }
                if no_statics {
                    f.statics.clear();
                }
                items.push(WItem::Func(f));
            }
            _ => items.push(it.clone()),
        }
    }
    let prog = WProgram { items };
    let on = has("on");
    let act = prog.active(on);
    let decls: Vec<DeclDesc> = prog
        .resources()
        .iter()
        .map(|r| DeclDesc {
            name: r.name.clone(),
            kind: if r.kind == "TrapBuffer" { "StructuredBuffer".to_string() } else { r.kind.clone() },
            len: if r.kind == "cbuffer" {
                "-".into()
            } else {
                match r.len {
                    Some(0) => "*".into(),
                    Some(n) => n.to_string(),
                    None => "-".into(),
                }
            },
            ss: r.static_sampler,
        })
        .collect();
    // stage lists as the pipeline blocks spell them (meaningful when the front end accepts the file)
    let mut wide_pipes = Vec::new();
    for p in act.pipes() {
        let mut st = Vec::new();
        for pr in &p.props {
            let Some(stage) = pr.name.strip_suffix("Shader") else { continue };
            if !["Vertex", "Pixel", "Compute", "Mesh", "Task"].contains(&stage) {
                continue;
            }
            let entry = match &pr.val {
                crate::c17::wgen::Val::Ident(n) => n.clone(),
                _ => "?".to_string(),
            };
            let th = act.funcs().iter().find(|f| f.name == entry && !f.flags.contains('d')).and_then(|f| f.threads);
            st.push(match th {
                Some(t) => format!("{}={}@{}x{}x{}", stage, entry, t[0].v, t[1].v, t[2].v),
                None => format!("{}={}", stage, entry),
            });
        }
        wide_pipes.push((p.name.clone(), st.join(",")));
    }
    let r = render_wide(&prog, &RenderOpts { include: has("inc") });
    let src = r.files[0].1.clone();
    let includes: Vec<(String, String)> = r.files[1..].to_vec();
    let defines: Vec<(String, String)> = if on { vec![("WIDE_ON".into(), "1".into())] } else { Vec::new() };
    let empty = Program { nstatics: 0, resources: Vec::new(), helpers: Vec::new(), entries: Vec::new(), pipes: Vec::new(), layout: 0 };
    Some(Built { src, decls, prog: empty, expect_front_reject: false, includes, defines, control: false, wide_pipes: Some(wide_pipes) })
}

// ------------------------------------------------------------------------------------------------ oracle helpers

/// The RESERVED_NAMES table of a back end, re-read from the source tree the harness was built from
/// (`VERIF_REPO` or /repo): string literals and `pub const X: &str = ".."` references.
fn reserved_table(crate_dir: &str) -> Vec<String> {
    let repo = std::env::var("VERIF_REPO").unwrap_or_else(|_| "/repo".to_string());
    let text = std::fs::read_to_string(format!("{}/{}/src/names.rs", repo.trim_end_matches('/'), crate_dir)).unwrap_or_default();
    let mut consts: Vec<(String, String)> = Vec::new();
    for line in text.lines() {
        let l = line.trim();
        if let Some(rest) = l.strip_prefix("pub const ") {
            if let Some((name, tail)) = rest.split_once(": &str = \"") {
                if let Some(v) = tail.strip_suffix("\";") {
                    consts.push((name.trim().to_string(), v.to_string()));
                }
            }
        }
    }
    let mut out = Vec::new();
    if let Some(start) = text.find("pub const RESERVED_NAMES") {
        let body = &text[start..];
        let body = &body[body.find("&[").map(|i| i + 2).unwrap_or(0)..];
        let body = &body[body.find("&[").map(|i| i + 2).unwrap_or(0)..];
        let end = body.find("];").unwrap_or(body.len());
        for line in body[..end].lines() {
            let l = line.split("//").next().unwrap_or("").trim();
            for item in l.split(',') {
                let item = item.trim();
                if item.is_empty() {
                    continue;
                }
                if let Some(v) = item.strip_prefix('"').and_then(|x| x.strip_suffix('"')) {
                    out.push(v.to_string());
                } else if let Some((_, v)) = consts.iter().find(|(n, _)| n == item) {
                    out.push(v.clone());
                }
            }
        }
    }
    out
}

thread_local! {
    static RESERVED: (Vec<String>, Vec<String>) = (reserved_table("hlsl"), reserved_table("msl"));
}

/// declared name a reported binding name goes back to: itself, or `<declared>_<n>` with the counter stripped
fn base_name(name: &str, declared: &[&str]) -> String {
    if declared.contains(&name) {
        return name.to_string();
    }
    if let Some((head, tail)) = name.rsplit_once('_') {
        if !tail.is_empty() && tail.chars().all(|c| c.is_ascii_digit()) && declared.contains(&head) {
            return head.to_string();
        }
    }
    name.to_string()
}

/// crude lexer used to compare HLSL sources token for token
fn tokens(s: &str) -> Vec<String> {
    let b: Vec<char> = s.chars().collect();
    let mut out = Vec::new();
    let mut i = 0;
    while i < b.len() {
        let c = b[i];
        if c.is_whitespace() {
            i += 1;
        } else if c.is_alphanumeric() || c == '_' {
            let j = (i..b.len()).find(|&j| !(b[j].is_alphanumeric() || b[j] == '_' || b[j] == '.')).unwrap_or(b.len());
            out.push(b[i..j].iter().collect());
            i = j;
        } else if c == '"' {
            let j = (i + 1..b.len()).find(|&j| b[j] == '"').map(|j| j + 1).unwrap_or(b.len());
            out.push(b[i..j].iter().collect());
            i = j;
        } else {
            out.push(c.to_string());
            i += 1;
        }
    }
    out
}

fn skip_parens(t: &[String], mut i: usize) -> usize {
    // t[i] == "(" ; returns the index after the matching ")"
    let mut depth = 0;
    while i < t.len() {
        if t[i] == "(" {
            depth += 1;
        } else if t[i] == ")" {
            depth -= 1;
            if depth == 0 {
                return i + 1;
            }
        }
        i += 1;
    }
    i
}

/// erase `: register(..)` and `[[vk::..]]` annotations
fn erase_annotations(t: &[String]) -> Vec<String> {
    let mut out = Vec::new();
    let mut i = 0;
    while i < t.len() {
        if t[i] == ":" && i + 2 < t.len() && t[i + 1] == "register" && t[i + 2] == "(" {
            i = skip_parens(t, i + 2);
        } else if t[i] == "[" && i + 4 < t.len() && t[i + 1] == "[" && t[i + 2] == "vk" && t[i + 3] == ":" && t[i + 4] == ":" {
            let mut j = i + 5;
            while j + 1 < t.len() && !(t[j] == "]" && t[j + 1] == "]") {
                j += 1;
            }
            i = j + 2;
        } else {
            out.push(t[i].clone());
            i += 1;
        }
    }
    out
}

fn first_diff(a: &[String], b: &[String]) -> String {
    let k = a.iter().zip(b.iter()).position(|(x, y)| x != y).unwrap_or(a.len().min(b.len()));
    let ctx = |v: &[String]| v[k.saturating_sub(4)..(k + 4).min(v.len())].join(" ");
    format!("at token {}: `{}` vs `{}`", k, ctx(a), ctx(b))
}

fn show_threads(t: &Option<(u32, u32, u32)>) -> String {
    match t {
        Some((x, y, z)) => format!("{},{},{}", x, y, z),
        None => "-".into(),
    }
}

fn show_target(name: &str, v: &Verdict, pipe_names: &[String]) -> String {
    match v {
        Verdict::Ok(ps) => {
            let mut s = format!("{}{{", name);
            for (i, p) in ps.iter().enumerate() {
                if i > 0 {
                    s.push(';');
                }
                let st: Vec<String> =
                    p.stages.iter().map(|(st, e, t)| format!("{}:{}:{}", st, e, show_threads(t))).collect();
                s.push_str(&format!("{}[{}]", pipe_names.get(i).cloned().unwrap_or_else(|| "?".into()), st.join(",")));
            }
            s.push('|');
            if let Some(p) = ps.first() {
                let mut bs: Vec<String> = p
                    .bindings
                    .iter()
                    .map(|b| {
                        format!(
                            "{}:{}:{}{}",
                            b.name,
                            b.kind,
                            b.count.map(|c| c.to_string()).unwrap_or_else(|| "*".into()),
                            if b.ss { ":ss" } else { "" }
                        )
                    })
                    .collect();
                bs.sort();
                s.push_str(&bs.join(","));
            }
            s.push('}');
            s
        }
        other => format!("{}{{{}}}", name, class(other)),
    }
}

/// Step 5 of the oracle, in the property's words: every target that produced output reports the same number of
/// outputs, per output the same stage kinds / thread-group sizes, the same pipeline state and the same multiset of
/// (binding name, descriptor kind, count) once static samplers and buffer addresses (known from the declarations) are
/// put aside.  Used for every mode of compile(): all pipelines, one named pipeline, no pipeline.
fn compare_reports(results: &[(Tgt, Verdict)], b: &Built, fails: &mut Vec<String>) {
    let aside: Vec<&str> =
        b.decls.iter().filter(|d| d.ss || d.kind.contains("Address")).map(|d| d.name.as_str()).collect();
    let declared: Vec<&str> = b.decls.iter().map(|d| d.name.as_str()).collect();
    let is_msl = |t: Tgt| t == Tgt::Msl;
    let produced: Vec<(Tgt, &Vec<PipeInfo>)> =
        results.iter().filter_map(|(t, v)| if let Verdict::Ok(p) = v { Some((*t, p)) } else { None }).collect();
    if let Some((t0, p0)) = produced.first() {
        for (t, p) in &produced[1..] {
            if p.len() != p0.len() {
                fails.push(format!("{} built {} pipelines, {} built {}", t0.name(), p0.len(), t.name(), p.len()));
                continue;
            }
            for i in 0..p.len() {
                let ks = |x: &PipeInfo| x.stages.iter().map(|(s, _, g)| (s.clone(), *g)).collect::<Vec<_>>();
                if ks(&p[i]) != ks(&p0[i]) {
                    fails.push(format!("pipeline {}: stages / thread-group sizes differ {} vs {}", i, t0.name(), t.name()));
                }
                if p[i].state != p0[i].state {
                    fails.push(format!("pipeline {}: pipeline state differs {} vs {}", i, t0.name(), t.name()));
                }
                // static samplers and buffer addresses are known from the declarations; a reported name goes back to
                // its declaration even when an exporter appended a counter to it
                let core = |x: &PipeInfo| {
                    let mut v: Vec<(String, String, Option<u32>)> = x
                        .bindings
                        .iter()
                        .filter(|b| !aside.contains(&base_name(&b.name, &declared).as_str()))
                        .map(|b| (b.name.clone(), b.kind.clone(), b.count))
                        .collect();
                    v.sort();
                    v
                };
                let (c0, c1) = (core(&p0[i]), core(&p[i]));
                if c0 != c1 {
                    let only0: Vec<_> = c0.iter().filter(|x| !c1.contains(x)).collect();
                    let only1: Vec<_> = c1.iter().filter(|x| !c0.contains(x)).collect();
                    // Is the whole difference the renaming of declared names that are reserved words of one of the two
                    // target languages only (HLSL and Metal each rename what is reserved for them; an HLSL cbuffer block
                    // keeps its name, the Metal global made from it does not)?  Decided from the two RESERVED_NAMES
                    // tables of the source tree, not from a list of names.
                    let mut class: Option<&'static str> = None;
                    if is_msl(*t0) != is_msl(*t) {
                        let rebase = |c: &Vec<(String, String, Option<u32>)>| {
                            let mut v: Vec<(String, String, Option<u32>)> =
                                c.iter().map(|(n, k, cnt)| (base_name(n, &declared), k.clone(), *cnt)).collect();
                            v.sort();
                            v
                        };
                        if rebase(&c0) == rebase(&c1) {
                            let explained = RESERVED.with(|(hl, ms)| {
                                let mut tags: Vec<&'static str> = Vec::new();
                                for (n, _, _) in only0.iter().chain(only1.iter()) {
                                    let base = base_name(n, &declared);
                                    let in_h = hl.contains(&base);
                                    let in_m = ms.contains(&base);
                                    let is_cb = b.decls.iter().any(|d| d.name == base && d.kind == "cbuffer");
                                    if is_cb && in_m {
                                        tags.push("msl");
                                    } else if !is_cb && in_h && !in_m {
                                        tags.push("hlsl");
                                    } else if !is_cb && in_m && !in_h {
                                        tags.push("msl");
                                    } else {
                                        return None;
                                    }
                                }
                                tags.sort();
                                tags.dedup();
                                Some(if tags.len() == 1 { tags[0] } else { "both" })
                            });
                            class = explained;
                        }
                    }
                    let what = format!(
                        "pipeline {}: bindings differ {} vs {}: only {}: {:?}; only {}: {:?}",
                        i,
                        t0.name(),
                        t.name(),
                        t0.name(),
                        only0,
                        t.name(),
                        only1
                    );
                    match class {
                        Some(c) => fails.push(format!("binding-name-reserved-in-one-target:{}: {}", c, what)),
                        None => fails.push(what),
                    }
                }
            }
        }
    }
}

fn run_cross(seed: u64, variant: &str, out: &mut Out, hist: &mut Hist) {
    let Some(b) = build(seed, variant) else {
        out.case(&format!("C18.cross\t{}\t{}\t\t\t", seed, variant), "", "SKIP:unknown variant");
        return;
    };
    let mut files = vec![("main.rssl".to_string(), b.src.clone())];
    files.extend(b.includes.iter().cloned());
    let defs: Vec<(&str, &str)> = b.defines.iter().map(|(a, c)| (a.as_str(), c.as_str())).collect();
    // `<variant>-vl`: the optional layout validation is requested for every target
    let validate = variant.split('~').next().unwrap_or("").ends_with("-vl");
    let results: Vec<(Tgt, Verdict)> =
        ALL_TARGETS.iter().map(|t| (*t, compile_info_vl(&files, &defs, *t, &Mode::All, validate))).collect();
    let decls: Vec<String> =
        b.decls.iter().map(|d| format!("{}:{}:{}:{}", d.name, d.kind, d.len, if d.ss { 1 } else { 0 })).collect();
    let pipe_names: Vec<String> = match &b.wide_pipes {
        Some(wp) => wp.iter().map(|(n, _)| n.clone()).collect(),
        None => b.prog.pipes.iter().map(|p| p.name.clone()).collect(),
    };
    let legacy_pipes: Vec<String> = b
        .prog
        .pipes
        .iter()
        .map(|p| {
            let st: Vec<String> = p
                .stages
                .iter()
                .map(|k| {
                    let e = &b.prog.entries[*k];
                    match e.threads {
                        Some(t) => format!("{}={}@{}x{}x{}", e.stage, e.func.name, t.0, t.1, t.2),
                        None => format!("{}={}", e.stage, e.func.name),
                    }
                })
                .collect();
            format!("{}:{}", p.name, st.join(","))
        })
        .collect();
    let mut verdicts: Vec<String> = results.iter().map(|(t, v)| format!("{}={}", t.name(), class(v))).collect();
    // the fifth configuration; its verdict is *predicted* by the model from Msl's (Model/CompileSteps.lean), so the
    // request carries what the prediction needs: which pipeline Metal refused, and whether the host has the tool chain
    let mtlb = compile_info_mtlb(&files, &defs, &Mode::All, validate);
    let tool_present = toolchain_present();
    if let Some((_, msl_v)) = results.iter().find(|(t, _)| *t == Tgt::Msl) {
        if class(msl_v) == "back" {
            let bad = pipe_names.iter().position(|n| {
                matches!(compile_info_vl(&files, &defs, Tgt::Msl, &Mode::Named(n.clone()), validate), Verdict::Err(_))
            });
            verdicts.push(format!("mslbad={}", bad.map(|k| k.to_string()).unwrap_or_else(|| "?".into())));
        }
    }
    verdicts.push(format!("tool={}", if tool_present { "present" } else { "absent" }));
    let pipes: Vec<String> = match &b.wide_pipes {
        // the stage lists of a wide program are read off its text: they mean something only if the file is accepted
        Some(_) if !results.iter().any(|(_, v)| matches!(v, Verdict::Ok(_))) => Vec::new(),
        Some(wp) => wp.iter().map(|(n, st)| format!("{}:{}", n, st)).collect(),
        None => legacy_pipes,
    };
    let req = format!(
        "C18.cross\t{}\t{}\t{}\t{}\t{}",
        seed,
        variant,
        decls.join(";"),
        pipes.join(";"),
        verdicts.join(",")
    );
    let mut obs: Vec<String> = results.iter().map(|(t, v)| show_target(t.name(), v, &pipe_names)).collect();
    obs.push(show_target(MTLB, &mtlb, &pipe_names));
    let obs = obs.join(" ");

    // ---------------------------------------------------------------- the property's own oracle
    let mut fails: Vec<String> = Vec::new();
    let get = |t: Tgt| &results.iter().find(|(x, _)| *x == t).unwrap().1;
    let (dx, vk, vkba, msl) = (get(Tgt::Dx), get(Tgt::Vk), get(Tgt::VkBa), get(Tgt::Msl));
    // 1. front-end verdict and diagnostic
    let front = |v: &Verdict| -> Result<(), String> {
        match v {
            Verdict::Ok(_) => Ok(()),
            Verdict::Err(e) if is_backend_error(e) => Ok(()),
            Verdict::Err(e) => Err(e.clone()),
            Verdict::Panic(p) => Err(format!("panic {}", p)),
        }
    };
    for (t, v) in &results[1..] {
        // a panic inside a back end after an accepted front end is C08's business, not a front-end verdict
        if let (Verdict::Panic(_), Ok(())) = (v, front(dx)) {
            hist.add(&format!("backend-or-late-panic:{}", t.name()));
            continue;
        }
        if let (Verdict::Panic(_), _) = (dx, v) {
            continue;
        }
        if front(v) != front(dx) {
            fails.push(format!(
                "front-end verdict differs dx vs {}: {} / {}",
                t.name(),
                one_line(&format!("{:?}", front(dx)).chars().take(120).collect::<String>()),
                one_line(&format!("{:?}", front(v)).chars().take(120).collect::<String>())
            ));
        }
    }
    if let Verdict::Panic(p) = dx {
        // all targets must at least die at the same place for the verdicts to agree
        for (t, v) in &results[1..] {
            if v != dx {
                fails.push(format!("dx panics ({}) but {} does not do the same", p, t.name()));
            }
        }
    }
    // 1b. the fifth configuration.  MetalBytecode is the Msl export plus the native tool chain: the front end must say
    // what it says for every other target (a tool chain error counts as "got past the front end"); a file Msl accepts
    // is built, or ends in exactly the tool chain error (always, on a host without the tool chain); a file Metal's
    // exporter refuses is refused with the same text, or - if it was a later pipeline that was refused - ends in the
    // tool chain error of the first one.
    {
        let front5 = |v: &Verdict| -> Result<(), String> {
            match v {
                Verdict::Err(e) if is_toolchain_error(e) => Ok(()),
                other => front(other),
            }
        };
        let dx_panics = matches!(dx, Verdict::Panic(_));
        if !dx_panics && !matches!(mtlb, Verdict::Panic(_)) && front5(&mtlb) != front(dx) {
            fails.push(format!(
                "front-end verdict differs dx vs mtlb: {} / {}",
                one_line(&format!("{:?}", front(dx)).chars().take(120).collect::<String>()),
                one_line(&format!("{:?}", match &mtlb { Verdict::Err(e) => Err::<(), String>(e.clone()), _ => front5(&mtlb) }).chars().take(120).collect::<String>())
            ));
        }
        match (msl, &mtlb) {
            (Verdict::Ok(m), Verdict::Ok(bc)) => {
                if !tool_present {
                    fails.push("mtlb produced bytecode although the host has no Metal tool chain".to_string());
                }
                let strip = |ps: &Vec<PipeInfo>| ps.iter().map(|p| (p.stages.clone(), p.state.clone(), p.bindings.clone())).collect::<Vec<_>>();
                if strip(m) != strip(bc) {
                    fails.push("msl and mtlb report different stages / pipeline state / bindings".to_string());
                }
            }
            (Verdict::Ok(_), Verdict::Err(e)) if is_toolchain_error(e) => {
                if !tool_present && class(&mtlb) != "tool" {
                    fails.push(format!("mtlb: expected MetalCompilerNotFound on a host without the tool chain, got {}", one_line(e)));
                }
            }
            (Verdict::Ok(_), other) => {
                fails.push(format!("msl accepts the file but mtlb says {}: {}", class(other), match other { Verdict::Err(e) => one_line(&e.chars().take(100).collect::<String>()), Verdict::Panic(p) => p.clone(), _ => String::new() }));
            }
            (Verdict::Err(em), Verdict::Err(eb)) => {
                if em != eb && !(is_backend_error(em) && is_toolchain_error(eb)) {
                    fails.push(format!(
                        "msl and mtlb reject with different errors: {} / {}",
                        one_line(&em.chars().take(100).collect::<String>()),
                        one_line(&eb.chars().take(100).collect::<String>())
                    ));
                }
            }
            (Verdict::Err(_), Verdict::Ok(_)) => fails.push("msl rejects the file but mtlb builds it".to_string()),
            (Verdict::Panic(a), Verdict::Panic(bp)) if a == bp => {}
            (_, Verdict::Panic(_)) | (Verdict::Panic(_), _) => hist.add("backend-or-late-panic:mtlb"),
        }
        hist.add(&format!("mtlb={}", class(&mtlb)));
    }
    // 2. the HLSL flavours succeed or fail together
    let okf = |v: &Verdict| matches!(v, Verdict::Ok(_));
    if okf(dx) != okf(vk) || okf(dx) != okf(vkba) {
        fails.push(format!("HLSL flavours do not succeed together: dx={} vk={} vkba={}", class(dx), class(vk), class(vkba)));
    }
    let has_address = b.decls.iter().any(|d| d.kind.contains("Address"));
    if let (Verdict::Ok(d), Verdict::Ok(v), Verdict::Ok(va)) = (dx, vk, vkba) {
        if d.len() != v.len() || d.len() != va.len() {
            fails.push(format!("pipeline counts differ: dx={} vk={} vkba={}", d.len(), v.len(), va.len()));
        } else {
            for i in 0..d.len() {
                // 3. sources differ only in annotations
                let (td, tv) = (erase_annotations(&tokens(&d[i].text)), erase_annotations(&tokens(&v[i].text)));
                if td != tv {
                    fails.push(format!("pipeline {}: dx and vk sources differ beyond annotations {}", i, first_diff(&td, &tv)));
                }
                if tokens(&d[i].text) == tokens(&v[i].text) && !b.decls.is_empty() && d[i].bindings.len() > 0 {
                    fails.push(format!("pipeline {}: dx and vk sources are identical although bindings exist", i));
                }
                if !has_address && v[i].text != va[i].text {
                    fails.push(format!("pipeline {}: vk and vk+buffer-address sources differ without any buffer address", i));
                }
                if has_address {
                    // "differ only in how buffer addresses are lowered": every line that is not the same in both texts
                    // names a declared buffer address (its declaration, a use) or the inline descriptor block that
                    // replaces the bindings; all other lines are equal, in order
                    let addr_names: Vec<&str> =
                        b.decls.iter().filter(|d| d.kind.contains("Address")).map(|d| d.name.as_str()).collect();
                    let keep = |text: &str| -> Vec<String> {
                        let mut out = Vec::new();
                        let mut in_block = false;
                        for l in text.lines() {
                            // the generated `struct InlineDescriptorN { .. };` / cbuffer that carries the addresses
                            if l.contains("InlineDescriptor") || l.contains("g_inlineDescriptor") {
                                if l.trim_end().ends_with('{') || !l.contains(';') {
                                    in_block = true;
                                }
                                continue;
                            }
                            if in_block {
                                if l.starts_with('}') {
                                    in_block = false;
                                }
                                continue;
                            }
                            let toks = tokens(l);
                            if toks.iter().any(|t| addr_names.iter().any(|a| t == a || t.starts_with(&format!("{}.", a)) || base_name(t, &addr_names) == *a)) {
                                continue;
                            }
                            out.push(l.to_string());
                        }
                        out
                    };
                    // binding numbers move when the addresses leave the descriptor table: annotations are erased here too
                    let (kv, kva) = (
                        erase_annotations(&tokens(&keep(&v[i].text).join("\n"))),
                        erase_annotations(&tokens(&keep(&va[i].text).join("\n"))),
                    );
                    if kv != kva {
                        fails.push(format!(
                            "pipeline {}: vk and vk+buffer-address sources differ on a line that names no buffer address {}",
                            i,
                            first_diff(&kv, &kva)
                        ));
                    }
                }
                // 4. entry names among the HLSL flavours
                if d[i].stages != v[i].stages || d[i].stages != va[i].stages {
                    fails.push(format!("pipeline {}: stage reports differ between HLSL flavours", i));
                }
            }
        }
    }
    // 5. stages, sizes, state, bindings across every target that produced output
    compare_reports(&results, &b, &mut fails);
    // an unexplained difference is reported before an explained one
    fails.sort_by_key(|f| f.starts_with("binding-name-reserved-in-one-target:"));
    let _ = msl;
    hist.add(&format!("variant={}", variant));
    hist.add(&format!("verdicts={}", verdicts.join(",")));
    hist.add(&format!("pipes={}", pipe_names.len()));
    hist.add(&format!("resources={}", b.decls.len()));
    for d in &b.decls {
        hist.add(&format!("kind={}", d.kind));
    }
    if b.expect_front_reject && class(dx) != "front" {
        hist.add(&format!("inject-not-rejected:{}", variant));
    }
    if let Verdict::Err(e) = msl {
        if is_backend_error(e) {
            hist.add(&format!("msl-backend={}", e.chars().take(60).collect::<String>()));
        }
    }
    if let Verdict::Err(e) = dx {
        let k: String = e.lines().next().unwrap_or("").split("error:").nth(1).unwrap_or("?").trim().chars().take(40).collect();
        hist.add(&format!("diag={}", k));
    }
    fails.dedup();
    if b.control {
        // the file tests a target macro on purpose: the oracle has to notice
        let oracle = if fails.iter().any(|f| f.starts_with("front-end verdict differs")) {
            hist.add("control-detected");
            "ok".to_string()
        } else {
            "FAIL:control file that tests RSSL_TARGET_MSL was not told apart".to_string()
        };
        out.case(&req, &obs, &oracle);
        return;
    }
    let oracle = if fails.is_empty() { "ok".to_string() } else { format!("FAIL:{}", fails[0]) };
    out.case(&req, &obs, &oracle);
}

// ------------------------------------------------------------------------------------------------ C18.mode

/// front-end verdict of one run: `Ok` = got past the front end (accepted, or refused by an exporter)
fn front_of(v: &Verdict) -> Result<(), String> {
    match v {
        Verdict::Ok(_) => Ok(()),
        Verdict::Err(e) if is_backend_error(e) => Ok(()),
        Verdict::Err(e) => Err(e.clone()),
        Verdict::Panic(p) => Err(format!("panic {}", p)),
    }
}

/// `C18.mode <seed> <variant> <mode> <decls> <pipes> <verdicts>`: the program of `C18.cross <seed> <variant>` compiled for
/// the four configurations (and MetalBytecode, oracle only) in one of the other two modes of compile(): `name:<P>`
/// (`CompileArgs::pipeline_name`) or `none` (`CompileArgs::no_pipeline_mode()`: the module is exported without a selected
/// pipeline; one output without stages).  `pipes` = the named pipeline (empty for `none`).
///   observe : as C18.cross for the single output (`dx{|g_r0:Texture2d:1,..}` in no-pipeline mode)
///   oracle  : the property in that mode: same front-end verdict and diagnostic on every configuration, the HLSL flavours
///             succeed together, same number of outputs, same stage kinds / sizes, same pipeline state, same
///             (binding name, kind, count) multiset with static samplers and buffer addresses put aside.
/// `only`: answer that mode only (replay); otherwise no-pipeline mode and one pipeline picked by the seed.
fn run_modes(seed: u64, variant: &str, only: Option<&str>, out: &mut Out, hist: &mut Hist) {
    let Some(b) = build(seed, variant) else {
        return;
    };
    if b.control {
        return;
    }
    let mut files = vec![("main.rssl".to_string(), b.src.clone())];
    files.extend(b.includes.iter().cloned());
    let defs: Vec<(&str, &str)> = b.defines.iter().map(|(a, c)| (a.as_str(), c.as_str())).collect();
    let validate = variant.split('~').next().unwrap_or("").ends_with("-vl");
    // (name, request text) of every pipeline of the program
    let all_pipes: Vec<(String, String)> = match &b.wide_pipes {
        Some(wp) => wp.iter().map(|(n, st)| (n.clone(), format!("{}:{}", n, st))).collect(),
        None => b
            .prog
            .pipes
            .iter()
            .map(|p| {
                let st: Vec<String> = p
                    .stages
                    .iter()
                    .map(|k| {
                        let e = &b.prog.entries[*k];
                        match e.threads {
                            Some(t) => format!("{}={}@{}x{}x{}", e.stage, e.func.name, t.0, t.1, t.2),
                            None => format!("{}={}", e.stage, e.func.name),
                        }
                    })
                    .collect();
                (p.name.clone(), format!("{}:{}", p.name, st.join(",")))
            })
            .collect(),
    };
    let mut modes: Vec<Mode> = Vec::new();
    match only {
        Some("none") => modes.push(Mode::NoPipeline),
        Some(m) if m.starts_with("name:") => modes.push(Mode::Named(m["name:".len()..].to_string())),
        Some(_) => return,
        None => {
            modes.push(Mode::NoPipeline);
            if !all_pipes.is_empty() {
                modes.push(Mode::Named(all_pipes[(seed as usize) % all_pipes.len()].0.clone()));
            }
        }
    }
    let decls: Vec<String> =
        b.decls.iter().map(|d| format!("{}:{}:{}:{}", d.name, d.kind, d.len, if d.ss { 1 } else { 0 })).collect();
    for mode in &modes {
        let results: Vec<(Tgt, Verdict)> =
            ALL_TARGETS.iter().map(|t| (*t, compile_info_vl(&files, &defs, *t, mode, validate))).collect();
        let mtlb = compile_info_mtlb(&files, &defs, mode, validate);
        let any_ok = results.iter().any(|(_, v)| matches!(v, Verdict::Ok(_)));
        let (mode_s, pipe_names, pipes_s): (String, Vec<String>, String) = match mode {
            Mode::Named(n) => {
                let hit = all_pipes.iter().find(|(pn, _)| pn == n);
                (
                    format!("name:{}", n),
                    vec![n.clone()],
                    // stage lists read off the program text mean something only if the file is accepted
                    if any_ok { hit.map(|(_, t)| t.clone()).unwrap_or_default() } else { String::new() },
                )
            }
            _ => ("none".to_string(), Vec::new(), String::new()),
        };
        let verdicts: Vec<String> = results.iter().map(|(t, v)| format!("{}={}", t.name(), class(v))).collect();
        let req = format!(
            "C18.mode\t{}\t{}\t{}\t{}\t{}\t{}",
            seed,
            variant,
            mode_s,
            decls.join(";"),
            pipes_s,
            verdicts.join(",")
        );
        let no_pipe = matches!(mode, Mode::NoPipeline);
        let obs: Vec<String> = results
            .iter()
            .map(|(t, v)| {
                let s = show_target(t.name(), v, &pipe_names);
                match v {
                    // one output without stages: nothing before the `|`
                    Verdict::Ok(ps) if no_pipe && ps.len() == 1 && ps[0].stages.is_empty() => {
                        s.replacen(&format!("{}{{?[]|", t.name()), &format!("{}{{|", t.name()), 1)
                    }
                    _ => s,
                }
            })
            .collect();
        let obs = obs.join(" ");
        // ------------------------------------------------------------ the property's own oracle, in this mode
        let mut fails: Vec<String> = Vec::new();
        let dx = &results[0].1;
        let any_panic = results.iter().any(|(_, v)| matches!(v, Verdict::Panic(_))) || matches!(mtlb, Verdict::Panic(_));
        if any_panic {
            // a panic after an accepted front end is C08's business; the verdicts agree only if all die alike
            hist.add(&format!("mode-panic:{}", if no_pipe { "none" } else { "named" }));
            if matches!(dx, Verdict::Panic(_)) {
                for (t, v) in &results[1..] {
                    if v != dx {
                        fails.push(format!("dx panics but {} does not do the same", t.name()));
                    }
                }
            }
        } else {
            for (t, v) in &results[1..] {
                if front_of(v) != front_of(dx) {
                    fails.push(format!(
                        "front-end verdict differs dx vs {}: {} / {}",
                        t.name(),
                        one_line(&format!("{:?}", front_of(dx)).chars().take(120).collect::<String>()),
                        one_line(&format!("{:?}", front_of(v)).chars().take(120).collect::<String>())
                    ));
                }
            }
            let front5 = match &mtlb {
                Verdict::Err(e) if is_toolchain_error(e) => Ok(()),
                other => front_of(other),
            };
            if front5 != front_of(dx) {
                fails.push(format!(
                    "front-end verdict differs dx vs mtlb: {} / {}",
                    one_line(&format!("{:?}", front_of(dx)).chars().take(120).collect::<String>()),
                    one_line(&format!("{:?}", front5).chars().take(120).collect::<String>())
                ));
            }
            if let (Verdict::Ok(m), Verdict::Ok(bc)) = (&results[3].1, &mtlb) {
                let strip = |ps: &Vec<PipeInfo>| ps.iter().map(|p| (p.stages.clone(), p.state.clone(), p.bindings.clone())).collect::<Vec<_>>();
                if strip(m) != strip(bc) {
                    fails.push("msl and mtlb report different stages / pipeline state / bindings".to_string());
                }
            }
        }
        let okf = |v: &Verdict| matches!(v, Verdict::Ok(_));
        if okf(dx) != okf(&results[1].1) || okf(dx) != okf(&results[2].1) {
            fails.push(format!(
                "HLSL flavours do not succeed together: dx={} vk={} vkba={}",
                class(dx),
                class(&results[1].1),
                class(&results[2].1)
            ));
        }
        compare_reports(&results, &b, &mut fails);
        fails.sort_by_key(|f| f.starts_with("binding-name-reserved-in-one-target:"));
        fails.dedup();
        hist.add(&format!("mode={}", if no_pipe { "none" } else { "named" }));
        hist.add(&format!("mode-verdicts:{}={}", if no_pipe { "none" } else { "named" }, verdicts.join(",")));
        if no_pipe && any_ok {
            let nb = results.iter().filter_map(|(_, v)| if let Verdict::Ok(p) = v { p.first().map(|x| x.bindings.len()) } else { None }).max().unwrap_or(0);
            hist.add(&format!("mode-none-bindings={}", nb.min(9)));
        }
        let oracle = if fails.is_empty() { "ok".to_string() } else { format!("FAIL:mode {}: {}", mode_s, fails[0]) };
        // keep the known-finding tag at the front of the detail
        let oracle = match fails.first() {
            Some(f) if f.starts_with("binding-name-reserved-in-one-target:") => format!("FAIL:{} (mode {})", f, mode_s),
            _ => oracle,
        };
        out.case(&req, &obs, &oracle);
    }
}

// ------------------------------------------------------------------------------------------------ C18.simplify

/// `C18.simplify <program>`: the root definitions that go back to the program's resources after the real
/// `assign_api_bindings` (Metal parameters) + `simplify_cbuffers`, in order:
/// `struct:<name>:<members>`, `global:<name>:<ConstantBuffer|obj|plain>:<slot|noslot>`, `cbuffer:<name>`.
/// Oracle: no cbuffer block is left; every block of the program (empty ones too) has become a struct `<name>Type` with its
/// members directly followed by a bound `ConstantBuffer` global of the block's name; nothing else was added or removed.
fn run_simplify(prog_s: &str, out: &mut Out, hist: &mut Hist) {
    let req = format!("C18.simplify\t{}", prog_s);
    let Some(prog) = WProgram::parse(prog_s) else {
        out.case(&req, "", "SKIP:bad program");
        return;
    };
    let r = render_wide(&prog, &RenderOpts { include: false });
    let names: Vec<String> = prog.resources().iter().map(|r| r.name.clone()).collect();
    let cbuffers: Vec<(String, u32)> =
        prog.resources().iter().filter(|r| r.kind == "cbuffer").map(|r| (r.name.clone(), r.len.unwrap_or(1))).collect();
    let res = guard(|| -> Result<(Vec<String>, usize, usize), String> {
        let m = front_end("main.rssl", &r.files, &[]).map_err(|e| e.text().to_string())?;
        let m = m.assign_api_bindings(&rssl::AssignBindingsParams {
            require_slot_type: false,
            support_buffer_address: false,
            metal_slot_layout: true,
            static_samplers_have_slots: false,
        });
        let before = m.root_definitions.len();
        let mut m = m;
        rssl::ir::simplify_cbuffers(&mut m);
        let mut v = Vec::new();
        for d in &m.root_definitions {
            match d {
                rssl::ir::RootDefinition::Struct(id) => {
                    let sd = &m.struct_registry[id.0 as usize];
                    if cbuffers.iter().any(|(n, _)| format!("{}Type", n) == sd.name.node) {
                        v.push(format!("struct:{}:{}", sd.name.node, sd.members.len()));
                    }
                }
                rssl::ir::RootDefinition::GlobalVariable(id) => {
                    let g = &m.global_registry[id.0 as usize];
                    if names.contains(&g.name.node) {
                        let ty = m.type_registry.remove_modifier(g.type_id);
                        let ty = match m.type_registry.get_type_layer(ty) {
                            rssl::ir::TypeLayer::Array(inner, _) => m.type_registry.remove_modifier(inner),
                            _ => ty,
                        };
                        let kind = match m.type_registry.get_type_layer(ty) {
                            rssl::ir::TypeLayer::Object(rssl::ir::ObjectType::ConstantBuffer(_)) => "ConstantBuffer",
                            rssl::ir::TypeLayer::Object(_) => "obj",
                            _ => "plain",
                        };
                        // whether an ordinary global has a slot depends on the binding parameters (static samplers on
                        // Metal): only the globals made from cbuffer blocks are expected to carry one whatever they are
                        if cbuffers.iter().any(|(n, _)| *n == g.name.node) {
                            v.push(format!("global:{}:{}:{}", g.name.node, kind, if g.api_slot.is_some() { "slot" } else { "noslot" }));
                        } else {
                            v.push(format!("global:{}:{}", g.name.node, kind));
                        }
                    }
                }
                rssl::ir::RootDefinition::ConstantBuffer(id) => {
                    v.push(format!("cbuffer:{}", id.0));
                }
                _ => {}
            }
        }
        Ok((v, before, m.root_definitions.len()))
    });
    match res {
        Ok(Ok((v, before, after))) => {
            let mut fails: Vec<String> = Vec::new();
            if v.iter().any(|x| x.starts_with("cbuffer:")) {
                fails.push("a cbuffer block survives simplify_cbuffers".into());
            }
            for (n, members) in &cbuffers {
                let want = [format!("struct:{}Type:{}", n, members), format!("global:{}:ConstantBuffer:slot", n)];
                match v.iter().position(|x| *x == want[0]) {
                    Some(i) if v.get(i + 1) == Some(&want[1]) => {}
                    _ => fails.push(format!("cbuffer {} ({} members) did not become `{}` followed by `{}`", n, members, want[0], want[1])),
                }
            }
            if after != before + cbuffers.len() {
                fails.push(format!("{} root definitions became {} with {} cbuffer blocks", before, after, cbuffers.len()));
            }
            hist.add(&format!("simplify-cbuffers={}", cbuffers.len()));
            if cbuffers.iter().any(|(_, m)| *m == 0) {
                hist.add("simplify-empty-cbuffer");
            }
            let oracle = if fails.is_empty() { "ok".to_string() } else { format!("FAIL:{}", fails[0]) };
            out.case(&req, &v.join(";"), &oracle);
        }
        Ok(Err(e)) => out.case(&req, "front", &format!("SKIP:front end rejects the program: {}", one_line(&e.chars().take(80).collect::<String>()))),
        Err(p) => out.case(&req, &format!("panic:{}", p), &format!("FAIL:panic {}", p)),
    }
}

// ------------------------------------------------------------------------------------------------ C18.annot

/// `C18.annot <on|off> <program>`: for every pipeline of a wide program, how many `register(`, `[[vk::binding(`,
/// `[[vk::ext_decorate(`, `[[vk::ext_extension(` the DirectX and the Vulkan export contain:
/// `P0{dx:3,0,0,0;vk:0,3,1,1}..` | front | back.  Oracle (the property's words): a DirectX export has no `[[vk::` at all,
/// a Vulkan export no `register(`, both have as many binding annotations as reported bindings.
fn run_annot(on: bool, prog_s: &str, out: &mut Out, hist: &mut Hist) {
    let Some(prog) = WProgram::parse(prog_s) else {
        out.case(&format!("C18.annot\t{}\t{}\tbackend=ok", if on { "on" } else { "off" }, prog_s), "", "SKIP:bad program");
        return;
    };
    let r = render_wide(&prog, &RenderOpts { include: false });
    let defs: Vec<(&str, &str)> = if on { vec![("WIDE_ON", "1")] } else { Vec::new() };
    let dx = compile_info(&r.files, &defs, Tgt::Dx, &Mode::All);
    let vk = compile_info(&r.files, &defs, Tgt::Vk, &Mode::All);
    // whether the exporter itself gives up (a documented GenerateError) is an input of the model
    let req = format!(
        "C18.annot\t{}\t{}\tbackend={}",
        if on { "on" } else { "off" },
        prog_s,
        if class(&dx) == "back" || class(&vk) == "back" { "err" } else { "ok" }
    );
    let names: Vec<String> = prog.active(on).pipes().iter().map(|p| p.name.clone()).collect();
    let count = |t: &str| -> (usize, usize, usize, usize) {
        (t.matches("register(").count(), t.matches("[[vk::binding(").count(), t.matches("[[vk::ext_decorate(").count(), t.matches("[[vk::ext_extension(").count())
    };
    match (&dx, &vk) {
        (Verdict::Ok(d), Verdict::Ok(v)) if d.len() == v.len() && d.len() == names.len() => {
            let mut obs = String::new();
            let mut fails: Vec<String> = Vec::new();
            for i in 0..d.len() {
                let (a, b) = (count(&d[i].text), count(&v[i].text));
                obs.push_str(&format!("{}{{dx:{},{},{},{};vk:{},{},{},{}}}", names[i], a.0, a.1, a.2, a.3, b.0, b.1, b.2, b.3));
                if d[i].text.contains("[[vk::") {
                    fails.push(format!("pipeline {}: the DirectX export contains a [[vk:: attribute", names[i]));
                }
                if b.0 != 0 {
                    fails.push(format!("pipeline {}: the Vulkan export contains a register annotation", names[i]));
                }
                if a.0 != d[i].bindings.len() || b.1 != v[i].bindings.len() {
                    fails.push(format!(
                        "pipeline {}: {} register annotations for {} DirectX bindings, {} vk::binding for {} Vulkan bindings",
                        names[i], a.0, d[i].bindings.len(), b.1, v[i].bindings.len()
                    ));
                }
                if b.2 + b.3 > 0 {
                    hist.add("annot-per-primitive");
                }
            }
            hist.add("annot-ok");
            let oracle = if fails.is_empty() { "ok".to_string() } else { format!("FAIL:{}", fails[0]) };
            out.case(&req, &obs, &oracle);
        }
        (Verdict::Panic(p), _) | (_, Verdict::Panic(p)) => out.case(&req, &format!("panic:{}", p), &format!("FAIL:panic {}", p)),
        (Verdict::Err(e), _) if e == "Shader does not contain a single pipeline" => {
            hist.add("annot-none");
            out.case(&req, "none", "ok");
        }
        _ => {
            let c = class(&dx);
            hist.add(&format!("annot-{}", c));
            out.case(&req, if c == "ok" { "back" } else { c }, "ok");
        }
    }
}

// ------------------------------------------------------------------------------------------------ C18.defines

const PROBE_NAMES: &[&str] = &[
    "__HLSL_VERSION",
    "RSSL_TARGET_HLSL",
    "RSSL_TARGET_MSL",
    "RSSL_TARGET_VULKAN",
    "RSSL_TARGET_DIRECTX",
    "RSSL_TARGET_SPIRV",
    "RSSL_TARGET_METAL",
    "RSSL_TARGET",
    "__RSSL__",
    "RSSL",
    "__cplusplus",
    "__METAL_VERSION__",
];

/// the define list as seen from inside a file compiled for the target
fn observed_defines(tgt: Tgt) -> Result<Vec<(String, String)>, String> {
    let mut src = String::new();
    for (i, n) in PROBE_NAMES.iter().enumerate() {
        src.push_str(&format!("#ifdef {}\nstatic const uint probe_value_{} = {};\n#endif\n", n, i, n));
    }
    let files = [("main.rssl".to_string(), src)];
    match compile_info(&files, &[], tgt, &Mode::NoPipeline) {
        Verdict::Ok(ps) => {
            let text = &ps[0].text;
            let mut out = Vec::new();
            for (i, n) in PROBE_NAMES.iter().enumerate() {
                let key = format!("probe_value_{} = ", i);
                if let Some(p) = text.find(&key) {
                    let rest = &text[p + key.len()..];
                    let v: String = rest.chars().take_while(|c| c.is_ascii_alphanumeric()).collect();
                    out.push((n.to_string(), v.trim_end_matches('u').to_string()));
                }
            }
            Ok(out)
        }
        Verdict::Err(e) => Err(format!("err {}", one_line(&e))),
        Verdict::Panic(p) => Err(format!("panic {}", p)),
    }
}

/// The define list of the fifth configuration cannot be read back from an output (on a host without the Metal tool
/// chain there is none): it is read through the *front-end verdict*.  `#ifdef N` / `#if N == V` around a syntax error:
/// the file is rejected by the parser exactly when the condition holds, otherwise it gets past the front end.
fn observed_defines_mtlb() -> Result<Vec<(String, String)>, String> {
    const VALUES: &[&str] = &["0", "1", "2", "3", "2016", "2017", "2018", "2021", "2022", "202x"];
    let past_front_end = |src: String| -> Result<bool, String> {
        let files = [("main.rssl".to_string(), src)];
        match compile_info_mtlb(&files, &[], &Mode::NoPipeline, false) {
            Verdict::Ok(_) => Ok(true),
            Verdict::Err(e) if is_toolchain_error(&e) || is_backend_error(&e) => Ok(true),
            Verdict::Err(_) => Ok(false),
            Verdict::Panic(p) => Err(format!("panic {}", p)),
        }
    };
    // the probe itself: a syntax error must be reported, a clean file must not be
    if past_front_end("static const uint probe = ;\n".to_string())? {
        return Err("a file with a syntax error is not rejected by the front end".to_string());
    }
    if !past_front_end("static const uint probe = 1;\n".to_string())? {
        return Err("a clean file is rejected".to_string());
    }
    let mut out = Vec::new();
    for n in PROBE_NAMES {
        if past_front_end(format!("#ifdef {}\nstatic const uint probe = ;\n#endif\n", n))? {
            continue;
        }
        let mut val = "?".to_string();
        for v in VALUES {
            if v.chars().all(|c| c.is_ascii_digit())
                && !past_front_end(format!("#if {} == {}\nstatic const uint probe = ;\n#endif\n", n, v))?
            {
                val = v.to_string();
                break;
            }
        }
        out.push((n.to_string(), val));
    }
    Ok(out)
}

fn run_defines_mtlb(out: &mut Out) {
    let req = format!("C18.defines\t{}", MTLB);
    match observed_defines_mtlb() {
        Ok(ds) => {
            let obs: Vec<String> = ds.iter().map(|(n, v)| format!("{}={}", n, v)).collect();
            out.case(&req, &obs.join(";"), "ok");
        }
        Err(e) => out.case(
            &req,
            &e,
            &format!("FAIL:front-end verdict for MetalBytecode is not the one every other target gives: {}", e),
        ),
    }
}

fn run_defines(tgt: Tgt, out: &mut Out) {
    let req = format!("C18.defines\t{}", tgt.name());
    match observed_defines(tgt) {
        Ok(ds) => {
            let obs: Vec<String> = ds.iter().map(|(n, v)| format!("{}={}", n, v)).collect();
            out.case(&req, &obs.join(";"), "ok");
        }
        Err(e) => out.case(&req, &e, &format!("FAIL:the probing file does not compile: {}", e)),
    }
}

// ------------------------------------------------------------------------------------------------ C18.pp

const PP_IDS: &[&str] = &["a", "b", "c", "X", "Y", "Z", "FOO", "BAR", "__HLSL_VERSION", "defined_x"];
const PP_MACROS: &[&str] = &["X", "Y", "Z", "FOO", "BAR"];
const TARGET_MACROS: &[&str] = &["RSSL_TARGET_HLSL", "RSSL_TARGET_MSL"];

fn gen_toks(rng: &mut Rng, n: u64, mention: bool) -> Vec<String> {
    let mut v = Vec::new();
    for _ in 0..n {
        match rng.below(10) {
            0 => v.push(rng.below(4).to_string()),
            1 => v.push("+".into()),
            2 if mention => v.push(rng.pick(TARGET_MACROS).to_string()),
            _ => v.push(rng.pick(PP_IDS).to_string()),
        }
    }
    v
}

fn gen_cond(rng: &mut Rng, mention: bool, depth: u32) -> Vec<String> {
    let name = |rng: &mut Rng| -> String {
        if mention && rng.chance(1, 2) { rng.pick(TARGET_MACROS).to_string() } else { rng.pick(PP_IDS).to_string() }
    };
    match rng.below(if depth == 0 { 6 } else { 9 }) {
        0 => vec![rng.below(3).to_string()],
        1 => vec![name(rng)],
        2 => vec!["defined".into(), "(".into(), name(rng), ")".into()],
        3 => vec!["defined".into(), name(rng)],
        4 => vec!["!".into(), "defined".into(), "(".into(), name(rng), ")".into()],
        5 => vec![name(rng), "==".into(), rng.below(3).to_string()],
        6 => {
            let mut v = vec!["(".to_string()];
            v.extend(gen_cond(rng, mention, depth - 1));
            v.push(")".into());
            v.push(if rng.chance(1, 2) { "&&".into() } else { "||".into() });
            v.extend(gen_cond(rng, mention, depth - 1));
            v
        }
        7 => {
            let mut v = vec!["!".to_string(), "(".to_string()];
            v.extend(gen_cond(rng, mention, depth - 1));
            v.push(")".into());
            v
        }
        _ => {
            // malformed on purpose
            match rng.below(3) {
                0 => vec!["defined".into(), "(".into(), ")".into()],
                1 => vec!["(".into(), name(rng)],
                _ => vec![name(rng), "+".into()],
            }
        }
    }
}

fn gen_pp_program(rng: &mut Rng, mention: bool) -> Vec<String> {
    let n = 2 + rng.below(12);
    let mut lines = Vec::new();
    let mut depth = 0u32;
    for _ in 0..n {
        match rng.below(14) {
            0..=3 => {
                let k = 1 + rng.below(5);
                lines.push(format!("T {}", gen_toks(rng, k, mention).join(" ")));
            }
            4 | 5 => {
                let name = rng.pick(PP_MACROS).to_string();
                let k = rng.below(4);
                lines.push(format!("D {} {}", name, gen_toks(rng, k, mention).join(" ")).trim_end().to_string());
            }
            6 => lines.push(format!("U {}", rng.pick(PP_MACROS))),
            7 => {
                depth += 1;
                let n = if mention && rng.chance(1, 3) { rng.pick(TARGET_MACROS) } else { rng.pick(PP_IDS) };
                lines.push(format!("{} {}", if rng.chance(1, 2) { "IFDEF" } else { "IFNDEF" }, n));
            }
            8 | 9 => {
                depth += 1;
                lines.push(format!("IF {}", gen_cond(rng, mention, 2).join(" ")));
            }
            10 if depth > 0 || rng.chance(1, 8) => lines.push(format!("ELIF {}", gen_cond(rng, mention, 1).join(" "))),
            11 if depth > 0 || rng.chance(1, 8) => lines.push("ELSE".into()),
            12 | 13 if depth > 0 || rng.chance(1, 10) => {
                depth = depth.saturating_sub(1);
                lines.push("ENDIF".into());
            }
            _ => lines.push(format!("T {}", gen_toks(rng, 2, mention).join(" "))),
        }
    }
    // usually close what is open
    if !rng.chance(1, 10) {
        for _ in 0..depth {
            lines.push("ENDIF".into());
        }
    }
    lines
}

fn render_pp(lines: &[&str]) -> Option<String> {
    let mut s = String::new();
    for l in lines {
        let (k, rest) = l.split_once(' ').unwrap_or((l, ""));
        match k {
            "T" => s.push_str(&format!("{}\n", rest)),
            "D" => s.push_str(&format!("#define {}\n", rest)),
            "U" => s.push_str(&format!("#undef {}\n", rest)),
            "IFDEF" => s.push_str(&format!("#ifdef {}\n", rest)),
            "IFNDEF" => s.push_str(&format!("#ifndef {}\n", rest)),
            "IF" => s.push_str(&format!("#if {}\n", rest)),
            "ELIF" => s.push_str(&format!("#elif {}\n", rest)),
            "ELSE" => s.push_str("#else\n"),
            "ENDIF" => s.push_str("#endif\n"),
            _ => return None,
        }
    }
    Some(s)
}

fn show_token(t: &rssl::text::tokens::Token) -> String {
    use rssl::text::tokens::Token;
    match t {
        Token::Id(id) => id.0.clone(),
        Token::LiteralInt(n) => n.to_string(),
        Token::Plus => "+".into(),
        Token::LeftParen => "(".into(),
        Token::RightParen => ")".into(),
        Token::ExclamationPoint => "!".into(),
        Token::AmpersandAmpersand => "&&".into(),
        Token::VerticalBarVerticalBar => "||".into(),
        Token::EqualsEquals => "==".into(),
        other => format!("<{:?}>", other),
    }
}

fn pp_real(src: &str, defines: &[(String, String)]) -> String {
    let defs: Vec<(&str, &str)> = defines.iter().map(|(a, b)| (a.as_str(), b.as_str())).collect();
    let r = guard(|| {
        let mut sm = rssl::text::SourceManager::new();
        let mut inc = MemFiles(vec![("main.rssl".to_string(), src.to_string())]);
        match rssl::preprocess::preprocess("main.rssl", &mut sm, &mut inc, &defs) {
            Ok(toks) => {
                let v: Vec<String> = toks.iter().filter(|t| !t.0.is_whitespace()).map(|t| show_token(&t.0)).collect();
                format!("ok:{}", v.join(" "))
            }
            Err(e) => {
                use rssl::preprocess::PreprocessError as E;
                let k = match e {
                    E::ElseNotMatched => "ElseNotMatched".to_string(),
                    E::EndIfNotMatched => "EndIfNotMatched".to_string(),
                    E::ConditionChainNotFinished => "ConditionChainNotFinished".to_string(),
                    E::ElseAfterElse(_) => "ElseAfterElse".to_string(),
                    E::ElifAfterElse(_) => "ElifAfterElse".to_string(),
                    E::FailedToParseIfCondition(_)
                    | E::MacroExpectsDifferentNumberOfArguments
                    | E::MacroArgumentsNeverEnd
                    | E::MacroRequiresArguments(_) => "BadCondition".to_string(),
                    other => format!("{:?}", other).split('(').next().unwrap_or("?").to_string(),
                };
                format!("err:{}", k)
            }
        }
    });
    match r {
        Ok(s) => s,
        Err(p) => format!("panic:{}", p),
    }
}

fn parse_user_defines(s: &str) -> Vec<(String, String)> {
    s.split(',')
        .filter(|x| !x.is_empty())
        .filter_map(|x| x.split_once('=').map(|(a, b)| (a.to_string(), b.to_string())))
        .collect()
}

fn run_pp(user: &str, program: &str, out: &mut Out, hist: &mut Hist, defs_by_target: &[(&'static str, Vec<(String, String)>)]) {
    let lines: Vec<&str> = program.split(" ;; ").collect();
    let Some(src) = render_pp(&lines) else {
        out.case(&format!("C18.pp\tdx\t{}\t{}", user, program), "", "SKIP:bad program");
        return;
    };
    let mentions = TARGET_MACROS.iter().any(|m| program.split(' ').any(|w| w == *m) || user.contains(m));
    let mut obs_all = Vec::new();
    for (t, defs) in defs_by_target {
        let mut d = defs.clone();
        d.extend(parse_user_defines(user));
        obs_all.push((*t, pp_real(&src, &d)));
    }
    let all_same = obs_all.iter().all(|(_, o)| *o == obs_all[0].1);
    hist.add(if mentions { "pp-mentions" } else { "pp-clean" });
    hist.add(&format!("pp-outcome={}", obs_all[0].1.split(':').take(2).collect::<Vec<_>>().join(":").split(' ').next().unwrap_or("")));
    if mentions && !all_same {
        hist.add("pp-mentions-and-differs");
    }
    if obs_all[0].1.starts_with("panic:") {
        // a panic that every target shares is C08's business, not a disagreement between targets
        hist.add("pp-panic-on-every-target");
    }
    for (t, o) in &obs_all {
        let oracle = if !mentions && *o != obs_all[0].1 {
            format!("FAIL:preprocessor output depends on the target although RSSL_TARGET_* is not mentioned: dx `{}` vs {} `{}`", obs_all[0].1, t, o)
        } else if o.starts_with("panic:") && !all_same {
            format!("FAIL:panic {}", &o[6..])
        } else {
            "ok".to_string()
        };
        out.case(&format!("C18.pp\t{}\t{}\t{}", t, user, program), o, &oracle);
    }
}

// ------------------------------------------------------------------------------------------------ driver

pub fn run(args: &Args, out: &mut Out) {
    let mut hist = Hist::default();
    // debugging aid: `harness c18 dump <seed> <variant>` prints the generated file and what every target says
    if args.extra.first().map(|s| s.as_str()) == Some("dump") && args.extra.len() >= 3 {
        if let (Ok(seed), Some(b)) = (args.extra[1].parse::<u64>(), build(args.extra[1].parse().unwrap_or(0), &args.extra[2])) {
            let _ = seed;
            println!("{}", b.src);
            let mut files = vec![("main.rssl".to_string(), b.src.clone())];
            files.extend(b.includes.iter().cloned());
            for (n, c) in &b.includes {
                println!("---- {}\n{}", n, c);
            }
            let defs: Vec<(&str, &str)> = b.defines.iter().map(|(a, c)| (a.as_str(), c.as_str())).collect();
            for t in ALL_TARGETS {
                match compile_info(&files, &defs, t, &Mode::All) {
                    Verdict::Ok(ps) => {
                        for p in ps {
                            println!("==== {} {:?} {}\n{:?}\n{}", t.name(), p.stages, p.state, p.bindings, p.text);
                        }
                    }
                    Verdict::Err(e) => println!("==== {} ERR {}", t.name(), e),
                    Verdict::Panic(e) => println!("==== {} PANIC {}", t.name(), e),
                }
            }
            match compile_info_mtlb(&files, &defs, &Mode::All, false) {
                Verdict::Ok(ps) => println!("==== mtlb OK {} pipelines", ps.len()),
                Verdict::Err(e) => println!("==== mtlb ERR {}", e),
                Verdict::Panic(e) => println!("==== mtlb PANIC {}", e),
            }
        }
        return;
    }
    let defs_by_target = |out: &mut Out| -> Vec<(&'static str, Vec<(String, String)>)> {
        let _ = out;
        let mut v: Vec<(&'static str, Vec<(String, String)>)> =
            ALL_TARGETS.iter().map(|t| (t.name(), observed_defines(*t).unwrap_or_default())).collect();
        // (a define list that cannot be observed is reported by `C18.defines mtlb`, not by every C18.pp program)
        if let Ok(d) = observed_defines_mtlb() {
            v.push((MTLB, d));
        }
        v
    };
    if let Some(lines) = args.request_lines() {
        let mut defs: Option<Vec<(&'static str, Vec<(String, String)>)>> = None;
        let mut seen_pp: std::collections::HashSet<(String, String)> = Default::default();
        for line in lines {
            let f: Vec<&str> = line.split('\t').collect();
            match f[0] {
                "C18.cross" if f.len() >= 3 => {
                    if let Ok(seed) = f[1].parse::<u64>() {
                        run_cross(seed, f[2], out, &mut hist);
                    }
                }
                "C18.mode" if f.len() >= 4 => {
                    if let Ok(seed) = f[1].parse::<u64>() {
                        run_modes(seed, f[2], Some(f[3]), out, &mut hist);
                    }
                }
                "C18.simplify" if f.len() == 2 => run_simplify(f[1], out, &mut hist),
                "C18.annot" if f.len() == 4 => run_annot(f[1] == "on", f[2], out, &mut hist),
                "C18.defines" if f.len() == 2 => {
                    if f[1] == MTLB {
                        run_defines_mtlb(out);
                    } else if let Some(t) = Tgt::parse(f[1]) {
                        run_defines(t, out);
                    }
                }
                "C18.pp" if f.len() == 4 => {
                    // one request line per target is produced for every program: answer each program once
                    if seen_pp.insert((f[2].to_string(), f[3].to_string())) {
                        if defs.is_none() {
                            defs = Some(defs_by_target(out));
                        }
                        run_pp(f[2], f[3], out, &mut hist, defs.as_ref().unwrap());
                    }
                }
                _ => {}
            }
        }
        out.stat(&format!("{{\"mode\":\"replay\",\"hist\":{}}}", hist.json()));
        return;
    }
    for t in ALL_TARGETS {
        run_defines(t, out);
    }
    run_defines_mtlb(out);
    let n = args.n.unwrap_or(if args.thorough() { 10000 } else { 500 });
    let mut rng = Rng::new(args.seed);
    for i in 0..n {
        let seed = rng.next() >> 16;
        let variant = VARIANTS[(i as usize) % VARIANTS.len()];
        run_cross(seed, variant, out, &mut hist);
        run_modes(seed, variant, None, out, &mut hist);
    }
    // the wide programs of the C17 generator, every option combination by turns
    const WIDE_VARIANTS: &[&str] = &[
        "wide", "wide-rich", "wide-odd", "wide-inc-on", "wide-rich-on", "wide-odd-rich", "wide-on", "wide-rich-inc", "wide-odd-inc",
        "wide-rich", "wide-odd-on", "wide-rich-inc-on",
    ];
    let nw = if args.n.is_some() { 0 } else if args.thorough() { 5000 } else { 400 };
    for i in 0..nw {
        let seed = rng.next() >> 16;
        run_cross(seed, WIDE_VARIANTS[(i as usize) % WIDE_VARIANTS.len()], out, &mut hist);
        run_modes(seed, WIDE_VARIANTS[(i as usize) % WIDE_VARIANTS.len()], None, out, &mut hist);
    }
    // the Metal-only rewrite of cbuffer blocks on accepted wide programs
    let ns = if args.n.is_some() { 0 } else if args.thorough() { 3000 } else { 300 };
    for i in 0..ns {
        let mut prng = rng.fork();
        let wo = WideOpts {
            odd_percent: 0,
            bad_sampler_percent: 0,
            no_overloads: true,
            cbuffer_percent: 35,
            allow_mesh: i % 2 == 0,
            unsized_arrays: i % 3 == 0,
            ..WideOpts::default()
        };
        let prog = gen_wide(&mut prng, &wo);
        run_simplify(&prog.show(), out, &mut hist);
        // annotation counts: mesh pipelines are what makes the per-primitive sites show
        let wo = WideOpts { odd_percent: if i % 4 == 0 { 60 } else { 0 }, bad_sampler_percent: 0, no_overloads: true, allow_mesh: true, ..WideOpts::default() };
        let prog = gen_wide(&mut prng, &wo);
        run_annot(i % 2 == 0, &prog.show(), out, &mut hist);
    }
    let defs = defs_by_target(out);
    let npp = if args.thorough() { 20000 } else { 1500 };
    for i in 0..npp {
        let mention = i % 4 == 3;
        let lines = gen_pp_program(&mut rng, mention);
        let user = match rng.below(4) {
            0 => "FOO=1".to_string(),
            1 => "BAR=a + b,Z=0".to_string(),
            _ => String::new(),
        };
        run_pp(&user, &lines.join(" ;; "), out, &mut hist, &defs);
    }
    out.stat(&format!("{{\"programs\":{},\"pp_programs\":{},\"hist\":{}}}", n, npp, hist.json()));
}

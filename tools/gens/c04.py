"""C04 translator plugin: FixpointTables, PathLookup, TemplateConst.

* `parseLiteralTable` — `parse_literal` of typer/src/typer/expressions.rs: which `ir::Constant` variant an `ast::Literal`
  of each suffix kind becomes (and with which payload expression), or that it is rejected;
* `castDropLayers` — the `to_literal` test of the `Cast` arm of `generate_expression` (hlsl/src/ast_generate.rs): the
  layers, after `remove_modifier`, for which no cast is emitted.
* `PathLookup` — the lookup discipline behind every emitted path: the bodies of `Context::find_identifier` and
  `Context::walk_into_scopes` (typer/src/typer/scopes.rs) and of `scoped_name_to_identifier` (hlsl/src/ast_generate.rs),
  comments removed and white space normalised, plus what is read out of them structurally: the start scope of each
  `ScopedIdentifierBase`, the base the exporter prints, the stages of `find_identifier_in_scope` in order and what its
  symbol loop does with every `ScopeSymbol` variant.  `Thm.C04.path_lookup_as_modelled` compares them with the
  transcriptions next to `Model.FixpointNames.find`.
* `TemplateConst` — the way of a template VALUE argument (seeded mutant C04-4): which `RestrictedConstant` kind
  `parse_and_evaluate_constant_expression` makes of each `ir::Constant` kind (typer/src/typer/types.rs), what
  `find_overload_casts` does with a `TypeOrConstant::Constant` before it names the instantiation
  (typer/src/typer/expressions.rs), `RestrictedConstant::unrestrict` (ir/src/ir_types.rs), the symbol substituted for
  the parameter inside the instance (typer/src/typer/scopes.rs), how the exporter prints the argument at the call site
  (`generate_type_or_constant`) and the type name it prints for the parameter (hlsl/src/ast_generate.rs).
  `Thm.C04.template_const_as_modelled` compares them with `Model.FixpointTemplate`.
* `NameReserve` — the life of `used_names_all_scopes` in `NameMap::build` (ir/src/name_generator.rs; seeded mutant C04-5):
  every statement that touches the set the local pass avoids, in source order, with the loops around it.
  `Thm.C04.generated_names_reserved_as_modelled` compares the trace with what `Model.Names.finish` / `assignSym` do: the
  set exists before the per-scope loop, every generated candidate of every scope is recorded in it, the names of used
  functions / globals follow, and the local pass tests and extends this very set.
"""
import re


def register(gen, T):
    from rustsrc import ExtractError, fn_body, first_match, match_arms, normws, enum_variants, split_top

    def split_top_commas(text):
        return [p for p in split_top(text, ',') if p.strip()]

    @gen("FixpointTables")
    def fixpoint_tables():
        typer = T.src("typer/src/typer/expressions.rs")
        hlsl = T.src("hlsl/src/ast_generate.rs")
        ast_expr = T.src("ast/src/ast_expressions.rs")
        out = [T.header("FixpointTables", ["typer/src/typer/expressions.rs", "hlsl/src/ast_generate.rs",
                                            "ast/src/ast_expressions.rs"])]
        # ---- parse_literal
        body = fn_body(typer, "parse_literal")
        scrut, arms_text, _ = first_match(body, r'^ast$')
        lit_kinds = [v for v, _ in enum_variants(ast_expr, "Literal")]
        rows = {}
        for pats, guard, result in match_arms(arms_text):
            if guard is not None:
                raise ExtractError(f"parse_literal: guard {guard!r} unsupported")
            result = normws(result)
            m = re.match(r'^ir::Constant::([A-Za-z0-9]+)\((.*)\)$', result)
            if m:
                entry = (m.group(1), normws(m.group(2)))
            elif re.search(r'return Err\(TyperError::(Int64NotSupported|StringNotSupported)\(', result):
                entry = None
            else:
                raise ExtractError(f"parse_literal: result {result[:80]!r} unsupported")
            for p in pats:
                pm = re.match(r'^ast::Literal::([A-Za-z0-9]+)\((\w+)\)$', p)
                if not pm:
                    raise ExtractError(f"parse_literal: pattern {p!r} unsupported")
                k, var = pm.group(1), pm.group(2)
                if k in rows:
                    raise ExtractError(f"parse_literal: two arms for {k}")
                if entry is not None:
                    ck, payload = entry
                    allowed = {f"*{var}", f"*{var} as i128", f"*{var} as u32"}
                    if payload not in allowed:
                        raise ExtractError(f"parse_literal: payload {payload!r} of {k} is not the literal's own value")
                    rows[k] = (ck, payload.replace("*" + var, "v"))
                else:
                    rows[k] = None
        missing = [k for k in lit_kinds if k not in rows]
        if missing:
            raise ExtractError(f"parse_literal: no arm for {missing}")
        # after the match: the type is the constant's own type and the node is Literal(constant)
        tail = normws(body[body.index(arms_text) + len(arms_text):])
        if "constant.get_type(" not in tail or "ir::Expression::Literal(constant)" not in tail:
            raise ExtractError("parse_literal: the result is no longer Literal(constant) typed by constant.get_type")

        def lean_kind(k):
            return "Str" if k == "String" else k
        out.append("/-- `parse_literal`: suffix kind of the `ast::Literal` ↦ (variant of `ir::Constant`, payload as a function of the\n"
                   "literal's value `v`); `none` = rejected (`Int64NotSupported` / `StringNotSupported`).  Names as in the Rust enums. -/\n")
        out.append("def parseLiteralTable : List (String × Option (String × String)) :=\n  " + T.lean_list(
            '("%s", %s)' % (k, "none" if rows[k] is None else 'some ("%s", "%s")' % rows[k]) for k in lit_kinds) + "\n\n")
        # ---- Cast arm of generate_expression
        gb = fn_body(hlsl, "generate_expression")
        i = gb.find("ir::Expression::Cast(type_id, expr)")
        if i < 0:
            raise ExtractError("generate_expression: Cast arm not found")
        arm = gb[i:i + 1500]
        m = re.search(r'let unmod_id = context\s*\.module\s*\.type_registry\s*\.remove_modifier\(\*type_id\);', normws(arm))
        if not m:
            raise ExtractError("Cast arm: the literal test no longer removes the modifier first")
        m = re.search(r'let to_literal = matches!\(\s*context\.module\.type_registry\.get_type_layer\(unmod_id\),(.*?)\);', normws(arm))
        if not m:
            raise ExtractError("Cast arm: `to_literal = matches!(..)` not found")
        layers = []
        for p in m.group(1).split("|"):
            pm = re.match(r'^ir::TypeLayer::Scalar\(ir::ScalarType::([A-Za-z0-9]+)\)$', normws(p))
            if not pm:
                raise ExtractError(f"Cast arm: pattern {p!r} unsupported")
            layers.append(pm.group(1))
        if not re.search(r'if !to_literal \{ let ty = generate_type_id\(\*type_id, context\)\?; ast::Expression::Cast\(Box::new\(ty\), '
                         r'Box::new\(Located::none\(inner\)\)\) \} else \{ inner \}', normws(arm)):
            raise ExtractError("Cast arm: no longer `if !to_literal { Cast(type, inner) } else { inner }`")
        out.append("/-- scalar types, after `remove_modifier`, to which a `Cast` is not emitted (`to_literal`) -/\n")
        out.append("def castDropLayers : List String := " + T.lean_list('"%s"' % l for l in layers) + "\n")
        # ---- the literal shortcut of ImplicitConversion::apply with its payload expressions
        casting = T.src("typer/src/casting.rs")
        ab = fn_body(casting, "apply")
        rows2 = []
        for src_kind in ("IntLiteral", "FloatLiteral"):
            m = re.search(r'if let Expression::Literal\(Constant::' + src_kind + r'\(v\)\) = expr\s*&& target_is_unmodified\s*\{', ab)
            if not m:
                raise ExtractError(f"apply: the {src_kind} shortcut was not found")
            from rustsrc import matching
            blk_end = matching(ab, m.end() - 1)
            blk = ab[m.end():blk_end]
            _, arms2, _ = first_match(blk, r'get_type_layer\(target_type_unmodified\)')
            for pats, guard, result in match_arms(arms2):
                result = normws(result)
                if pats == ["_"]:
                    continue
                rm = re.match(r'^\{ return Expression::Literal\(Constant::([A-Za-z0-9]+)\((.*)\)\); \}$', result)
                if not rm or guard is not None:
                    raise ExtractError(f"apply: arm {pats!r} => {result[:60]!r} unsupported")
                for p_ in pats:
                    pm = re.match(r'^TypeLayer::Scalar\(ScalarType::([A-Za-z0-9]+)\)$', p_)
                    if not pm:
                        raise ExtractError(f"apply: pattern {p_!r} unsupported")
                    if pm.group(1) != rm.group(1):
                        raise ExtractError(f"apply: target {pm.group(1)} becomes a {rm.group(1)} constant")
                    rows2.append((src_kind, pm.group(1), normws(rm.group(2))))
        out.append("\n/-- `ImplicitConversion::apply`: (kind of the untyped literal, scalar type it is converted to, payload of the\n"
                   "re-tagged constant as an expression in the literal's value `v`) -/\n")
        out.append("def retagPayloads : List (String × String × String) :=\n  " + T.lean_list(
            '("%s", "%s", "%s")' % r for r in rows2) + "\n")
        out.append(T.footer("FixpointTables"))
        return "".join(out)

    @gen("PathLookup")
    def path_lookup():
        from rustsrc import lean_str
        scopes = T.src("typer/src/typer/scopes.rs")
        hlsl = T.src("hlsl/src/ast_generate.rs")
        out = [T.header("PathLookup", ["typer/src/typer/scopes.rs", "hlsl/src/ast_generate.rs"])]
        fi = normws(fn_body(scopes, "find_identifier"))
        wi = normws(fn_body(scopes, "walk_into_scopes"))
        sn = normws(fn_body(hlsl, "scoped_name_to_identifier"))
        out.append("/-- body of `Context::find_identifier` -/\ndef findIdentifierSource : String :=\n  %s\n\n" % lean_str(fi))
        out.append("/-- body of `Context::walk_into_scopes` -/\ndef walkIntoScopesSource : String :=\n  %s\n\n" % lean_str(wi))
        out.append("/-- body of `scoped_name_to_identifier` -/\ndef scopedNameToIdentifierSource : String :=\n  %s\n\n" % lean_str(sn))
        # ---- where the walk starts for each base
        m = re.search(r'let mut scope_index = match id\.base \{(.*?)\};', fi)
        if not m:
            raise ExtractError("find_identifier: `let mut scope_index = match id.base {..}` not found")
        starts = []
        for part in split_top_commas(m.group(1)):
            pm = re.match(r'^ast::ScopedIdentifierBase::(\w+) => (.*)$', part.strip())
            if not pm:
                raise ExtractError(f"find_identifier: base arm {part!r} unsupported")
            starts.append((pm.group(1), pm.group(2).strip()))
        out.append("/-- `ScopedIdentifierBase` variant ↦ the scope the outward walk starts in -/\n")
        out.append("def startScope : List (String × String) :=\n  " + T.lean_list('("%s", "%s")' % x for x in starts) + "\n\n")
        # ---- the base the exporter prints
        m = re.search(r'base: ast::ScopedIdentifierBase::(\w+)', sn)
        if not m:
            raise ExtractError("scoped_name_to_identifier: `base:` not found")
        out.append("/-- the base of every identifier the exporter builds from a qualified name -/\n")
        out.append('def emittedBase : String := "%s"\n\n' % m.group(1))
        # ---- find_identifier_in_scope: stages and symbol arms
        fs = fn_body(scopes, "find_identifier_in_scope")
        marks = [("variables", r'scope\s*\.variables\s*\.find_variable\('), ("symbols", r'scope\.symbols\.get\('),
                 ("overloads", r'if !overloads\.is_empty\(\)'), ("owning_struct", r'scope\.owning_struct'),
                 ("types", r'if let ScopeSymbol::Type\(id\) = symbol')]
        pos = []
        for name, pat in marks:
            mm = re.search(pat, fs)
            if not mm:
                raise ExtractError(f"find_identifier_in_scope: stage {name} not found")
            pos.append((mm.start(), name))
        out.append("/-- the stages of `find_identifier_in_scope` in the order they are tried -/\n")
        out.append("def findInScopeStages : List String := " + T.lean_list('"%s"' % n for _, n in sorted(pos)) + "\n\n")
        _, arms_text, _ = first_match(fs, r'^symbol$')
        arms = []
        for pats, guard, result in match_arms(arms_text):
            if guard is not None:
                raise ExtractError("find_identifier_in_scope: guarded arm")
            r = normws(result)
            if re.fullmatch(r'\{\s*\}', r):
                act = "skip"
            elif re.fullmatch(r'overloads\.push\(\*id\)', r):
                act = "gather"
            elif "return Some(" in r and "overloads" not in r:
                act = "return"
            else:
                raise ExtractError(f"find_identifier_in_scope: arm {pats!r} => {r[:60]!r} unsupported")
            for p_ in pats:
                pm = re.match(r'^ScopeSymbol::(\w+)(\(.*\))?$', p_)
                if not pm:
                    raise ExtractError(f"find_identifier_in_scope: pattern {p_!r} unsupported")
                arms.append((pm.group(1), act))
        out.append("/-- what the symbol loop of `find_identifier_in_scope` does with each `ScopeSymbol` variant -/\n")
        out.append("def findInScopeArms : List (String × String) :=\n  " + T.lean_list('("%s", "%s")' % a for a in arms) + "\n\n")
        # ---- register_enum_value: what is refused before a value is inserted (since fix fe5dd8d also the name of a
        # namespace of the scope that contains the enum), in the order of the checks; end_enum: the promotion loop
        rv = fn_body(scopes, "register_enum_value")
        checks = []
        at = 0
        for which, scope_pat in (("enum-scope", r'self\.scopes\[self\.current_scope\]'), ("parent-scope", r'self\.scopes\[parent_scope\]')):
            try:
                scrut, arms_text, at = first_match(rv, r'^self\.find_identifier_in_scope\(&' + scope_pat + r', &name\)$', at)
            except ExtractError:
                raise ExtractError(f"register_enum_value: the check of the {which} by find_identifier_in_scope was not found")
            for pats, guard, result in match_arms(arms_text):
                if guard is not None:
                    raise ExtractError("register_enum_value: guarded arm")
                r = normws(result)
                if re.fullmatch(r'\{\s*\}', r):
                    if pats != ["_"]:
                        raise ExtractError(f"register_enum_value: arm {pats!r} does nothing")
                    continue
                if re.match(r'^\{ return Err\(TyperError::ValueAlreadyDefined\(', r):
                    act = "refuse"
                elif re.match(r'^\{ panic!\(', r):
                    act = "panic"
                else:
                    raise ExtractError(f"register_enum_value: arm {pats!r} => {r[:60]!r} unsupported")
                for p_ in pats:
                    pm = re.match(r'^Some\(VariableExpression::(\w+)\b', p_)
                    if not pm:
                        raise ExtractError(f"register_enum_value: pattern {p_!r} unsupported")
                    checks.append((which, pm.group(1), act))
        rest = normws(rv[at:])
        m = re.match(r'^;? ?if let Some\(symbols\) = self\.scopes\[parent_scope\]\.symbols\.get\(&name\.node\) \{ if symbols \.iter\(\) '
                     r'\.any\(\|symbol\| matches!\(symbol, (.*?)\)\) \{ return Err\(TyperError::ValueAlreadyDefined\(.*?\)\); \} \} (.*)$', rest)
        if m:
            for p_ in m.group(1).split("|"):
                pm = re.match(r'^ScopeSymbol::(\w+)\(_\)$', p_.strip())
                if not pm:
                    raise ExtractError(f"register_enum_value: symbol pattern {p_!r} unsupported")
                checks.append(("parent-symbols", pm.group(1), "refuse"))
            rest = m.group(2)
        # what follows the checks must be the two insertions and nothing that returns
        if "return" in rest or rest.count("existing_symbols.push(ScopeSymbol::EnumValueUntyped(id))") != 2:
            raise ExtractError("register_enum_value: after the checks there is more than the two insertions")
        out.append("/-- `register_enum_value`: (what is looked at, what is found, what happens), in the order of the checks; anything else\n"
                   "is inserted into the enum scope and into the scope that contains the enum -/\n")
        out.append("def enumValueChecks : List (String × String × String) :=\n  " +
                   T.lean_list('("%s", "%s", "%s")' % c for c in checks) + "\n\n")
        ee = normws(fn_body(scopes, "end_enum"))
        m = re.search(r'let mut replacements = 0; (for \(name, _\) in &enum_values \{.*?\}) assert_eq!\(replacements, enum_values\.len\(\)\);', ee)
        if not m:
            raise ExtractError("end_enum: the promotion loop between `let mut replacements = 0;` and its assertion was not found")
        out.append("/-- `end_enum`: the loop that promotes the untyped values of the scope that contains the enum -/\n")
        out.append("def endEnumPromotion : String :=\n  %s\n" % lean_str(m.group(1)))
        out.append(T.footer("PathLookup"))
        return "".join(out)

    @gen("TemplateConst")
    def template_const():
        from rustsrc import lean_str
        typer_e = T.src("typer/src/typer/expressions.rs")
        typer_t = T.src("typer/src/typer/types.rs")
        scopes = T.src("typer/src/typer/scopes.rs")
        irt = T.src("ir/src/ir_types.rs")
        hlsl = T.src("hlsl/src/ast_generate.rs")
        out = [T.header("TemplateConst", ["typer/src/typer/expressions.rs", "typer/src/typer/types.rs",
                                          "typer/src/typer/scopes.rs", "ir/src/ir_types.rs", "hlsl/src/ast_generate.rs"])]
        # ---- find_overload_casts: `arg.node = match arg.node { Type(ty) => .., Constant(c) => .. };`
        body = fn_body(typer_e, "find_overload_casts")
        m = re.search(r'arg\.node\s*=\s*match\s+arg\.node\s*\{', body)
        if not m:
            raise ExtractError("find_overload_casts: `arg.node = match arg.node {..}` not found")
        _, arms_text, _ = first_match(body, r'^arg\.node$', m.start())
        rec = []
        for pats, guard, result in match_arms(arms_text):
            if guard is not None or len(pats) != 1:
                raise ExtractError("find_overload_casts: template argument arm with guard / alternatives")
            pm = re.match(r'^ir::TypeOrConstant::(\w+)\((\w+)\)$', pats[0])
            if not pm:
                raise ExtractError(f"find_overload_casts: template argument pattern {pats[0]!r} unsupported")
            res = normws(result)
            res = re.sub(r'^\{\s*(.*?)\s*\}$', r'\1', res)
            rec.append((pm.group(1), res))
        out.append("/-- `find_overload_casts`: what is recorded for an explicit / inferred template argument, per variant -/\n")
        out.append("def recordArms : List (String × String) :=\n  " + T.lean_list('("%s", %s)' % (a, lean_str(b)) for a, b in rec) + "\n\n")
        # ---- parse_and_evaluate_constant_expression: Constant kind -> RestrictedConstant kind
        body = fn_body(typer_t, "parse_and_evaluate_constant_expression")
        _, arms_text, _ = first_match(body, r'^constant$')
        rows = []
        for pats, guard, result in match_arms(arms_text):
            if guard is not None:
                raise ExtractError("parse_and_evaluate_constant_expression: guard unsupported")
            res = normws(result)
            for p in pats:
                if p.strip() == "_":
                    if "ExpressionIsNotConstantExpression" not in res:
                        raise ExtractError("parse_and_evaluate_constant_expression: default arm is not a rejection")
                    continue
                pm = re.match(r'^ir::Constant::(\w+)\((\w+)\)$', p)
                rm = re.match(r'^ir::RestrictedConstant::(\w+)\((\w+)\)$', res)
                if not pm or not rm or pm.group(2) != rm.group(2):
                    raise ExtractError(f"parse_and_evaluate_constant_expression: arm {p!r} => {res!r} unsupported")
                rows.append((pm.group(1), rm.group(1)))
        out.append("/-- `parse_and_evaluate_constant_expression`: kind of the evaluated constant ↦ kind of the template argument\n"
                   "    (payload unchanged); kinds not listed are rejected (`ExpressionIsNotConstantExpression`) -/\n")
        out.append("def restrictTable : List (String × String) :=\n  " + T.lean_list('("%s", "%s")' % r for r in rows) + "\n\n")
        # ---- RestrictedConstant::unrestrict
        body = fn_body(irt, "unrestrict")
        _, arms_text, _ = first_match(body, None)
        rows = []
        for pats, guard, result in match_arms(arms_text):
            res = normws(result)
            for p in pats:
                pm = re.match(r'^RestrictedConstant::(\w+)\((\w+)\)$', p)
                rm = re.match(r'^Constant::(\w+)\((\w+)\)$', res)
                if pm and rm and pm.group(2) == rm.group(2) and guard is None:
                    rows.append((pm.group(1), rm.group(1)))
                elif not p.startswith("RestrictedConstant::Enum("):
                    raise ExtractError(f"unrestrict: arm {p!r} => {res!r} unsupported")
        out.append("/-- `RestrictedConstant::unrestrict` (payload unchanged; the `Enum` arm recurses) -/\n")
        out.append("def unrestrictTable : List (String × String) :=\n  " + T.lean_list('("%s", "%s")' % r for r in rows) + "\n\n")
        # ---- the symbol an instance gets for a template value parameter
        m = re.search(r'ScopeSymbol::TemplateValue\(template_param_id\)\s*=>(.*?)ir::TypeOrConstant::Constant\(c\)\s*=>\s*\{\s*'
                      r'new_symbols\.push\(\(\s*template_param_name\.clone\(\),\s*(.*?),?\s*\)\);', scopes, re.S)
        if not m:
            raise ExtractError("scopes.rs: substitution of a template value parameter not found")
        out.append("/-- the symbol the scope of an instance gets for a template value parameter -/\n")
        out.append("def substitutedSymbol : String := %s\n\n" % lean_str(normws(m.group(2))))
        # ---- the exporter: argument at the call site, type name of the parameter
        body = fn_body(hlsl, "generate_type_or_constant")
        m = re.search(r'ir::TypeOrConstant::Constant\(c\)\s*=>\s*\{\s*let expr = (.*?);', body, re.S)
        if not m:
            raise ExtractError("generate_type_or_constant: Constant arm not found")
        out.append("/-- `generate_type_or_constant`: the expression printed for a constant template argument -/\n")
        out.append("def callSiteExpr : String := %s\n\n" % lean_str(normws(m.group(1))))
        m = re.search(r'let value_type_name = match c \{', hlsl)
        if not m:
            raise ExtractError("ast_generate.rs: `let value_type_name = match c {` not found")
        _, arms_text, _ = first_match(hlsl, r'^c$', m.start())
        rows = []
        for pats, guard, result in match_arms(arms_text):
            res = normws(result)
            for p in pats:
                pm = re.match(r'^ir::RestrictedConstant::(\w+)\(_\)$', p)
                rm = re.match(r'^"(\w+)"$', res)
                if pm and rm:
                    rows.append((pm.group(1), rm.group(1)))
                elif p.strip() == "_" and res.startswith("todo!"):
                    continue
                else:
                    raise ExtractError(f"value_type_name: arm {p!r} => {res[:40]!r} unsupported")
        out.append("/-- type name printed for the value parameter of an instance, per kind of the argument (others: `todo!`) -/\n")
        out.append("def valueTypeNames : List (String × String) :=\n  " + T.lean_list('("%s", "%s")' % r for r in rows) + "\n\n")
        out.append(T.footer("TemplateConst"))
        return "".join(out)

    @gen("ProtoParams")
    def proto_params():
        """which declaration of a function supplies what: the signature (number of parameters without a default) comes from
        the first declaration, the printed parameter list of EVERY declaration from the definition"""
        from rustsrc import lean_str
        funcs = T.src("typer/src/typer/functions.rs")
        hlsl = T.src("hlsl/src/ast_generate.rs")

        def stmts(body, word):
            """the statements / block headers (text between `;`, `{`, `}`) of `body` that mention `word`"""
            out_ = []
            for piece in re.split(r'[;{}]', body):
                t = normws(piece)
                if t and re.search(r'(?<![A-Za-z0-9_])' + re.escape(word) + r'(?![A-Za-z0-9_])', t):
                    out_.append(t)
            if not out_:
                raise ExtractError("ProtoParams: no statement mentions `%s`" % word)
            return out_

        inner = fn_body(hlsl, "generate_function_inner")
        root = fn_body(hlsl, "generate_root_definition")
        param = fn_body(hlsl, "generate_function_param")
        pf = fn_body(funcs, "parse_function")
        sig = fn_body(funcs, "parse_function_signature")
        bodyf = fn_body(funcs, "parse_function_body")
        out = [T.header("ProtoParams", ["typer/src/typer/functions.rs", "hlsl/src/ast_generate.rs"])]

        def emit(name, doc, items):
            out.append("/-- %s -/\ndef %s : List String :=\n  %s\n\n" % (doc, name, T.lean_list(lean_str(t) for t in items)))

        emit("exporterDecl", "`generate_function_inner`: every statement that mentions `decl` (the `FunctionImplementation`)",
             stmts(inner, "decl"))
        emit("exporterOnlyDeclare", "`generate_function_inner`: every statement that mentions `only_declare`",
             stmts(inner, "only_declare"))
        emit("exporterRootArms", "`generate_root_definition`: the statements that mention `FunctionDeclaration` or call "
             "`generate_function` (every arm for a prototype: none of them drops or rewrites it)",
             stmts(root, "FunctionDeclaration") + [t for t in stmts(root, "generate_function") if "FunctionDeclaration" not in t])
        emit("exporterDefault", "`generate_function_param`: every statement that mentions `default_expr`",
             stmts(param, "default_expr"))
        emit("typerPredeclaration", "`parse_function`: every statement that mentions `id` (which declaration owns the function)",
             stmts(pf, "id"))
        emit("typerSignature", "`parse_function`: every statement that mentions `signature`", stmts(pf, "signature"))
        emit("typerNonDefault", "`parse_function_signature`: every statement that mentions `non_default_params`",
             stmts(sig, "non_default_params"))
        emit("typerImplDefault", "`parse_function_body`: every statement that mentions `default_expr`",
             stmts(bodyf, "default_expr"))
        out.append(T.footer("ProtoParams"))
        return "".join(out)

    @gen("NameReserve")
    def name_reserve():
        from rustsrc import lean_str, impl_fn_body
        ng = T.src("ir/src/name_generator.rs")
        body = normws(impl_fn_body(ng, r'NameMap', "build"))
        var = "used_names_all_scopes"
        out = [T.header("NameReserve", ["ir/src/name_generator.rs"])]
        # block structure: for every `{` the header text since the previous `;`, `{` or `}`
        events = []
        stack = []
        last = 0
        i = 0
        n = len(body)
        pending = []      # occurrences inside the current statement
        while i < n:
            c = body[i]
            if body.startswith(var, i) and (i == 0 or not (body[i - 1].isalnum() or body[i - 1] == '_')) \
                    and not (i + len(var) < n and (body[i + len(var)].isalnum() or body[i + len(var)] == '_')):
                pending.append(i)
                i += len(var)
                continue
            if c in ';{}':
                stmt = body[last:i].strip()
                if pending:
                    loops = [h for h in stack if h.startswith(("for ", "loop", "while "))]
                    conds = [h for h in stack if h.startswith("if ")]
                    events.append((" > ".join(loops), " > ".join(conds), stmt + (c if c == ';' else '')))
                    pending = []
                if c == '{':
                    stack.append(stmt)
                elif c == '}':
                    if not stack:
                        raise ExtractError("NameMap::build: unbalanced braces")
                    stack.pop()
                last = i + 1
            i += 1
        if not events:
            raise ExtractError("NameMap::build: `used_names_all_scopes` not found")
        out.append("/-- every statement of `NameMap::build` that mentions `used_names_all_scopes`, in source order:\n"
                   "    (enclosing loops, enclosing conditions, the statement or block header) -/\n"
                   "def allScopesEvents : List (String × String × String) :=\n  " + T.lean_list(
                       "(%s, %s, %s)" % (lean_str(a), lean_str(b), lean_str(c)) for a, b, c in events) + "\n\n")
        # the loops of the function in source order (top level only): the per-scope loop comes before the usage loop and
        # the local pass
        tops = []
        depth = 0
        last = 0
        for i, c in enumerate(body):
            if c in ';{}':
                stmt = body[last:i].strip()
                if c == '{':
                    if depth == 0 and stmt.startswith(("for ", "loop", "while ")):
                        tops.append(stmt)
                    depth += 1
                elif c == '}':
                    depth -= 1
                elif depth == 0 and stmt.startswith("let ") and (var in stmt):
                    tops.append(stmt + ";")
                last = i + 1
        out.append("/-- the top-level loops of `NameMap::build` and the declaration of the set, in source order -/\n"
                   "def topLevelOrder : List String :=\n  " + T.lean_list(lean_str(t) for t in tops) + "\n")
        out.append(T.footer("NameReserve"))
        return "".join(out)

import RsslVerif.Lemmas.FixpointElab
import RsslVerif.Lemmas.FixpointArithDim
set_option linter.unusedSimpArgs false
/-!
Lemmas for C04 `reelab_no_new_casts`, part 2b: inversion / introduction of `elabArith` and its stability under
re-elaboration (the type-level facts are in `FixpointArithDim`).  Core Lean only.
-/
namespace RsslVerif.Lemmas.FixpointArith
open RsslVerif.Gen.RankTable RsslVerif.Gen.TypingTables
open RsslVerif.Model.Conv RsslVerif.Model.Overload RsslVerif.Model.IrTyping RsslVerif.Model.Elab
open RsslVerif.Model.Fixpoint RsslVerif.Lemmas.ElabConv RsslVerif.Lemmas.Elab RsslVerif.Lemmas.ElabExact
open RsslVerif.Lemmas.ElabRelease RsslVerif.Lemmas.FixpointElab RsslVerif.Lemmas.FixpointArithDim

/-! ## `elabArith`: inversion and introduction -/

/-- the type both operands are converted to -/
def DTy (ts : Scalar) (dim : Dim) : ETy := (Ty.mk {} (Layer.ofDim ts dim)).r

theorem isEnum_false_iff (l : Layer) : isEnum l = false ↔ ∀ id, l ≠ .enum id := by
  cases l <;> simp [isEnum]

theorem arithBuild_inv {o : BinOp} {ca cb : Conversion} {a b n : IExpr} {τ : ETy}
    (h : arithBuild o ca cb a b = .ok (n, τ)) :
    ∃ ta a2 b2 i, targetType ca = .ok ta ∧ targetType cb = .ok ta ∧ applyConv ca a = .ok a2 ∧ applyConv cb b = .ok b2 ∧
      o.toIOp = some i ∧ opReturn i [ta, ta] = .ok τ ∧ n = .op i (.cons a2 (.cons b2 .nil)) := by
  unfold arithBuild at h
  split at h
  · simp at h
  · rename_i ta hta
    split at h
    · simp at h
    · rename_i tb htb
      split at h
      · simp at h
      · rename_i hne
        simp at hne; subst hne
        split at h
        · simp at h
        · rename_i a2 ha2
          split at h
          · simp at h
          · rename_i b2 hb2
            split at h
            · simp at h
            · rename_i i hi
              split at h
              · simp at h
              · rename_i out hout
                simp at h
                exact ⟨ta, a2, b2, i, hta, htb, ha2, hb2, hi, by rw [hout, h.2], h.1.symm⟩

theorem arithBuild_intro {o : BinOp} {ca cb : Conversion} {a b a2 b2 : IExpr} {ta τ : ETy} {i : IOp}
    (h1 : targetType ca = .ok ta) (h2 : targetType cb = .ok ta) (h3 : applyConv ca a = .ok a2)
    (h4 : applyConv cb b = .ok b2) (h5 : o.toIOp = some i) (h6 : opReturn i [ta, ta] = .ok τ) :
    arithBuild o ca cb a b = .ok (.op i (.cons a2 (.cons b2 .nil)), τ) := by
  simp [arithBuild, h1, h2, h3, h4, h5, h6]

theorem elabArith_inv {o : BinOp} {a b n : IExpr} {τa τb τ : ETy} (h : elabArith o a τa b τb = .ok (n, τ)) :
    ∃ ts dim ca cb a2 b2 i, isEnum τa.ty.layer = false ∧ isEnum τb.ty.layer = false ∧
      arithTarget o τa.ty.layer τb.ty.layer = .ok (.scalar ts) ∧
      selectVectorRank τa.ty.layer τb.ty.layer = some dim ∧
      find τa (DTy (arithScalar ts dim) dim) = .ok (some ca) ∧ find τb (DTy (arithScalar ts dim) dim) = .ok (some cb) ∧
      applyConv ca a = .ok a2 ∧ applyConv cb b = .ok b2 ∧ o.toIOp = some i ∧
      opReturn i [DTy (arithScalar ts dim) dim, DTy (arithScalar ts dim) dim] = .ok τ ∧
      n = .op i (.cons a2 (.cons b2 .nil)) := by
  unfold elabArith at h
  split at h
  · simp at h
  · simp at h
  · rename_i la lb hna hnb
    split at h
    · simp at h
    · rename_i ts hts
      split at h
      · simp at h
      · rename_i dim hdim
        split at h
        · simp at h
        · simp at h
        · rename_i ca hca
          split at h
          · simp at h
          · simp at h
          · rename_i cb hcb
            obtain ⟨ta, a2, b2, i, h1, h2, h3, h4, h5, h6, h7⟩ := arithBuild_inv h
            have hta : ta = DTy (arithScalar ts dim) dim := by
              have := targetType_ok hca
              rw [h1] at this
              simp at this
              exact this
            subst hta
            exact ⟨ts, dim, ca, cb, a2, b2, i, (isEnum_false_iff _).2 hna, (isEnum_false_iff _).2 hnb, hts, hdim, hca, hcb,
              h3, h4, h5, h6, h7⟩
    · simp at h

theorem elabArith_intro {o : BinOp} {a b a2 b2 : IExpr} {τa τb τ : ETy} {ts : Scalar} {dim : Dim} {ca cb : Conversion} {i : IOp}
    (hna : isEnum τa.ty.layer = false) (hnb : isEnum τb.ty.layer = false)
    (hts : arithTarget o τa.ty.layer τb.ty.layer = .ok (.scalar ts))
    (hdim : selectVectorRank τa.ty.layer τb.ty.layer = some dim)
    (hca : find τa (DTy (arithScalar ts dim) dim) = .ok (some ca))
    (hcb : find τb (DTy (arithScalar ts dim) dim) = .ok (some cb))
    (h3 : applyConv ca a = .ok a2) (h4 : applyConv cb b = .ok b2) (h5 : o.toIOp = some i)
    (h6 : opReturn i [DTy (arithScalar ts dim) dim, DTy (arithScalar ts dim) dim] = .ok τ) :
    elabArith o a τa b τb = .ok (.op i (.cons a2 (.cons b2 .nil)), τ) := by
  unfold elabArith
  split
  · rename_i hl; rw [hl] at hna; simp [isEnum] at hna
  · rename_i hl _; rw [hl] at hnb; simp [isEnum] at hnb
  · simp only [hts, hdim]
    have hca' := hca
    have hcb' := hcb
    unfold DTy at hca' hcb'
    simp only [hca', hcb']
    exact arithBuild_intro (targetType_ok hca) (targetType_ok hcb) h3 h4 h5 h6

theorem DTy_int32 {ts : Scalar} {dim : Dim} (h : DTy ts dim = (scalarTy .int32).r) : ts = .int32 ∧ dim = .scalar := by
  cases dim <;> simp [DTy, scalarTy, Ty.r, Layer.ofDim] at h
  exact ⟨h, rfl⟩

/-- layer of a re-elaborated left operand -/
theorem back_layer_left {o : BinOp} {a' a2 a0 : IExpr} {τa τa0 : ETy} {lb : Layer} {ts : Scalar} {dim : Dim}
    (hb : Back τa (DTy (arithScalar ts dim) dim) a' a2 a0 τa0) (ht : arithTarget o τa.ty.layer lb = .ok (.scalar ts)) :
    τa0.ty.layer = τa.ty.layer ∨ τa0.ty.layer = Layer.ofDim (arithScalar ts dim) dim := by
  cases hb with
  | same => exact Or.inl rfl
  | exact _ => exact Or.inr rfl
  | relit _ hD hτ =>
    rcases hτ with rfl | rfl
    · exact Or.inl rfl
    · exfalso
      obtain ⟨h1, rfl⟩ := DTy_int32 hD
      rw [arithScalar_scalar] at h1
      subst h1
      rw [arithTarget_eq] at ht
      exact (aT_floatLit_not_int32 _ _ _ _).1 ht

theorem back_layer_right {o : BinOp} {b' b2 b0 : IExpr} {τb τb0 : ETy} {la : Layer} {ts : Scalar} {dim : Dim}
    (hb : Back τb (DTy (arithScalar ts dim) dim) b' b2 b0 τb0) (ht : arithTarget o la τb.ty.layer = .ok (.scalar ts)) :
    τb0.ty.layer = τb.ty.layer ∨ τb0.ty.layer = Layer.ofDim (arithScalar ts dim) dim := by
  cases hb with
  | same => exact Or.inl rfl
  | exact _ => exact Or.inr rfl
  | relit _ hD hτ =>
    rcases hτ with rfl | rfl
    · exact Or.inl rfl
    · exfalso
      obtain ⟨h1, rfl⟩ := DTy_int32 hD
      rw [arithScalar_scalar] at h1
      subst h1
      rw [arithTarget_eq] at ht
      exact (aT_floatLit_not_int32 _ _ _ _).2 ht

/-- **Arithmetic operators are stable under re-elaboration**: if both exported operands elaborate to one of the `Back`
    cases, the operator node is rebuilt with the same operands and the same type. -/
theorem elabArith_stable {o : BinOp} {a' b' n : IExpr} {τa τb τ : ETy}
    (h : elabArith o a' τa b' τb = .ok (n, τ)) :
    ∃ D ca cb a2 b2 i, find τa D = .ok (some ca) ∧ find τb D = .ok (some cb) ∧ D.vt = .rvalue ∧
      applyConv ca a' = .ok a2 ∧ applyConv cb b' = .ok b2 ∧ o.toIOp = some i ∧ n = .op i (.cons a2 (.cons b2 .nil)) ∧
      (∀ a0 τa0 b0 τb0, Back τa D a' a2 a0 τa0 → Back τb D b' b2 b0 τb0 → elabArith o a0 τa0 b0 τb0 = .ok (n, τ)) := by
  obtain ⟨ts, dim, ca, cb, a2, b2, i, hna, hnb, hts, hdim, hca, hcb, h3, h4, h5, h6, h7⟩ := elabArith_inv h
  refine ⟨DTy (arithScalar ts dim) dim, ca, cb, a2, b2, i, hca, hcb, rfl, h3, h4, h5, h7, ?_⟩
  intro a0 τa0 b0 τb0 hba hbb
  -- the working kind of the re-elaborated operands may differ from `ts` (`bool3 + 1`: `IntLiteral`; `(int3)b + (int3)1`:
  -- `int`), but not after the remap of fix 40c6233: the working type is the same
  obtain ⟨hna0, hnb0, ts0, hts0, hsc0, hdim0⟩ :=
    arith_stable_remap hna hnb hts hdim (back_layer_left hba hts) (back_layer_right hbb hts)
  obtain ⟨ca0, hca0, h30⟩ := back_find hca h3 hba
  obtain ⟨cb0, hcb0, h40⟩ := back_find hcb h4 hbb
  rw [h7]
  rw [← hsc0] at hca0 hcb0 h6
  exact elabArith_intro hna0 hnb0 hts0 hdim0 hca0 hcb0 h30 h40 h5 h6

end RsslVerif.Lemmas.FixpointArith
